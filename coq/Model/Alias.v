(* C05 (inputs are never modified, results never alias) — buffer heap model.
   A heap is a list of buffers (buffer id = position); a buffer is the memory behind one variable's data (or mask,
   or a file's attribute / dimension table): cells are abstract.  An operation of the library is described by its
   EFFECTS on the buffers of its input files: which it writes in place, and which input buffers back a variable of
   the returned file (view / same object) instead of a fresh allocation.  impl_effs transcribes the code
   (core/_files.py, core/_functions.py) with its defects, spec_effs is what the property demands (none).
   No proofs in this file. *)
From PNC Require Import Base.Util Model.Handles.

Section Heap.
Variable A : Type.
Definition heap := list (list A).
Definition hread (h : heap) (i : nat) : option (list A) := nth_error h i.
Definition hwrite (h : heap) (i : nat) (v : list A) : heap := set_nth h i v.

(* how one output variable of the returned file is backed, / an in-place write on an input *)
Inductive action :=
  | Fresh (v : list A)             (* createVariable / copyVariable: np.zeros(...) then assignment: new buffer *)
  | Alias (i : nat)                (* the output variable IS (a view of) input buffer i *)
  | Mutate (i : nat) (v : list A). (* in-place operator on a view of input buffer i *)

(* run: returns the new heap and the buffer ids behind the output variables *)
Fixpoint run_actions (h : heap) (acts : list action) : heap * list nat :=
  match acts with
  | [] => (h, [])
  | Fresh v :: t => let (h', out) := run_actions (h ++ [v]) t in (h', length h :: out)
  | Alias i :: t => let (h', out) := run_actions h t in (h', i :: out)
  | Mutate i v :: t => run_actions (hwrite h i v) t
  end.

Definition is_fresh (a : action) : bool := match a with Fresh _ => true | _ => false end.

(* any later sequence of writes into the returned file's variables *)
Definition write_all (h : heap) (ws : list (nat * list A)) : heap :=
  fold_left (fun h' w => hwrite h' (fst w) (snd w)) ws h.
End Heap.
Arguments Fresh {A}. Arguments Alias {A}. Arguments Mutate {A}.

(* ---- effects on the inputs ------------------------------------------------------------------------------ *)
Inductive eff := EAlias (i : nat) | EMutate (i : nat).

(* ---- buffer-level transcription of the library calls ---------------------------------------------------------
   Array expressions as the code writes them; what matters is whose memory they denote. *)
Inductive src :=
  | SVar (i : nat)      (* self.variables[k] of an in-memory file: the variable object itself, buffer i *)
  | SDisk (i : nat)     (* the same for a disk-backed (netCDF4) variable: every [...] reads into a new array *)
  | SView (s : src)     (* s[...], s[:], s[a:b:c], s.swapaxes, np.rollaxis(s), np.expand_dims(s), s.view(): s's buffer *)
  | SCopy (s : src).    (* s.copy(), s.astype(..), np.array(s), arithmetic / take / concatenate / masked_where(copy=True): new buffer *)

Fixpoint base (s : src) : option nat :=
  match s with SVar i => Some i | SDisk _ => None | SView s' => base s' | SCopy _ => None end.

Inductive stmt :=
  | CopyVariable (s : src)  (* outf.copyVariable(var): createVariable -> np.zeros(shape), then myvar[:] = vals[:] *)
  | CreateAssign (s : src)  (* v = outf.createVariable(...) / copyVariable(withdata=False); v[...] = s *)
  | CreateValues (s : src)  (* outf.createVariable(..., values=s): `result = values[...].view(subtype)`, no allocation *)
  | StoreObject (s : src)   (* outf.variables[k] = s *)
  | Inplace (s : src)       (* s -= x ; s += x ; s[cond] = x *)
  | ReadOnly (s : src)      (* s is only read (np.interp, np.diff, repr, write to disk) *)
  (* dimension objects are a resource of their own (PseudoNetCDFDimension: _len, _unlimited; netCDF4.Dimension: bound to
     the open dataset).  They live in the same id space as the buffers (harness: 500 + 20 * file + position). *)
  | CopyDimension (d : nat)   (* outf.copyDimension(dv, key=dk) / outf.createDimension(name, n): a new dimension object *)
  | StoreDimension (d : nat). (* outf.dimensions[dk] = dv: the input's own dimension object *)

Definition stmt_effs (st : stmt) : list eff :=
  match st with
  | CopyVariable _ | CreateAssign _ | ReadOnly _ | CopyDimension _ => []
  | StoreDimension d => [EAlias d]
  | CreateValues s | StoreObject s => match base s with Some i => [EAlias i] | None => [] end
  | Inplace s => match base s with Some i => [EMutate i] | None => [] end
  end.
Definition exec (p : list stmt) : list eff := flat_map stmt_effs p.

(* eval's guard (fix C05-eval-result-copy): `if may_share_memory(val, some variable of self): val = val.copy()` *)
Definition guard_copy (s : src) : src := match base s with Some _ => SCopy s | None => s end.

Inductive call :=
  | Copy | Subset | SliceDims | ApplyAlong | RenameVar (i : nat) | RenameDim | InsertDim | Reorder | RemoveSingleton
  | Stack | Mask | Binop
  | EvalExpr (i : nat)      (* eval('C = A * 2') *)
  | EvalName (i : nat)      (* eval('C = A'), eval('C = M') *)
  | EvalView (i : nat)      (* eval('C = A[:]'), eval('C = A[::-1]'), eval('C = np.asarray(A)') *)
  | Getvarpnc (coords : list nat)
  | SliceDim (sliced : list nat)
  | GetTimesTflag (t : nat)
  | Val2idxBounds (c : nat)
  | OtherQuery (code : nat). (* getTimes(time variable), date2num, time2idx, val2idx(nearest), repr, dump, save *)

Definition is_query (c : call) : bool :=
  match c with GetTimesTflag _ | Val2idxBounds _ | OtherQuery _ => true | _ => false end.

(* the program each call runs on input variables `vs` (as sources: SVar i in memory, SDisk i on disk) *)
Definition prog_of (c : call) (v : nat -> src) (vars : list nat) : list stmt :=
  let each (f : src -> stmt) := map (fun i => f (v i)) vars in
  match c with
  | Copy | RenameDim | Subset => each CopyVariable                   (* _copywith(variables=True, data=True) / copyVariable per kept key *)
  | SliceDims => each (fun s => CreateAssign (SView s))              (* newvals = varo[sliceo]; newvaro[...] = newvals *)
  | ApplyAlong => each (fun s => CreateAssign (SView s))             (* newvals = varo[...] -> reductions; newvaro[...] = newvals *)
  | RenameVar i => each CopyVariable ++ [CopyVariable (v i)]
  | InsertDim => each (fun s => CreateAssign (SView (SView s)))      (* var[...] = np.expand_dims(vv[...], axis) *)
  | Reorder => each CopyVariable                                     (* outf = self.copy(variables=True) *)
               ++ each (fun s => StoreObject (SView (SCopy (SView s))))  (* newvals = vv[:].copy(); rollaxis...; outf.variables[vk] = newvals *)
  | RemoveSingleton => each (fun s => CreateAssign (SView (SView s)))   (* outvals = v[...]; take; ov[...] = outvals[...] *)
  | Stack => each (fun s => CreateAssign (SView s))                  (* outvals = var[...] | np.ma.concatenate(..); outvar[...] = outvals *)
  | Mask => each (fun s => CreateAssign (SView (SCopy (SView s))))   (* vals = np.ma.masked_where(where, vv[...]); newvar[...] = vals[...] *)
  | Binop => each (fun s => CreateValues (SView (SCopy (SView s))))  (* values=masked_invalid(eval('in1var[...] op in2var[...]').view(ndarray)) *)
  | EvalExpr i => each CopyVariable ++ [StoreObject (guard_copy (SCopy (v i)))]
  | EvalName i => each CopyVariable ++ [StoreObject (guard_copy (v i))]
  | EvalView i => each CopyVariable ++ [StoreObject (guard_copy (SView (v i)))]
  | Getvarpnc coords => each (fun s => CreateValues (SCopy (SView s)))             (* vals = var[...]; vals = vals.copy() *)
                        ++ map (fun i => CreateValues (SCopy (SView (v i)))) coords (* values=coordvar[...].copy() *)
  | SliceDim sliced => each (fun s => CreateAssign (SView s))                      (* p2p.addVariable *)
                       ++ map (fun i => StoreObject (SCopy (SView (SView (SView (SView (v i))))))) sliced
                                                                                   (* vout = var[...].swapaxes[..].swapaxes; .copy() *)
  | GetTimesTflag t => [Inplace (SCopy (SView (SView (v t))))]       (* dates = TFLAG[:][:, 0, 0].copy(); dates[dates == -635] = 1970001 *)
                       ++ each ReadOnly
  | Val2idxBounds c => [Inplace (SCopy (SView (SView (v c)))); Inplace (SCopy (SView (SView (v c))))]
                       ++ each ReadOnly                              (* start = dimvals[:1].astype('d'); start -= ..; end likewise *)
  | OtherQuery _ => each ReadOnly
  end.

(* every transformation builds the dimensions of its result with copyDimension / createDimension (_copywith(dimensions=True),
   or its own loop over self.dimensions); queries build none *)
Definition dims_prog (c : call) (dims : list nat) : list stmt :=
  if is_query c then [] else map CopyDimension dims.

Inductive op := Call (c : call) (mem : bool) (vars : list nat) (dims : list nat).

Definition var_src (mem : bool) (i : nat) : src := if mem then SVar i else SDisk i.

(* what the code does to its inputs = the effects of running the call's program *)
Definition impl_effs (o : op) : list eff :=
  match o with Call c mem vars dims => exec (dims_prog c dims ++ prog_of c (var_src mem) vars) end.

Definition spec_effs (o : op) : list eff := [].

Definition isolated (o : op) : bool := match impl_effs o with [] => true | _ => false end.

Definition aliased (es : list eff) : list nat :=
  flat_map (fun e => match e with EAlias i => [i] | _ => [] end) es.
Definition mutated (es : list eff) : list nat :=
  flat_map (fun e => match e with EMutate i => [i] | _ => [] end) es.

(* effects -> heap actions: fresh outputs `outs`, then the aliases / in-place writes with arbitrary data *)
Definition actions_of {A} (es : list eff) (outs : list (list A)) (junk : list A) : list (action A) :=
  map Fresh outs ++ map (fun e => match e with EAlias i => Alias i | EMutate i => Mutate i junk end) es.
