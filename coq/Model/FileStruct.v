(* C01 — structure-level model of PseudoNetCDFFile and its public transformation operations
   (core/_files.py, core/_variables.py, core/_dimensions.py, core/_functions.py pncbo).
   Only structure is modelled: the ordered dimension table (name -> length, unlimited flag),
   per variable its dimension-name tuple, its array shape and its attribute list, the file
   attribute list and the coordinate-key tuple (_operator_exclude_vars).  Names are numbers
   (the harness keeps the string table).  Executable definitions only; no proofs here.

   The central mechanism of the library is reproduced literally: a variable created through
   createVariable/copyVariable WITHOUT `values=` gets its shape from the parent file's dimension
   table (mkvar); data are then assigned with numpy broadcasting (bc_into), which raises on a
   mismatch.  The paths that bypass this (renameDimensions mutating the table afterwards,
   eval storing the computed array as is, pncbo passing values=, reorderDimensions) are the
   ones where well-formedness can be lost; they are modelled with their quirks. *)
From PNC Require Import Base.Util.

Definition name := nat.

Inductive res (A : Type) : Type := Ok (a : A) | Raise.
Arguments Ok {A} a.
Arguments Raise {A}.
Definition bind {A B} (r : res A) (f : A -> res B) : res B :=
  match r with Ok a => f a | Raise => Raise end.
Notation "'do' x <- r ; k" := (bind r (fun x => k)) (at level 200, x pattern, r at level 100, k at level 200).

Fixpoint mapM {A B} (f : A -> res B) (l : list A) : res (list B) :=
  match l with
  | [] => Ok []
  | x :: t => do y <- f x; do ys <- mapM f t; Ok (y :: ys)
  end.

(* ---- association lists with Python dict semantics (assignment keeps the position) ---- *)
Section Assoc.
  Context {V : Type}.
  Fixpoint lookup (k : name) (l : list (name * V)) : option V :=
    match l with
    | [] => None
    | (k', v) :: t => if Nat.eqb k k' then Some v else lookup k t
    end.
  Fixpoint aset (k : name) (v : V) (l : list (name * V)) : list (name * V) :=
    match l with
    | [] => [(k, v)]
    | (k', v') :: t => if Nat.eqb k k' then (k, v) :: t else (k', v') :: aset k v t
    end.
  Definition adel (k : name) (l : list (name * V)) : list (name * V) :=
    filter (fun p => negb (Nat.eqb k (fst p))) l.
  Definition has (k : name) (l : list (name * V)) : bool :=
    match lookup k l with Some _ => true | None => false end.
End Assoc.

Definition memb (k : name) (l : list name) : bool := existsb (Nat.eqb k) l.
Definition names_eqb : list name -> list name -> bool := list_eqb Nat.eqb.
Definition prod (l : list nat) : nat := fold_right Nat.mul 1 l.
Definition sum (l : list nat) : nat := fold_right Nat.add 0 l.

(* fixed names (must agree with harness/props/c01.py NAMES) *)
Definition a_units : name := 0.
Definition a_fill : name := 1.      (* 'fill_value': present <-> variable is a masked variable *)
Definition a_expr : name := 2.
Definition n_points : name := 3.    (* 'POINTS', default newdims of sliceDimensions *)

(* ---- files ---------------------------------------------------------------------------- *)
Definition attrs := list (name * bool).      (* listed attribute, retrievable? *)
Definition dimtab := list (name * (nat * bool)).   (* length, unlimited *)
Record var := Var { vdims : list name; vshape : list nat; vattrs : attrs }.
Definition vartab := list (name * var).
Record file := File { fdims : dimtab; fvars : vartab; fattrs : attrs; fcoords : list name }.

(* ---- the property on one file (spec side) ---------------------------------------------- *)
Definition dimlen (T : dimtab) (d : name) : option nat := option_map fst (lookup d T).
Definition attrs_ok (a : attrs) : bool := forallb (fun p => snd p) a.
(* every dimension name exists, shape = lengths of those dimensions in order, attributes retrievable *)
Definition var_okb (T : dimtab) (v : var) : bool :=
  list_eqb (option_eqb Nat.eqb) (map (dimlen T) (vdims v)) (map Some (vshape v))
  && attrs_ok (vattrs v).
Definition vars_okb (T : dimtab) (vs : vartab) : bool := forallb (fun kv => var_okb T (snd kv)) vs.
Definition wfb (f : file) : bool := vars_okb (fdims f) (fvars f) && attrs_ok (fattrs f).

(* surviving dimensions keep their unlimited flag *)
Definition unlim_keptb (T T' : dimtab) : bool :=
  forallb (fun p => match lookup (fst p) T, lookup (fst p) T' with
                    | Some (_, u), Some (_, u') => Bool.eqb u u'
                    | _, _ => true end) T.

(* across renameDimensions the dimension formerly called d is the one now called (rn d) *)
Definition unlim_renamedb (r : name -> name) (T T' : dimtab) : bool :=
  forallb (fun p => match lookup (fst p) T, lookup (r (fst p)) T' with
                    | Some (_, u), Some (_, u') => Bool.eqb u u'
                    | _, _ => true end) T.

(* ---- numpy facts used ------------------------------------------------------------------ *)
(* `dst[...] = src`: right-aligned broadcast of src INTO the fixed shape dst; extra leading
   axes of src must have length 1 *)
Fixpoint bc_into_rev (dst src : list nat) : bool :=
  match src, dst with
  | [], _ => true
  | s :: st, d :: dt => (Nat.eqb s d || Nat.eqb s 1) && bc_into_rev dt st
  | s :: st, [] => forallb (Nat.eqb 1) (s :: st)
  end.
Definition bc_into (dst src : list nat) : bool := bc_into_rev (rev dst) (rev src).

(* binary broadcasting of two shapes (result shape) *)
Fixpoint bcast_rev (a b : list nat) : option (list nat) :=
  match a, b with
  | [], _ => Some b
  | _, [] => Some a
  | x :: a', y :: b' =>
      match bcast_rev a' b' with
      | None => None
      | Some r => if Nat.eqb x y then Some (x :: r) else if Nat.eqb x 1 then Some (y :: r)
                  else if Nat.eqb y 1 then Some (x :: r) else None
      end
  end.
Definition bcast (a b : list nat) : option (list nat) := option_map (@rev nat) (bcast_rev (rev a) (rev b)).

(* ---- variable creation ----------------------------------------------------------------- *)
(* PseudoNetCDFVariable.__new__ without values: shape from the parent's dimension table; KeyError if missing *)
Fixpoint shape_of (T : dimtab) (ds : list name) : res (list nat) :=
  match ds with
  | [] => Ok []
  | d :: t => match lookup d T with
              | Some (n, _) => do s <- shape_of T t; Ok (n :: s)
              | None => Raise
              end
  end.
Definition mkvar (T : dimtab) (ds : list name) (a : attrs) : res var :=
  do s <- shape_of T ds; Ok (Var ds s a).
(* create + assign data of shape src; fallback = the `except: reshape` of sliceDimensions *)
Definition putvar (T : dimtab) (ds : list name) (a : attrs) (src : list nat) (fallback : bool) : res var :=
  do v <- mkvar T ds a;
  if bc_into (vshape v) src || (fallback && Nat.eqb (prod (vshape v)) (prod src)) then Ok v else Raise.

Definition add_fill (a : attrs) : attrs := if has a_fill a then a else (a_fill, true) :: a.

(* copy every variable of vs (as in _copywith(variables=True, data=True)) into table T *)
Fixpoint copyvars (T : dimtab) (vs : vartab) (acc : vartab) : res vartab :=
  match vs with
  | [] => Ok acc
  | (k, v) :: t => do v' <- putvar T (vdims v) (vattrs v) (vshape v) false; copyvars T t (aset k v' acc)
  end.

(* ---- selectors (sliceDimensions) -------------------------------------------------------- *)
Inductive sel := SInt (i : Z) | SSlice (a b : option Z) (st : Z) | SList (l : list Z).
Definition is_arr (s : sel) : bool := match s with SList _ => true | _ => false end.

Local Open Scope Z_scope.
Definition idx_ok (n i : Z) : bool := (- n <=? i) && (i <? n).
(* len(range( *slice(a,b,st).indices(n) )) as CPython's PySlice_AdjustIndices; st = 0 raises *)
Definition slice_len (n : Z) (a b : option Z) (st : Z) : option nat :=
  if st =? 0 then None else
  if 0 <? st then
    let cl x := if x <? 0 then Z.max (x + n) 0 else Z.min x n in
    let s := match a with None => 0 | Some x => cl x end in
    let e := match b with None => n | Some x => cl x end in
    Some (Z.to_nat (if s <? e then (e - s - 1) / st + 1 else 0))
  else
    let cl x := if x <? 0 then Z.max (x + n) (-1) else Z.min x (n - 1) in
    let s := match a with None => n - 1 | Some x => cl x end in
    let e := match b with None => -1 | Some x => cl x end in
    Some (Z.to_nat (if e <? s then (s - e - 1) / (- st) + 1 else 0)).
Local Close Scope Z_scope.

(* number of positions selected on an axis of length n; IndexError -> Raise *)
Definition sel_count (n : nat) (s : sel) : res nat :=
  match s with
  | SInt i => if idx_ok (Z.of_nat n) i then Ok 1 else Raise
  | SSlice a b st => match slice_len (Z.of_nat n) a b st with Some k => Ok k | None => Raise end
  | SList l => if forallb (idx_ok (Z.of_nat n)) l then Ok (length l) else Raise
  end.
(* size of dvar[sel] where dvar has the given shape (0-d: IndexError) *)
Definition sel_size (shape : list nat) (s : sel) : res nat :=
  match shape with
  | [] => Raise
  | n :: rest => do c <- sel_count n s; Ok (c * prod rest)
  end.

(* ---- 1-D functions of applyAlongDimensions ---------------------------------------------- *)
Inductive afun :=
  | ANamed                 (* 'mean' 'sum' 'max' ... as a string: keepdims=True, length 1 *)
  | AHalf                  (* lambda x: x[::2] *)
  | ADiff                  (* np.diff *)
  | ACum                   (* np.cumsum *)
  | AFirst (k : nat)       (* lambda x: x[:k] *)
  | ARep                   (* lambda x: np.repeat(x, 2) *)
  | AScalar                (* a callable reducer returning a scalar, e.g. np.mean: the reduced axis is kept with length 1
                              (fixes/C01-apply-scalar-callable.patch) *)
  | ADict                  (* dict(func1d=np.diff): the documented dictionary form (works since /repo 4e9c4b6) *)
  | AInterp (nold nnew : nat). (* interpDimension's weights (nold x nnew) *)
(* output length on an input of length n; None = raises *)
Definition afun_len (f : afun) (n : nat) : option nat :=
  match f with
  | ANamed => Some 1
  | AHalf => Some (Nat.div (n + 1) 2)
  | ADiff => Some (n - 1)
  | ACum => Some n
  | AFirst k => Some (Nat.min k n)
  | ARep => Some (2 * n)
  | AScalar => Some 1
  | ADict => Some (n - 1)
  | AInterp nold nnew => if Nat.eqb n nold || Nat.eqb n 1 || Nat.eqb nold 1 then Some nnew else None
  end.
(* ---- eval expressions (structural effect only) ------------------------------------------ *)
Inductive expr :=
  | EScale (a : name)        (* N = a * 2 *)
  | EBin (a b : name)        (* N = a + b : numpy broadcasting, metadata from a *)
  | EIndex (a : name).       (* N = a[0]  (same structural effect as a.mean(0)) *)
Definition expr_first (e : expr) : name := match e with EScale a | EBin a _ | EIndex a => a end.

(* ---- operations -------------------------------------------------------------------------- *)
Inductive op :=
  | OCopy
  | OSubset (ks : list name)
  | ORenameVar (prs : list (name * name))
  | ORenameDim (prs : list (name * name))
  | OInsert (dk : name) (dl : nat) (newonly multionly : bool) (before after : option name)
  | ORemove (dk : option name)
  | OReorder (neworder : list name)
  | OSlice (ss : list (name * sel))
  | OApply (fs : list (name * afun))
  | OStack (others : list file) (d : name)
  | OMask (mdims : option (list name)) (wshape : option (list nat)) (withcoords : bool)
  | OEval (key : name) (e : expr) (copyall : bool)
  | OBinop (other : file)
  | OInterp (d : name) (nnew : nat).

(* _copywith(props, dimensions) with new lengths: flags are copied by copyDimension *)
Definition relen (T : dimtab) (newlen : name -> nat -> res nat) : res dimtab :=
  mapM (fun p => do n <- newlen (fst p) (fst (snd p)); Ok (fst p, (n, snd (snd p)))) T.

(* -- subsetVariables -- *)
Definition subset_keys (f : file) (ks : list name) : list name :=
  ks ++ filter (fun k => negb (memb k ks)) (fcoords f).
Fixpoint copykeys (T : dimtab) (src : vartab) (ks : list name) (acc : vartab) : res vartab :=
  match ks with
  | [] => Ok acc
  | k :: t => match lookup k src with
              | None => Raise
              | Some v => do v' <- putvar T (vdims v) (vattrs v) (vshape v) false; copykeys T src t (aset k v' acc)
              end
  end.
Definition impl_subset (f : file) (ks : list name) : res file :=
  do vs <- copykeys (fdims f) (fvars f) (subset_keys f ks) [];
  Ok (File (fdims f) vs (fattrs f) (fcoords f)).

Definition impl_copy (f : file) : res file :=
  do vs <- copyvars (fdims f) (fvars f) []; Ok (File (fdims f) vs (fattrs f) (fcoords f)).

(* -- renameVariables -- *)
Fixpoint rename_vars (T : dimtab) (src : vartab) (prs : list (name * name)) (acc : vartab) : res vartab :=
  match prs with
  | [] => Ok acc
  | (o, n) :: t => match lookup o src with
                   | None => Raise
                   | Some v => do v' <- putvar T (vdims v) (vattrs v) (vshape v) false;
                               rename_vars T src t (adel o (aset n v' acc))
                   end
  end.
Definition impl_rename_var (f : file) (prs : list (name * name)) : res file :=
  do vs <- copyvars (fdims f) (fvars f) [];
  do vs' <- rename_vars (fdims f) (fvars f) prs vs;
  Ok (File (fdims f) vs' (fattrs f) (fcoords f)).

(* -- renameDimensions (as repaired by fixes/C01-renameDimensions.patch): the old dimension objects are taken
   first (KeyError if one is missing), ValueError if a target name is used twice or names a dimension that is not
   itself being renamed, then all old keys are deleted and the objects re-inserted under the new names.
   The table is still mutated AFTER the variables exist; the variables' dimension tuples are renamed alongside. -- *)
Fixpoint nodupb (l : list name) : bool :=
  match l with [] => true | x :: t => negb (memb x t) && nodupb t end.
Fixpoint rd_ins (T0 T : dimtab) (prs : list (name * name)) : res dimtab :=
  match prs with
  | [] => Ok T
  | (o, n) :: t => match lookup o T0 with None => Raise | Some v => rd_ins T0 (aset n v T) t end
  end.
Fixpoint rd_del (T : dimtab) (prs : list (name * name)) : dimtab :=
  match prs with [] => T | (o, _) :: t => rd_del (adel o T) t end.
Definition rename_collides (T : dimtab) (prs : list (name * name)) : bool :=
  negb (nodupb (map snd prs))
  || existsb (fun p => has (snd p) T && negb (memb (snd p) (map fst prs))) prs.
Definition rn (prs : list (name * name)) (d : name) : name :=
  match lookup d prs with Some n => n | None => d end.
Definition impl_rename_dim (f : file) (prs : list (name * name)) : res file :=
  do f0 <- impl_copy f;
  do T2 <- rd_ins (fdims f0) (rd_del (fdims f0) prs) prs;
  if rename_collides (fdims f0) prs then Raise else
  let vs := map (fun kv => (fst kv, Var (map (rn prs) (vdims (snd kv))) (vshape (snd kv)) (vattrs (snd kv)))) (fvars f0) in
  Ok (File T2 vs (fattrs f0) (fcoords f0)).

(* -- insertDimension (one new dimension) -- *)
Fixpoint index_of (d : name) (l : list name) : option nat :=
  match l with [] => None | x :: t => if Nat.eqb d x then Some 0 else option_map S (index_of d t) end.
Fixpoint insert_at {A} (i : nat) (x : A) (l : list A) : list A :=
  match i, l with 0, _ => x :: l | S i', y :: t => y :: insert_at i' x t | S _, [] => [x] end.
Definition insert_pos (before after : option name) (vd : list name) : option nat :=
  let bi := match before with Some b => index_of b vd | None => None end in
  match bi with
  | Some i => Some i
  | None =>
      let ai := match after with Some a => index_of a vd | None => None end in
      match ai with
      | Some i => Some (S i)
      | None => match before, after with None, None => Some 0 | _, _ => None end
      end
  end.
Fixpoint insert_vars (T : dimtab) (dk : name) (newonly multionly : bool) (before after : option name)
         (vs : vartab) (acc : vartab) : res vartab :=
  match vs with
  | [] => Ok acc
  | (k, v) :: t =>
      let vd := vdims v in
      let asis := putvar T vd (vattrs v) (vshape v) false in
      do v' <- (if (newonly && memb dk vd) || (multionly && Nat.eqb (length vd) 1) then asis
                else match insert_pos before after vd with
                     | None => asis
                     | Some bi => putvar T (insert_at bi dk vd) (vattrs v) (insert_at bi 1 (vshape v)) false
                     end);
      insert_vars T dk newonly multionly before after t (aset k v' acc)
  end.
Definition impl_insert (f : file) dk dl newonly multionly before after : res file :=
  let T := if has dk (fdims f) then fdims f else aset dk (dl, false) (fdims f) in
  do vs <- insert_vars T dk newonly multionly before after (fvars f) [];
  Ok (File T vs (fattrs f) (fcoords f)).

(* -- removeSingleton -- *)
Definition removed_dims (T : dimtab) (dk : option name) : list name :=
  map fst (filter (fun p => (match dk with None => true | Some d => Nat.eqb (fst p) d end)
                            && Nat.eqb (fst (snd p)) 1) T).
Fixpoint drop_axes (rm : list name) (ds : list name) (sh : list nat) : list name * list nat :=
  match ds, sh with
  | d :: dt, n :: st => let r := drop_axes rm dt st in
                        if memb d rm then r else (d :: fst r, n :: snd r)
  | _, _ => ([], [])
  end.
Fixpoint remove_vars (T : dimtab) (rm : list name) (vs acc : vartab) : res vartab :=
  match vs with
  | [] => Ok acc
  | (k, v) :: t => let r := drop_axes rm (vdims v) (vshape v) in
                   do v' <- putvar T (filter (fun d => negb (memb d rm)) (vdims v)) (vattrs v) (snd r) false;
                   remove_vars T rm t (aset k v' acc)
  end.
Definition impl_remove (f : file) (dk : option name) : res file :=
  let rm := removed_dims (fdims f) dk in
  let T := filter (fun p => negb (memb (fst p) rm)) (fdims f) in
  do vs <- remove_vars T rm (fvars f) [];
  Ok (File T vs (fattrs f) (fcoords f)).

(* -- reorderDimensions: the permuted array is stored directly (no allocation from the table) -- *)
Definition axis_len (v : var) (d : name) : option nat :=
  match index_of d (vdims v) with Some i => nth_error (vshape v) i | None => None end.
Fixpoint axis_lens (v : var) (ds : list name) : res (list nat) :=
  match ds with
  | [] => Ok []
  | d :: t => match axis_len v d with Some n => do r <- axis_lens v t; Ok (n :: r) | None => Raise end
  end.
(* without repeated names the loop of reorderDimensions sorts the axes into vno, names and axes together *)
Definition reorder_var (neworder : list name) (v : var) : res var :=
  let vno := filter (fun d => memb d (vdims v)) neworder in
  match vno with
  | [] => Ok v
  | _ => if Nat.eqb (length vno) (length (vdims v)) && Nat.eqb (length (vdims v)) (length (vshape v))
         then do sh <- axis_lens v vno; Ok (Var vno sh (vattrs v))
         else Raise                      (* assert (varorder == varneworder) *)
  end.
Definition impl_reorder (f : file) (neworder : list name) : res file :=
  (* fixes/C01-reorder-repeated-name.patch: a repeated name in neworder is refused with ValueError before anything is copied
     (np.rollaxis and the name list disagreed there) *)
  if negb (nodupb neworder) then Raise else
  do f0 <- impl_copy f;
  do vs <- mapM (fun kv => do v' <- reorder_var neworder (snd kv); Ok (fst kv, v')) (fvars f0);
  Ok (File (fdims f0) vs (fattrs f0) (fcoords f0)).

(* -- sliceDimensions -- *)
Definition dvar_shape (f : file) (dk : name) (n : nat) : list nat :=
  match lookup dk (fvars f) with Some v => vshape v | None => [n] end.
Fixpoint allsame (l : list nat) : bool :=
  match l with x :: ((y :: _) as t) => Nat.eqb x y && allsame t | _ => true end.
Fixpoint slice_src (ss : list (name * sel)) (fancy : bool) (ds : list name) (sh : list nat) : res (list nat) :=
  match ds, sh with
  | d :: dt, n :: st =>
      do r <- slice_src ss fancy dt st;
      match lookup d ss with
      | None => Ok (n :: r)
      | Some s => do c <- sel_count n s;
                  match s with
                  | SInt _ => Ok (if fancy then r else 1 :: r)   (* per-axis selection keeps the axis ([i]); point path applies it as a scalar *)
                  | SSlice _ _ _ => Ok (c :: r)
                  | SList _ => Ok (if fancy then r else c :: r)
                  end
      end
  | _, _ => Ok []
  end.
Definition is_arr_dim (ss : list (name * sel)) (d : name) : bool :=
  match lookup d ss with Some s => is_arr s | None => false end.
(* np.argmax(isdarray): position of the first array-indexed axis *)
Fixpoint first_arr (ss : list (name * sel)) (l : list name) : nat :=
  match l with [] => 0 | d :: r => if is_arr_dim ss d then 0 else S (first_arr ss r) end.
Fixpoint slice_vars (T : dimtab) (ss : list (name * sel)) (anyarr : bool) (arraylen : nat)
         (vs acc : vartab) : res vartab :=
  match vs with
  | [] => Ok acc
  | (k, v) :: t =>
      let vd := vdims v in
      let narr := length (filter (is_arr_dim ss) vd) in
      let fancy := anyarr && Nat.ltb 1 narr in
      let odims := if fancy
                   then insert_at (first_arr ss vd) n_points (filter (fun d => negb (is_arr_dim ss d)) vd)
                   else vd in
      do src0 <- slice_src ss fancy vd (vshape v);
      let src := if fancy then arraylen :: src0 else src0 in
      do v' <- putvar T odims (vattrs v) src true;
      slice_vars T ss anyarr arraylen t (aset k v' acc)
  end.
Definition impl_slice (f : file) (ss : list (name * sel)) : res file :=
  let arrs := filter (fun p => is_arr (snd p)) ss in
  let anyarr := Nat.ltb 1 (length arrs) in
  let lens := map (fun p => match snd p with SList l => length l | _ => 0 end) arrs in
  if anyarr && negb (allsame lens) then Raise else
  let arraylen := hd 0 lens in
  (* every sliced dimension must exist; its new length is the size of dvar[sel] *)
  do news <- mapM (fun p => match lookup (fst p) (fdims f) with
                            | None => Raise
                            | Some (n, _) => do c <- sel_size (dvar_shape f (fst p) n) (snd p); Ok (fst p, c)
                            end) ss;
  do T1 <- relen (fdims f) (fun d n => Ok (match lookup d news with Some c => c | None => n end));
  let T := if anyarr then aset n_points (arraylen, false) T1 else T1 in
  do vs <- slice_vars T ss anyarr arraylen (fvars f) [];
  Ok (File T vs (fattrs f) (fcoords f)).

(* -- applyAlongDimensions -- *)
Fixpoint apply_src (fs : list (name * afun)) (ds : list name) (sh : list nat) : res (list nat) :=
  match ds, sh with
  | d :: dt, n :: st =>
      do r <- apply_src fs dt st;
      match lookup d fs with
      | None => Ok (n :: r)
      | Some g => match afun_len g n with
                  | None => Raise
                  | Some m => Ok (m :: r)
                  end
      end
  | _, _ => Ok []
  end.
Fixpoint apply_vars (T : dimtab) (fs : list (name * afun)) (vs acc : vartab) : res vartab :=
  match vs with
  | [] => Ok acc
  | (k, v) :: t => do src <- apply_src fs (vdims v) (vshape v);
                   do v' <- putvar T (vdims v) (vattrs v) src false;
                   apply_vars T fs t (aset k v' acc)
  end.
(* new length of one dimension: the function is probed on the coordinate variable (a 1-D variable named like the
   dimension) or on arange(len) *)
Definition apply_new1 (f : file) (p : name * afun) : res (name * nat) :=
  match lookup (fst p) (fdims f) with
  | None => Raise
  | Some (n, _) =>
      match afun_len (snd p) (match lookup (fst p) (fvars f) with
                              | Some v => match vshape v with [m] => m | _ => n end
                              | None => n end) with
      | Some m => Ok (fst p, m)
      | None => Raise
      end
  end.
Definition impl_apply (f : file) (fs : list (name * afun)) : res file :=
  do news <- mapM (apply_new1 f) fs;
  do T <- relen (fdims f) (fun d n => Ok (match lookup d news with Some c => c | None => n end));
  do vs <- apply_vars T fs (fvars f) [];
  Ok (File T vs (fattrs f) (fcoords f)).

(* -- interpDimension with 1-D coordinate variables = apply with the weights function -- *)
Definition impl_interp (f : file) (d : name) (nnew : nat) : res file :=
  match lookup d (fvars f) with
  | Some v => match vshape v with
              | [nold] => impl_apply f [(d, AInterp nold nnew)]
              | _ => Raise           (* N-d coordinate path: not modelled *)
              end
  | None => Raise
  end.

(* -- stack -- *)
Fixpoint set_nth (i : nat) (x : nat) (l : list nat) : list nat :=
  match i, l with 0, _ :: t => x :: t | S i', y :: t => y :: set_nth i' x t | _, [] => [] end.
Definition concat_shape (axis : nat) (shapes : list (list nat)) : res (list nat) :=
  match shapes with
  | [] => Raise
  | s0 :: _ =>
      if Nat.ltb axis (length s0)
         && forallb (fun s => list_eqb Nat.eqb (set_nth axis 0 s) (set_nth axis 0 s0)) shapes
      then Ok (set_nth axis (sum (map (fun s => nth axis s 0) shapes)) s0)
      else Raise
  end.
Fixpoint stack_file_vars (T : dimtab) (fsv : list vartab) (d : name) (vs acc : vartab) : res vartab :=
  match vs with
  | [] => Ok acc
  | (k, v) :: t =>
      if has k acc then stack_file_vars T fsv d t acc else
      do src <- (match index_of d (vdims v) with
                 | None => Ok (vshape v)
                 | Some ax => do shs <- mapM (fun vt => match lookup k vt with Some w => Ok (vshape w) | None => Raise end) fsv;
                              concat_shape ax shs
                 end);
      do v' <- putvar T (vdims v) (vattrs v) src false;
      stack_file_vars T fsv d t (aset k v' acc)
  end.
Fixpoint stack_vars (T : dimtab) (fsv : list vartab) (d : name) (todo : list vartab) (acc : vartab) : res vartab :=
  match todo with
  | [] => Ok acc
  | vs :: t => do acc' <- stack_file_vars T fsv d vs acc; stack_vars T fsv d t acc'
  end.
Definition impl_stack (f : file) (others : list file) (d : name) : res file :=
  let fs := f :: others in
  let tabs := map fdims fs in
  (* shared dimensions; len(dims[dimk]) raises KeyError when a file lacks dimk *)
  do sh <- mapM (fun p => if Nat.eqb (fst p) d then Ok (p, false) else
                          do ls <- mapM (fun T => match lookup (fst p) T with Some (n, _) => Ok n | None => Raise end) tabs;
                          Ok (p, forallb (Nat.eqb (fst (snd p))) ls)) (fdims f);
  let shared := map fst (filter (fun q => snd q) sh) in
  if negb (forallb (fun T => forallb (fun p => has (fst p) shared || Nat.eqb (fst p) d) T) tabs) then Raise else
  do ls <- mapM (fun T => match lookup d T with Some (n, _) => Ok n | None => Raise end) tabs;
  match lookup d (fdims f) with
  | None => Raise
  | Some (_, u) =>
      let T := aset d (sum ls, u) shared in
      do vs <- stack_vars T (map fvars fs) d (map fvars fs) [];
      Ok (File T vs (fattrs f) (fcoords f))
  end.

(* -- mask -- *)
Fixpoint mask_vars (T : dimtab) (coords : list name) (mdims : option (list name)) (wshape : option (list nat))
         (withcoords : bool) (vs acc : vartab) : res vartab :=
  match vs with
  | [] => Ok acc
  | (k, v) :: t =>
      let bad := negb (memb k coords && negb withcoords) &&
                 match wshape, mdims with
                 | Some ws, Some md => names_eqb md (vdims v) && negb (list_eqb Nat.eqb ws (vshape v))
                 | _, _ => false
                 end in
      if bad then Raise else
      do v' <- putvar T (vdims v) (add_fill (vattrs v)) (vshape v) false;
      mask_vars T coords mdims wshape withcoords t (aset k v' acc)
  end.
Definition impl_mask (f : file) mdims wshape withcoords : res file :=
  do vs <- mask_vars (fdims f) (fcoords f) mdims wshape withcoords (fvars f) [];
  Ok (File (fdims f) vs (fattrs f) (fcoords f)).

(* -- eval -- *)
Definition eval_value (vs : vartab) (e : expr) : res var :=
  match e with
  | EScale a => match lookup a vs with Some v => Ok v | None => Raise end
  | EBin a b => match lookup a vs, lookup b vs with
                | Some va, Some vb => match bcast (vshape va) (vshape vb) with
                                      | Some s => Ok (Var (vdims va) s (vattrs va))
                                      | None => Raise end
                | _, _ => Raise
                end
  | EIndex a => match lookup a vs with
                | Some v => match vshape v with [] => Raise | _ :: s => Ok (Var (vdims v) s (vattrs v)) end
                | None => Raise
                end
  end.
(* the file the value is put into and the variable that is stored: the value keeps the dimension tuple it inherits from the
   first variable operand (or from the assigned key if it exists); there is NO check of its shape against those dimensions *)
Definition eval_parts (f : file) (key : name) (e : expr) (copyall : bool) : res (file * var) :=
  (* the first symbol that names a variable: the assigned key itself if it exists, else the operand *)
  let first := if has key (fvars f) then key else expr_first e in
  match lookup first (fvars f) with
  | None => Raise
  | Some fv =>
      do base <- (if copyall then impl_copy f
                  else do g <- impl_subset f [first]; Ok (File (fdims g) (adel first (fvars g)) (fattrs g) (fcoords g)));
      do val <- eval_value (fvars f) e;
      (* a 0-d result is a numpy scalar, a result without dimension names is "likely a problem":
         both go through createVariable(key, dimt, values=val, **propd) with the FIRST variable's metadata *)
      let stored := if Nat.eqb (length (vdims val)) 0 || Nat.eqb (length (vshape val)) 0
                    then Var (vdims fv) (vshape val) (aset a_expr true (vattrs fv))
                    else val in                                                         (* outf.variables[key] = val *)
      Ok (base, stored)
  end.
Definition impl_eval (f : file) (key : name) (e : expr) (copyall : bool) : res file :=
  do p <- eval_parts f key e copyall;
  Ok (File (fdims (fst p)) (aset key (snd p) (adel key (fvars (fst p)))) (fattrs (fst p)) (fcoords (fst p))).
(* the value's shape equals the lengths of the dimensions it inherits *)
Definition eval_fits (f : file) (key : name) (e : expr) (copyall : bool) : bool :=
  match eval_parts f key e copyall with
  | Ok p => list_eqb (option_eqb Nat.eqb) (map (dimlen (fdims (fst p))) (vdims (snd p))) (map Some (vshape (snd p)))
  | Raise => true
  end.

(* -- binary operators (pncbo): values= bypasses the dimension table; the repaired code refuses a result whose shape
   differs from the left operand's variable -- *)
Fixpoint binop_vars (T : dimtab) (coords : list name) (other : vartab) (vs acc : vartab) : res vartab :=
  match vs with
  | [] => Ok acc
  | (k, v) :: t =>
      do v' <- (match memb k coords, lookup k other with
                | false, Some w => match bcast (vshape v) (vshape w) with
                                   | Some s => if list_eqb Nat.eqb s (vshape v)       (* fixes/C01-binop-broadcast.patch: *)
                                               then Ok (Var (vdims v) s (aset a_units true (add_fill (vattrs v))))
                                               else Raise                            (* ValueError instead of an ill-formed file *)
                                   | None => Raise end
                | _, _ => putvar T (vdims v) (vattrs v) (vshape v) false
                end);
      binop_vars T coords other t (aset k v' acc)
  end.
Definition impl_binop (f other : file) : res file :=
  do vs <- binop_vars (fdims f) (fcoords f) (fvars other) (fvars f) [];
  Ok (File (fdims f) vs (fattrs f) (fcoords f)).

(* ---- one step, and runs ------------------------------------------------------------------ *)
Definition step (f : file) (o : op) : res file :=
  match o with
  | OCopy => impl_copy f
  | OSubset ks => impl_subset f ks
  | ORenameVar prs => impl_rename_var f prs
  | ORenameDim prs => impl_rename_dim f prs
  | OInsert dk dl no mo b a => impl_insert f dk dl no mo b a
  | ORemove dk => impl_remove f dk
  | OReorder no => impl_reorder f no
  | OSlice ss => impl_slice f ss
  | OApply fs => impl_apply f fs
  | OStack others d => impl_stack f others d
  | OMask md ws wc => impl_mask f md ws wc
  | OEval k e ca => impl_eval f k e ca
  | OBinop other => impl_binop f other
  | OInterp d n => impl_interp f d n
  end.

Fixpoint run (f : file) (ops : list op) : res file :=
  match ops with [] => Ok f | o :: t => do f' <- step f o; run f' t end.
(* all intermediate files of a run (for the correspondence): stops at the first Raise *)
Fixpoint trace (f : file) (ops : list op) : list (res file) :=
  match ops with
  | [] => []
  | o :: t => match step f o with Ok f' => Ok f' :: trace f' t | Raise => [Raise] end
  end.

(* ---- the sub-domain on which well-formedness is PROVED (complement = known-defect region 1) ---- *)
(* region number of an operation in a state: 0 = proved domain; 1 = eval whose value does not have the shape of the
   dimensions it inherits (exactly the evals that leave an ill-formed file: C01_eval_wf_iff) *)
Definition op_region (f : file) (o : op) : nat :=
  match o with
  | OEval k e ca => if eval_fits f k e ca then 0 else 1
  | _ => 0
  end.
Definition safe_op (f : file) (o : op) : bool := Nat.eqb (op_region f o) 0.
Fixpoint run_region (f : file) (ops : list op) : nat :=
  match ops with
  | [] => 0
  | o :: t => match op_region f o with
              | 0 => match step f o with Ok f' => run_region f' t | Raise => 0 end
              | k => k
              end
  end.

(* operand files of stack are inputs: their variables' attribute lists have to be retrievable *)
Definition vattrs_ok (vs : vartab) : bool := forallb (fun kv => attrs_ok (vattrs (snd kv))) vs.
Definition operands_ok (o : op) : bool :=
  match o with
  | OStack others _ => forallb (fun g => vattrs_ok (fvars g)) others
  | _ => true
  end.
(* all Ok files of a trace are well-formed *)
Definition trace_wfb (tr : list (res file)) : bool :=
  forallb (fun r => match r with Ok g => wfb g | Raise => true end) tr.
(* operations that leave the dimension table untouched *)
Definition keeps_table (o : op) : bool :=
  match o with
  | OCopy | OSubset _ | ORenameVar _ | OReorder _ | OMask _ _ _ | OEval _ _ _ | OBinop _ => true
  | _ => false
  end.

(* "surviving dimensions keep their unlimited flag", for one step of operation o *)
Definition unlim_kept_op (o : op) (T T' : dimtab) : bool :=
  match o with
  | ORenameDim prs => unlim_renamedb (rn prs) T T'
  | _ => unlim_keptb T T'
  end.

(* sliceDimensions with several index arrays creates POINTS as a non-unlimited dimension: the unlimited-flag clause
   needs that no unlimited dimension of that name exists already *)
Definition slice_unl_ok (f : file) (ss : list (name * sel)) : bool :=
  negb (Nat.ltb 1 (length (filter (fun p => is_arr (snd p)) ss)))
  || match lookup n_points (fdims f) with Some (_, true) => false | _ => true end.

(* ---- documented domain of applyAlongDimensions (completion clause) ------------------------------------- *)
(* func1d is a total 1-D function (every afun except interpDimension's internal weights function) *)
Definition afun_total (g : afun) : bool := match g with AInterp _ _ => false | _ => true end.
(* the library takes a 1-D variable named like the dimension as its coordinate: it has to be as long as the dimension *)
Definition coord_conv (f : file) (d : name) : bool :=
  match lookup d (fvars f), lookup d (fdims f) with
  | Some v, Some (n, _) => match vshape v with [m] => Nat.eqb m n | _ => true end
  | _, _ => true
  end.
Definition apply_dom (f : file) (fs : list (name * afun)) : bool :=
  forallb (fun p => has (fst p) (fdims f) && afun_total (snd p) && coord_conv f (fst p)) fs.

(* dimension tables are dictionaries: no repeated keys (maintained by every operation, Proofs: step_keys_nodup) *)
Definition keys_nodup (T : dimtab) : bool := nodupb (map fst T).
