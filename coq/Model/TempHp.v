(* CAMx TEMPERATURE and HEIGHT/PRESSURE meteorological files at the 4-byte-word level.
   spec side : published layout, no header, every record  hour (HHMM binary32), idate (YYJJJ), ((v(i,j),i=1,nx),j=1,ny):
                 temperature     : per step the SURFACE temperature record, then one record per layer (nz + 1 records);
                 height_pressure : per step and per layer the HEIGHT record then the PRESSURE record (2 * nz records).
               Both are "layered record files" in the sense of Model/One3d.v (all records of a step carry the step's stamp
               and nx*ny cells): the spec codecs are One3d's o_enc / o_dec applied to the step's record list
               (t_to_o / h_to_o and their inverses), which is what harness/camxfmt.py `records` writes.
   impl side : the memory-mapped readers camxfiles/temperature/Memmap.py and camxfiles/height_pressure/Memmap.py
               (identical __init__ up to the LAY expression). HAND-MODELLED throughout: the arithmetic sits in expressions
               over numpy subscripts (`self.__memmap[0].view('i') // 4 - 2`, `times.shape[0] / i`) and a for/break loop,
               outside translate/py2coq.py's subset:
                 rowsXcols = first marker // 4 - 2 ; record_length = rowsXcols + 4 ; records = size // record_length ;
                 reshape(records, record_length) ; the for loop leaves i = index of the first record whose (time, date)
                 differs from record 0 ; WHEN NONE DIFFERS temperature raises ValueError (for/else, repaired by 9020b2c)
                 while height_pressure falls through with i = the LAST index ;
                 LAY = i - 1 (temperature) / int(i / 2) (height_pressure) ; TSTEP = int(records / i) (ZeroDivisionError for
                 i = 0) ; ValueError unless rows * cols = rowsXcols ;
                 lazily, on the first variable access: reshape(TSTEP, LAY + 1, rc + 4) resp. (TSTEP, LAY, 2, rc + 4) of the
                 whole map, the check that every record's two markers agree ("Buffer"), the variables, TFLAG from the
                 stamps of every (LAY+1)-th resp. (2*LAY)-th record.
               "Ok" means: the file opens AND all variables can be read (what the harness observes).
               A first marker giving record_length <= 0 is answered Err without claim (numpy divides by zero with a
               warning there); no theorem and no generated case depends on it.
   No proofs here. *)
From PNC Require Import Base.Util Base.Words Gen.Camx Model.Uamiv Model.CamxMet Model.One3d.
Import Coq.Lists.List. Import ListNotations.
Local Open Scope Z_scope.

(* ---- contents ------------------------------------------------------------------------------------ *)
Record tstep := TStep { ts_time : word; ts_date : word; ts_surf : list word; ts_air : list (list word) }.
Record temperature := { t_nx : Z; t_ny : Z; t_nz : Z; t_steps : list tstep }.
Record hstep := HStep { hs_time : word; hs_date : word; hs_hp : list (list word * list word) }.
Record heightpres := { h_nx : Z; h_ny : Z; h_nz : Z; h_steps : list hstep }.

(* as layered record files *)
Definition t_to_o (c : temperature) : one3d :=
  {| o_nx := t_nx c; o_ny := t_ny c; o_nz := t_nz c + 1;
     o_steps := map (fun s => OStep (ts_time s) (ts_date s) (ts_surf s :: ts_air s)) (t_steps c) |}.
Definition interleave (hp : list (list word * list word)) : list (list word) :=
  concat (map (fun p => [fst p; snd p]) hp).
Definition h_to_o (c : heightpres) : one3d :=
  {| o_nx := h_nx c; o_ny := h_ny c; o_nz := 2 * h_nz c;
     o_steps := map (fun s => OStep (hs_time s) (hs_date s) (interleave (hs_hp s))) (h_steps c) |}.

(* spec encoders: the records are CamxMet.temperature_step / hp_step of every step *)
Definition t_enc (c : temperature) : list word := o_enc (t_to_o c).
Definition h_enc (c : heightpres) : list word := o_enc (h_to_o c).

(* spec decoders (grid and layer count given, as the formats have no header) *)
Fixpoint pairs (l : list (list word)) : option (list (list word * list word)) :=
  match l with
  | [] => Some []
  | a :: b :: t => match pairs t with Some ps => Some ((a, b) :: ps) | None => None end
  | _ => None
  end.
Fixpoint opt_all {A} (l : list (option A)) : option (list A) :=
  match l with
  | [] => Some []
  | Some x :: t => match opt_all t with Some xs => Some (x :: xs) | None => None end
  | None :: _ => None
  end.
Definition t_of_ostep (s : ostep) : option tstep :=
  match os_lays s with surf :: air => Some (TStep (os_time s) (os_date s) surf air) | [] => None end.
Definition h_of_ostep (s : ostep) : option hstep :=
  match pairs (os_lays s) with Some hp => Some (HStep (os_time s) (os_date s) hp) | None => None end.
Definition t_dec (nx ny nz : Z) (ws : list word) : option temperature :=
  match o_dec nx ny (nz + 1) ws with
  | Some o => match opt_all (map t_of_ostep (o_steps o)) with
              | Some sts => Some {| t_nx := nx; t_ny := ny; t_nz := nz; t_steps := sts |}
              | None => None end
  | None => None
  end.
Definition h_dec (nx ny nz : Z) (ws : list word) : option heightpres :=
  match o_dec nx ny (2 * nz) ws with
  | Some o => match opt_all (map h_of_ostep (o_steps o)) with
              | Some sts => Some {| h_nx := nx; h_ny := ny; h_nz := nz; h_steps := sts |}
              | None => None end
  | None => None
  end.

(* well-formedness *)
Definition t_wf (c : temperature) : bool :=
  (0 <? t_nx c) && (0 <? t_ny c) && (0 <? t_nz c)
  && forallb (fun s => len_is (t_nx c * t_ny c) (ts_surf s) && len_is (t_nz c) (ts_air s)
                       && forallb (len_is (t_nx c * t_ny c)) (ts_air s)) (t_steps c).
Definition h_wf (c : heightpres) : bool :=
  (0 <? h_nx c) && (0 <? h_ny c) && (0 <? h_nz c)
  && forallb (fun s => len_is (h_nz c) (hs_hp s)
                       && forallb (fun p => len_is (h_nx c * h_ny c) (fst p) && len_is (h_nx c * h_ny c) (snd p)) (hs_hp s))
             (h_steps c).
(* what the readers need: two or more steps, the second stamp differs from the first *)
Definition t_readable (c : temperature) : bool := o_readable (t_to_o c).
Definition h_readable (c : heightpres) : bool := o_readable (h_to_o c).

(* ---- impl: the memory-mapped readers --------------------------------------------------------------- *)
Record tview := {
  tv_nx : Z; tv_ny : Z; tv_nz : Z; tv_ntimes : Z;          (* COL, ROW, LAY, TSTEP *)
  tv_stamps : list (Z * Z);
  tv_surf : list (list word);                              (* SURFTEMP [t] -> rows*cols words *)
  tv_air : list (list (list word))                         (* AIRTEMP  [t][k] *)
}.
Record hview := {
  hv_nx : Z; hv_ny : Z; hv_nz : Z; hv_ntimes : Z;
  hv_stamps : list (Z * Z);
  hv_hght : list (list (list word));                       (* HGHT [t][k] *)
  hv_pres : list (list (list word))                        (* PRES [t][k] *)
}.

(* temperature (as repaired by 9020b2c): the for/else loop -- first index whose stamp differs from record 0, else raise *)
Definition fd_strict (rws : list (list word)) : option nat :=
  match rws with
  | [] => None
  | r0 :: _ => first_diff (row_stamp r0) rws 0
  end.
(* height_pressure: the for/break loop: first index whose stamp differs from record 0, else the LAST index *)
Definition fd_or_last (rws : list (list word)) : nat :=
  match rws with
  | [] => O
  | r0 :: _ => match first_diff (row_stamp r0) rws 0 with Some i => i | None => (length rws - 1)%nat end
  end.
(* buf[:, 0] == buf[:, 1] : leading and trailing marker of every record *)
Definition markers_ok (rws : list (list word)) : bool := forallb (fun r => hd 0 r =? last r 0) rws.
Fixpoint evens (l : list (list word)) : list (list word) :=
  match l with a :: _ :: t => a :: evens t | [a] => [a] | [] => [] end.
Fixpoint odds (l : list (list word)) : list (list word) :=
  match l with _ :: b :: t => b :: odds t | _ => [] end.

(* common part of both __init__: the map as rows; returns (rows of the file, number of records, rowsXcols) *)
Definition th_rows (ws : list word) (size : Z) : option (list (list word) * Z * Z) :=
  if (size <=? 0) || negb (size mod 4 =? 0) then None else
  let n := size / 4 in
  let rxc := getw ws 0 / 4 - 2 in
  let rl := rxc + 4 in
  if rl <=? 0 then None else
  let records := n / rl in
  if negb (records * rl =? n) then None else
  match chunks (Z.to_nat rl) (firstn (Z.to_nat n) ws) with
  | Some rws => Some (rws, records, rxc)
  | None => None
  end.

Definition t_mm_read (rows cols : Z) (ws : list word) (size : Z) : result tview :=
  match th_rows ws size with
  | None => Err
  | Some (rws, records, rxc) =>
    match fd_strict rws with
    | None => Err                                             (* for/else: no record carries a later time stamp *)
    | Some ni =>
      let i := Z.of_nat ni in                                 (* i >= 1: record 0 equals itself *)
      let lays := i - 1 in
      let tsteps := records / i in                            (* int(records / i) *)
      if negb (cols * rows =? rxc) then Err else
      (* __var_get: reshape(times, lays + 1, rows * cols + 4); markers; variables *)
      if negb (tsteps * (lays + 1) =? records) then Err else
      if negb (markers_ok rws) then Err else
      let groups := group (Z.to_nat tsteps) ni rws in
      Ok {| tv_nx := cols; tv_ny := rows; tv_nz := lays; tv_ntimes := tsteps;
            tv_stamps := map (fun g => row_stamp (hd [] g)) groups;
            tv_surf := map (fun g => row_cells (rows * cols) (hd [] g)) groups;
            tv_air := map (fun g => map (row_cells (rows * cols)) (tl g)) groups |}
    end
  end.

Definition h_mm_read (rows cols : Z) (ws : list word) (size : Z) : result hview :=
  match th_rows ws size with
  | None => Err
  | Some (rws, records, rxc) =>
    let i := Z.of_nat (fd_or_last rws) in
    if i =? 0 then Err else
    let lays := i / 2 in                                      (* int(i / 2) *)
    let tsteps := records / i in
    if negb (cols * rows =? rxc) then Err else
    (* __var_get: reshape(times, lays, 2, rows * cols + 4) *)
    if negb (tsteps * lays * 2 =? records) then Err else
    if negb (markers_ok rws) then Err else
    let groups := group (Z.to_nat tsteps) (Z.to_nat (2 * lays)) rws in
    Ok {| hv_nx := cols; hv_ny := rows; hv_nz := lays; hv_ntimes := tsteps;
          hv_stamps := map (fun g => row_stamp (hd [] g)) groups;
          hv_hght := map (fun g => map (row_cells (rows * cols)) (evens g)) groups;
          hv_pres := map (fun g => map (row_cells (rows * cols)) (odds g)) groups |}
  end.

Definition t_view_of (c : temperature) : tview :=
  {| tv_nx := t_nx c; tv_ny := t_ny c; tv_nz := t_nz c; tv_ntimes := Z.of_nat (length (t_steps c));
     tv_stamps := map (fun s => (ts_time s, ts_date s)) (t_steps c);
     tv_surf := map ts_surf (t_steps c); tv_air := map ts_air (t_steps c) |}.
Definition h_view_of (c : heightpres) : hview :=
  {| hv_nx := h_nx c; hv_ny := h_ny c; hv_nz := h_nz c; hv_ntimes := Z.of_nat (length (h_steps c));
     hv_stamps := map (fun s => (hs_time s, hs_date s)) (h_steps c);
     hv_hght := map (fun s => map fst (hs_hp s)) (h_steps c); hv_pres := map (fun s => map snd (hs_hp s)) (h_steps c) |}.
Definition t_truncate_steps (k : nat) (c : temperature) : temperature :=
  {| t_nx := t_nx c; t_ny := t_ny c; t_nz := t_nz c; t_steps := firstn k (t_steps c) |}.
Definition h_truncate_steps (k : nat) (c : heightpres) : heightpres :=
  {| h_nx := h_nx c; h_ny := h_ny c; h_nz := h_nz c; h_steps := firstn k (h_steps c) |}.

Definition t_rec_words (c : temperature) : Z := t_nx c * t_ny c + 4.
Definition t_step_words (c : temperature) : Z := (t_nz c + 1) * t_rec_words c.
Definition h_rec_words (c : heightpres) : Z := h_nx c * h_ny c + 4.
Definition h_step_words (c : heightpres) : Z := 2 * h_nz c * h_rec_words c.

(* ---- the record readers (temperature/Read.py, height_pressure/Read.py) ---------------------------------
   TRANSLATED (Gen/Camx.v): height_pressure __layerrecords / __timerecords / __recordposition (hpr_ definitions);
   temperature: the start and increment of the __surfpos / __airpos position generators and the padded sizes (tr_ definitions).
   HAND-MODELLED (while/try loops, struct.calcsize, generators): the probing of __readheader / __gettimestep and the
   number of positions a generator yields (`while pos < rflen`).
   stamps: (date, hhmm) of every record in file order, times as HHMM integers. *)
Record tr_self := { trs_nlayers : Z; trs_time_step : Z; trs_count : Z; trs_area_padded : Z; trs_padded : Z }.

(* temperature: nlayers starts at -1 and is incremented before every read; time_step_count =
   int(timediff(first, last record) // time_step) + 1 *)
Definition tr_probe (marker0 : Z) (stamps : list (Z * Z)) : option tr_self :=
  match stamps with
  | s0 :: rest =>
    match count_same s0 rest (-1) with
    | Some (nl, s1) =>
      let ts := tt_timediff s0 s1 2400 in
      if ts =? 0 then None else
      Some {| trs_nlayers := nl; trs_time_step := ts;
              trs_count := tt_timediff s0 (last stamps s0) 2400 / ts + 1;
              trs_area_padded := tr_area_padded_size_of marker0; trs_padded := tr_padded_size_of marker0 |}
    | None => None
    end
  | [] => None
  end.
(* positions yielded by `while pos < rflen: yield pos; pos += inc` *)
Fixpoint positions (fuel : nat) (pos inc rflen : Z) : list Z :=
  match fuel with
  | O => []
  | S f => if pos <? rflen then pos :: positions f (pos + inc) inc rflen else []
  end.
Definition tr_surf_positions (s : tr_self) (n : nat) (rflen : Z) : list Z :=
  positions n (tr_surfpos0 0) (tr_surf_inc (trs_area_padded s) (trs_padded s) (trs_nlayers s)) rflen.
Definition tr_air_positions (s : tr_self) (n : nat) (rflen : Z) : list Z :=
  positions n (tr_airpos0 (trs_area_padded s) 0) (tr_air_inc (trs_area_padded s) (trs_padded s) (trs_nlayers s)) rflen.
(* memmap(name, '>f', 'r', pos, (area_count,)) *)
Definition words_at (ws : list word) (pos ncell : Z) : list word :=
  firstn (Z.to_nat ncell) (skipn (Z.to_nat (pos / 4)) ws).
(* memmap(pos, ((cell_count + 4) * nlayers,)).reshape(nlayers, cell_count + 4)[:, 3:-1] *)
Definition air_at (ws : list word) (pos ncell nl : Z) : list (list word) :=
  map (fun k => cells_at ws (pos + 4 * (Z.of_nat k * (ncell + 4))) ncell) (seq 0 (Z.to_nat nl)).

(* height_pressure: __gettimestep starts at the third record and looks at every second record *)
Definition hpr_probe (marker0 : Z) (stamps : list (Z * Z)) : option hpr_self :=
  match stamps with
  | s0 :: _ :: rest =>
    match count_same s0 (map snd (filter (fun p => Nat.even (fst p)) (combine (seq 0 (length rest)) rest))) 0 with
    | Some (nl, s1) =>
      Some {| hpr_start_date := fst s0; hpr_start_time := snd s0; hpr_time_step := tt_timediff s0 s1 2400;
              hpr_nlayers := nl; hpr_padded_size := marker0 + 8; hpr_data_start_byte := 0 |}
    | None => None
    end
  | _ => None
  end.
(* steps found by seeking (d, t, nlayers, 1) step after step until the seek fails: the number of whole steps of
   2 * nlayers records below the file size; claimed while 0 < time_step <= 2400 (as o3r_step_count) *)
Definition hpr_step_count (self : hpr_self) (size : Z) : option Z :=
  let blk := 2 * hpr_nlayers self * hpr_padded_size self in
  if (0 <? hpr_time_step self) && (hpr_time_step self <=? 2400) && (0 <? blk) then Some (size / blk) else None.
