(* CAMx UAM-IV gridded files (average / emissions / instant) at the 4-byte-word level.
   spec side : the published layout (CAMx User's Guide: 4 header records, then per time step a time
               record followed by nspec*nz species-layer records), written as Fortran records.
   impl side : the memory-mapped reader (camxfiles/uamiv/Memmap.py), which does NOT walk records: it
               reads counts at fixed offsets of the translated dtypes (Gen.Camx) and strides through the
               rest with the translated block sizes; and the date/time conversion of ArrayTransforms.
   No proofs here. *)
From PNC Require Import Base.Util Base.Words Gen.Camx.
From Coq Require Import String QArith Qround.
Import Coq.Lists.List. Import ListNotations.
Local Open Scope Z_scope.

Record uamiv := {
  u_name : list word;              (* 10 words: one character per word, blank padded *)
  u_note : list word;              (* 60 words *)
  u_itzon : word;
  u_dates : list word;             (* ibdate btime iedate etime *)
  u_gpre : list word;              (* plon plat iutm xorg yorg delx dely : 7 words *)
  u_nx : Z; u_ny : Z; u_nz : Z;
  u_gpost : list word;             (* iproj istag tlat1 tlat2 rdum : 5 words *)
  u_spc : list (list word);        (* species names, 10 words each *)
  u_steps : list (list word * list (list (list word)))
     (* per step: (ibdate btime iedate etime, per species, per layer: ny*nx words) *)
}.

Definition nspec (u : uamiv) : Z := Z.of_nat (length (u_spc u)).

(* ---- spec encoder: records as the format description lists them ---------------------- *)
Definition lay_record (nm lay : list word) : record := 1 :: nm ++ lay.
Definition spc_records (nm : list word) (lays : list (list word)) : list record :=
  map (lay_record nm) lays.
Definition step_records (spc : list (list word)) (st : list word * list (list (list word))) : list record :=
  fst st :: concat (map (fun p => spc_records (fst p) (snd p)) (combine spc (snd st))).
Definition header_records (u : uamiv) : list record :=
  [ u_name u ++ u_note u ++ [u_itzon u; nspec u] ++ u_dates u;
    u_gpre u ++ [u_nx u; u_ny u; u_nz u] ++ u_gpost u;
    [1; 1; u_nx u; u_ny u];
    concat (u_spc u) ].
Definition to_records (u : uamiv) : list record :=
  header_records u ++ concat (map (step_records (u_spc u)) (u_steps u)).
Definition enc (u : uamiv) : list word := frame (to_records u).

(* ---- spec decoder (record walking, independent of the strides the library uses) -------- *)
Fixpoint take_lays (n : nat) (nm : list word) (rs : list record) : option (list (list word) * list record) :=
  match n with
  | O => Some ([], rs)
  | S n' =>
    match rs with
    | (one :: body) :: rs' =>
      if (one =? 1) && zlist_eqb (firstn 10 body) nm then
        match take_lays n' nm rs' with
        | Some (ls, rest) => Some (skipn 10 body :: ls, rest)
        | None => None
        end
      else None
    | _ => None
    end
  end.
Fixpoint take_spcs (nz : nat) (spc : list (list word)) (rs : list record)
  : option (list (list (list word)) * list record) :=
  match spc with
  | [] => Some ([], rs)
  | nm :: spc' =>
    match take_lays nz nm rs with
    | Some (ls, rest) =>
      match take_spcs nz spc' rest with
      | Some (ss, rest') => Some (ls :: ss, rest')
      | None => None
      end
    | None => None
    end
  end.
Fixpoint take_steps (fuel : nat) (nz : nat) (spc : list (list word)) (rs : list record)
  : option (list (list word * list (list (list word)))) :=
  match rs with
  | [] => Some []
  | th :: rs' =>
    match fuel with
    | O => None
    | S f =>
      match take_spcs nz spc rs' with
      | Some (ss, rest) =>
        match take_steps f nz spc rest with
        | Some sts => Some ((th, ss) :: sts)
        | None => None
        end
      | None => None
      end
    end
  end.

Definition of_records (rs : list record) : option uamiv :=
  match rs with
  | h1 :: h2 :: h3 :: h4 :: body =>
    let name := firstn 10 h1 in let note := firstn 60 (skipn 10 h1) in
    let itzon := nth 70 h1 0 in let nsp := nth 71 h1 0 in
    let dates := skipn 72 h1 in
    let gpre := firstn 7 h2 in
    let nx := nth 7 h2 0 in let ny := nth 8 h2 0 in let nz := nth 9 h2 0 in
    let gpost := skipn 10 h2 in
    match chunks 10 h4 with
    | Some spc =>
      if (Z.of_nat (length h1) =? 76) && (Z.of_nat (length h2) =? 15)
         && zlist_eqb h3 [1; 1; nx; ny] && (Z.of_nat (length spc) =? nsp) && (0 <? nz) then
        match take_steps (S (length body)) (Z.to_nat nz) spc body with
        | Some sts => Some {| u_name := name; u_note := note; u_itzon := itzon; u_dates := dates;
                              u_gpre := gpre; u_nx := nx; u_ny := ny; u_nz := nz; u_gpost := gpost;
                              u_spc := spc; u_steps := sts |}
        | None => None
        end
      else None
    | None => None
    end
  | _ => None
  end.

Definition dec (ws : list word) : option uamiv :=
  match unframe_all ws with Some rs => of_records rs | None => None end.

(* well-formedness of a uamiv value (what a generated file satisfies) *)
Definition len_is {A} (n : Z) (l : list A) : bool := Z.of_nat (length l) =? n.
Definition wf_step (u : uamiv) (st : list word * list (list (list word))) : bool :=
  len_is 4 (fst st) && len_is (nspec u) (snd st)
  && forallb (fun lays => len_is (u_nz u) lays && forallb (len_is (u_nx u * u_ny u)) lays) (snd st).
Definition wf (u : uamiv) : bool :=
  len_is 10 (u_name u) && len_is 60 (u_note u) && len_is 4 (u_dates u) && len_is 7 (u_gpre u)
  && len_is 5 (u_gpost u) && (0 <? u_nx u) && (0 <? u_ny u) && (0 <? u_nz u) && (0 <? nspec u)
  && forallb (len_is 10) (u_spc u) && forallb (wf_step u) (u_steps u).

(* ---- impl: the memory-mapped reader ---------------------------------------------------- *)
Inductive result (A : Type) := Ok (a : A) | Err.
Arguments Ok {A} a. Arguments Err {A}.

Record view := {
  v_nspec : Z; v_nx : Z; v_ny : Z; v_nz : Z; v_ntimes : Z;
  v_names : list (list word);
  v_dates : list (list word);                       (* per step: BDATE BTIME EDATE ETIME words *)
  v_data : list (list (list (list word)))           (* [t][s][k] -> ny*nx words *)
}.

Definition woff (d : list (string * Z * Z)) (f : string) : Z :=
  match dtype_offset d f with Some o => o / 4 | None => 0 end.
Definition getw (ws : list word) (i : Z) : word := nth (Z.to_nat i) ws 0.

(* group consecutive runs of n elements, cnt times (no length check: a structured dtype never checks) *)
Fixpoint group (cnt n : nat) (l : list (list word)) : list (list (list word)) :=
  match cnt with O => [] | S c => firstn n l :: group c n (skipn n l) end.

(* one time block: DATE record (6 words incl. markers) then nspec*nz species-layer records of
   um_spc_1_lay_block_size words each, whose DATA field starts at the translated offset *)
Definition split_block (nspec nz nx ny : Z) (blk : list word)
  : option (list word * list (list (list word))) :=
  let dt := firstn (Z.to_nat um_date_time_block_size) blk in
  let lay_sz := um_spc_1_lay_block_size nx ny in
  match chunks (Z.to_nat lay_sz) (skipn (Z.to_nat um_date_time_block_size) blk) with
  | Some recs =>
    let d0 := woff (um_spc_1_lay_fmt ny nx) "DATA" in
    let datas := map (fun r => firstn (Z.to_nat (nx * ny)) (skipn (Z.to_nat d0) r)) recs in
    Some (firstn 4 (skipn (Z.to_nat (woff um_date_time_fmt "BDATE")) dt),
          group (Z.to_nat nspec) (Z.to_nat nz) datas)
  | None => None
  end.

(* the integrality test on the translated rational expression (exact while |size| < 2^53) *)
Definition ntimes_of (size off blk : Z) : option Z :=
  let q := um_ntimes size off blk in
  if Qeq_bool q (inject_Z (Qfloor q)) then Some (Qfloor q) else None.

(* after the header: number of time blocks from the file size, then one structured item per block *)
Definition mm_body (nspec nx ny nz : Z) (names : list (list word)) (off4 : Z)
                   (ws : list word) (size : Z) : result view :=
  let lay_sz := um_spc_1_lay_block_size nx ny in
  let blk := um_data_block_size um_date_time_block_size nspec nz lay_sz in
  (* ntimes = float(size - offset) / 4. / data_block_size ; int(ntimes) != ntimes -> ValueError *)
  match ntimes_of size off4 blk with
  | None => Err
  | Some ntimes =>
    (* numpy.memmap of the block dtype without shape: needs a non-empty whole number of items *)
    if ntimes <=? 0 then Err else
    match chunks (Z.to_nat blk) (firstn (Z.to_nat (ntimes * blk)) (skipn (Z.to_nat (off4 / 4)) ws)) with
    | Some blocks =>
      let parts := map (split_block nspec nz nx ny) blocks in
      if forallb (fun p => match p with Some _ => true | None => false end) parts then
        let ps := flat_map (fun p => match p with Some x => [x] | None => [] end) parts in
        Ok {| v_nspec := nspec; v_nx := nx; v_ny := ny; v_nz := nz; v_ntimes := ntimes;
              v_names := names; v_dates := map fst ps; v_data := map snd ps |}
      else Err
    | None => Err
    end
  end.

Definition mm_read (ws : list word) (size : Z) : result view :=
  let e_sz := dtype_itemsize um_emiss_hdr_fmt in
  let g_sz := dtype_itemsize um_grid_hdr_fmt in
  let c_sz := dtype_itemsize um_cell_hdr_fmt in
  (* each header memmap(shape=1, offset) needs offset + itemsize <= size *)
  if size <? e_sz then Err else
  let nspec := getw ws (woff um_emiss_hdr_fmt "nspec") in
  if size <? e_sz + g_sz then Err else
  let g0 := e_sz / 4 in
  let nx := getw ws (g0 + woff um_grid_hdr_fmt "nx") in
  let ny := getw ws (g0 + woff um_grid_hdr_fmt "ny") in
  let nz := Z.max (getw ws (g0 + woff um_grid_hdr_fmt "nz")) 1 in
  if size <? e_sz + g_sz + c_sz then Err else
  let off3 := e_sz + g_sz + c_sz + 4 in
  if (nspec <=? 0) || (size <? off3 + nspec * dtype_itemsize um_spc_fmt) then Err else
  let names := match chunks 10 (firstn (Z.to_nat (nspec * 10)) (skipn (Z.to_nat (off3 / 4)) ws)) with
               | Some l => l | None => [] end in
  let off4 := off3 + nspec * dtype_itemsize um_spc_fmt + 4 in
  if (nx <=? 0) || (ny <=? 0) then Err else
  mm_body nspec nx ny nz names off4 ws size.

(* what a reader should present for a well-formed file *)
Definition view_of (u : uamiv) : view :=
  {| v_nspec := nspec u; v_nx := u_nx u; v_ny := u_ny u; v_nz := u_nz u;
     v_ntimes := Z.of_nat (length (u_steps u));
     v_names := u_spc u; v_dates := map fst (u_steps u); v_data := map snd (u_steps u) |}.

(* first k steps only *)
Definition truncate_steps (k : nat) (u : uamiv) : uamiv :=
  {| u_name := u_name u; u_note := u_note u; u_itzon := u_itzon u; u_dates := u_dates u;
     u_gpre := u_gpre u; u_nx := u_nx u; u_ny := u_ny u; u_nz := u_nz u; u_gpost := u_gpost u;
     u_spc := u_spc u; u_steps := firstn k (u_steps u) |}.

(* ---- sizes (in words) ------------------------------------------------------------------ *)
Definition hdr_words (u : uamiv) : Z := 78 + 17 + 6 + (2 + 10 * nspec u).
Definition step_words (u : uamiv) : Z := 6 + nspec u * u_nz u * (13 + u_nx u * u_ny u).

(* ---- date / time conversion (ArrayTransforms.ConvertCAMxTime), dates YYJJJ, hours as ints - *)
(* date += where(date < 70000, 2000000, 1900000): per element (after the fix: commit in known_findings/C08.json) *)
Definition conv_date (d : Z) : Z := d + (if d <? 70000 then 2000000 else 1900000).
(* while not (time == 0).all() and time.max() < 10000: time *= 100 *)
Fixpoint scale_times (fuel : nat) (ts : list Z) : list Z :=
  match fuel with
  | O => ts
  | S f => if forallb (fun t => t =? 0) ts then ts
           else if fold_right Z.max 0 ts <? 10000 then scale_times f (map (fun t => t * 100) ts)
           else ts
  end.
Definition convert_camx_time (dates hours : list Z) : list (Z * Z) :=
  combine (map conv_date dates) (scale_times 8 hours).

(* what the property demands: YYJJJ of 1970..2069 -> YYYYJJJ, whole hours -> HHMMSS *)
Definition spec_date (d : Z) : Z := if d <? 70000 then 2000000 + d else 1900000 + d.
Definition spec_camx_time (dates hours : list Z) : list (Z * Z) :=
  combine (map spec_date dates) (map (fun h => h * 10000) hours).

(* ---- the writer (uamiv/Write.py ncf2uamiv) when the input has no ETFLAG variable ------------------
   date_e = date_s ; time_e = time_s + TSTEP/10000 ; date_e += time_e // 24 ; time_e -= (time_e // 24) * 24
   i.e. the end date is the two-digit-year julian date PLUS ONE at midnight, with no year roll-over. *)
Definition hour_word (h : Z) : Z :=   (* binary32 bit pattern of the whole hour h, 0 <= h <= 24 *)
  nth (Z.to_nat h) [0; 1065353216; 1073741824; 1077936128; 1082130432; 1084227584; 1086324736; 1088421888; 1090519040; 1091567616; 1092616192; 1093664768; 1094713344; 1095761920; 1096810496; 1097859072; 1098907648; 1099431936; 1099956224; 1100480512; 1101004800; 1101529088; 1102053376; 1102577664; 1103101952] 0.
Definition derive_end (bd bh : Z) : Z * Z := (bd + (bh + 1) / 24, (bh + 1) mod 24).
Definition derive_th (th : list word) (bh : Z) : list word :=
  let bd := nth 0 th 0 in let e := derive_end bd bh in [bd; nth 1 th 0; fst e; hour_word (snd e)].
Definition derive_u (u : uamiv) (bhours : list Z) : uamiv :=
  let sts := map (fun p => (derive_th (fst (fst p)) (snd p), snd (fst p))) (combine (u_steps u) bhours) in
  let lastth := last (map fst sts) [0; 0; 0; 0] in
  {| u_name := u_name u; u_note := u_note u; u_itzon := u_itzon u;
     u_dates := [nth 0 (u_dates u) 0; nth 1 (u_dates u) 0; nth 2 lastth 0; nth 3 lastth 0];
     u_gpre := u_gpre u; u_nx := u_nx u; u_ny := u_ny u; u_nz := u_nz u; u_gpost := u_gpost u;
     u_spc := u_spc u; u_steps := sts |}.
(* the true calendar successor of a YYJJJ date (1970..2069: leap iff yy mod 4 = 0) *)
Definition next_yyjjj (d : Z) : Z :=
  let yy := d / 1000 in let jjj := d mod 1000 in
  let ndays := if yy mod 4 =? 0 then 366 else 365 in
  if jjj <? ndays then d + 1 else ((yy + 1) mod 100) * 1000 + 1.
Definition spec_end (bd bh : Z) : Z * Z := if bh + 1 <? 24 then (bd, bh + 1) else (next_yyjjj bd, 0).
