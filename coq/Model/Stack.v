(* C04 — PseudoNetCDFFile.stack (core/_files.py) and splitting by unit-stride slices.
   Executable model, no proofs.  Flat C-order arrays (Base/ArrFlat.v), abstract cells (a mask is
   part of the cell: np.ma.concatenate keeps it).  An axis k of an array of shape
   pre ++ [n] ++ post is addressed by  outer = prodn pre,  inner = prodn post. *)
From PNC Require Import Base.Util Base.ArrFlat Model.Slice.

Section Stack.
Context {A : Type}.

(* np.ma.concatenate(parts, axis): part p has n_p entries along the axis; for every outer index
   the blocks of the parts follow each other in list order *)
Definition concat_at (outer inner : nat) (parts : list (nat * list A)) : list A :=
  flat_map (fun o => flat_map (fun p => chunk (fst p * inner) o (snd p)) parts) (seq 0 outer).

(* the piece [c0, c0+len) along the axis (what slicing with slice(c0, c0+len) returns) *)
Definition piece_at (outer inner n c0 len : nat) (d : list A) : list A :=
  flat_map (fun o => firstn (len * inner) (skipn (c0 * inner) (chunk (n * inner) o d))) (seq 0 outer).

(* selector tuple (C02) that keeps everything except [c0, c0+len) on the axis after `pre` *)
Definition axis_sel (pre post : list nat) (c0 len : nat) : list rsel :=
  map full_sel pre ++ RSlice (seq c0 len) :: map full_sel post.

(* consecutive extents (start, length) of pieces with the given lengths *)
Fixpoint extents (s : nat) (lens : list nat) : list (nat * nat) :=
  match lens with [] => [] | l :: t => (s, l) :: extents (s + l) t end.

Definition sumn (l : list nat) : nat := fold_right Nat.add 0 l.

Definition split_at (outer inner n : nat) (lens : list nat) (d : list A) : list (nat * list A) :=
  map (fun e => (snd e, piece_at outer inner n (fst e) (snd e) d)) (extents 0 lens).

(* ---- whole files ------------------------------------------------------------------------- *)

Fixpoint index_of (k : nat) (l : list nat) : option nat :=
  match l with
  | [] => None
  | x :: t => if Nat.eqb x k then Some 0 else option_map S (index_of k t)
  end.

Definition dimlens (dims : list nat) (vd : list nat) : list nat := map (fun j => nth j dims 0) vd.

(* all files carry the same dimension names (ids = positions) and the same variables in the same
   order; they may differ in lengths and cells.  Result: dimensions as (id, length) in the order
   the code creates them — shared ones first, the stack dimension LAST — and the variables. *)
Definition impl_stack (fs : list (file A)) (k : nat) : option (list (nat * nat) * list (var A)) :=
  match fs with
  | [] => None
  | f0 :: _ =>
    let nd := length (f_dims f0) in
    if negb (Nat.ltb k nd) then None else                                           (* KeyError *)
    if negb (forallb (fun f => Nat.eqb (length (f_dims f)) nd) fs) then None else
    (* every other dimension must have the same length in all files (the assert) *)
    if negb (forallb (fun j => Nat.eqb j k ||
                       forallb (fun f => Nat.eqb (nth j (f_dims f) 0) (nth j (f_dims f0) 0)) fs)
                     (seq 0 nd)) then None else
    let newlen := sumn (map (fun f => nth k (f_dims f) 0) fs) in
    let odims := filter (fun p => negb (Nat.eqb (fst p) k)) (combine (seq 0 nd) (f_dims f0))
                 ++ [(k, newlen)] in
    let vars := map (fun iv =>
        let i := fst iv in let v := snd iv in
        match index_of k (v_dims v) with
        | None => v                                                        (* first file's copy *)
        | Some ax =>
          let sh := dimlens (f_dims f0) (v_dims v) in
          Var (v_dims v)
              (concat_at (prodn (firstn ax sh)) (prodn (skipn (S ax) sh))
                 (map (fun f => (nth k (f_dims f) 0,
                                 v_data (nth i (f_vars f) (Var [] [])))) fs))
        end) (combine (seq 0 (length (f_vars f0))) (f_vars f0)) in
    Some (odims, vars)
  end.

(* splitting a file along dimension k into pieces of the given lengths, by unit-stride slices *)
Definition split_file (f : file A) (k : nat) (lens : list nat) : list (file A) :=
  map (fun e =>
    File (map (fun jn => if Nat.eqb (fst jn) k then snd e else snd jn)
              (combine (seq 0 (length (f_dims f))) (f_dims f)))
         (map (fun v =>
            match index_of k (v_dims v) with
            | None => v
            | Some ax =>
              let sh := dimlens (f_dims f) (v_dims v) in
              Var (v_dims v) (piece_at (prodn (firstn ax sh)) (prodn (skipn (S ax) sh))
                                       (nth k (f_dims f) 0) (fst e) (snd e) (v_data v))
            end) (f_vars f)))
      (extents 0 lens).

End Stack.
