(* The writers' own end-date derivation (uamiv/Write.py ncf2uamiv without ETFLAG, lateral_boundary/Write.py always),
   as repaired by 4389526 (uamiv) and a9b6e29 (lateral_boundary):
     date_e = date_s ; time_e = time_s + 1 ; date_e += time_e // 24 ; time_e -= (time_e // 24) * 24 ;
     yy, jjj = date_e // 1000, date_e % 1000 ; ndays = where(yy % 4 == 0, 366, 365) ;
     date_e = where(jjj > ndays, (yy + 1) % 100 * 1000 + (jjj - ndays), date_e)
   i.e. the day of year is carried into the next two-digit year (the calendar of the reader's century rule 1970..2069).
   (Before the repairs the date was YYJJJ + 1 at midnight with no year roll-over, Model/Uamiv.v derive_end: 99365 -> 99366.)
   No proofs here. *)
From PNC Require Import Base.Util Base.Words Gen.Camx Model.Uamiv.
Import Coq.Lists.List. Import ListNotations.
Local Open Scope Z_scope.

Definition roll_yyjjj (d : Z) : Z :=
  let yy := d / 1000 in let jjj := d mod 1000 in
  let ndays := if yy mod 4 =? 0 then 366 else 365 in
  if jjj >? ndays then ((yy + 1) mod 100) * 1000 + (jjj - ndays) else d.
Definition derive_end_r (bd bh : Z) : Z * Z := (roll_yyjjj (bd + (bh + 1) / 24), (bh + 1) mod 24).
Definition derive_th_r (th : list word) (bh : Z) : list word :=
  let bd := nth 0 th 0 in let e := derive_end_r bd bh in [bd; nth 1 th 0; fst e; hour_word (snd e)].
Definition derive_u_r (u : uamiv) (bhours : list Z) : uamiv :=
  let sts := map (fun p => (derive_th_r (fst (fst p)) (snd p), snd (fst p))) (combine (u_steps u) bhours) in
  let lastth := last (map fst sts) [0; 0; 0; 0] in
  {| u_name := u_name u; u_note := u_note u; u_itzon := u_itzon u;
     u_dates := [nth 0 (u_dates u) 0; nth 1 (u_dates u) 0; nth 2 lastth 0; nth 3 lastth 0];
     u_gpre := u_gpre u; u_nx := u_nx u; u_ny := u_ny u; u_nz := u_nz u; u_gpost := u_gpost u;
     u_spc := u_spc u; u_steps := sts |}.

(* valid begin dates: day of year 1..365/366 *)
Definition valid_yyjjj (d : Z) : bool :=
  (0 <=? d / 1000) && (d / 1000 <=? 99) && (1 <=? d mod 1000) && (d mod 1000 <=? (if (d / 1000) mod 4 =? 0 then 366 else 365)).
