(* C03 — PseudoNetCDFFile.applyAlongDimensions (core/_files.py).
   Executable model only.  Cells are option Q (None = masked); arrays are Base/NdApply farr.
   impl_* follows the code: (1) new dimension lengths from the function applied to the 1-D
   coordinate variable (else arange), errors raised there in the order the dimensions are
   named; (2) per variable, the variable's axes are visited in REVERSE order and every axis
   whose dimension is named gets the named reducer (method(axis, keepdims=True)) or
   numpy.apply_along_axis called with the opts dictionary (the documented dict(func1d=f, ...keywords) form is the
   callable f with its keywords bound: it is the same fdesc here); (3) the result is assigned
   into a variable created with the RESULT's dtype (copyVariable(..., dtype=newvals.dtype,
   withdata=False)), so no value is altered by the store.
   Describes the code after fixes C03-apply-dict-form and C03-apply-result-dtype.
   No proofs in this file. *)
From PNC Require Import Base.Util Base.NdApply.
Require Import QArith Qabs.
Local Open Scope Q_scope.

Definition cell := option Q.

Inductive err := KeyError | TypeError | AttributeError | ValueError.
Inductive res (A : Type) := Ok (a : A) | Err (e : err).
Arguments Ok {A} _.
Arguments Err {A} _.

(* what can be passed for a dimension *)
Inductive fdesc :=
| RSum | RProd | RMin | RMax | RMean               (* 'sum' 'prod' 'min' 'max' 'mean' *)
| FDiff                                            (* numpy.diff *)
| FSub (step : nat)                                (* lambda x: x[::step], step >= 1 *)
| FConv (mode : nat) (ker : list Q)                (* lambda x: numpy.convolve(x, ker, mode); 0 full 1 same 2 valid *)
| BadNoKeepdims                                    (* a method without keepdims, e.g. 'cumsum' *)
| BadNoAttr.                                       (* no such ndarray method, e.g. 'ptp', 'median' *)

Definition qadd (a b : Q) : Q := Qred (a + b).
Definition qmul (a b : Q) : Q := Qred (a * b).
Definition qmin (a b : Q) : Q := if Qle_bool a b then a else b.
Definition qmax (a b : Q) : Q := if Qle_bool a b then b else a.

Definition is_some {B} (c : option B) : bool := match c with Some _ => true | None => false end.
Definition count (l : list cell) : nat := length (filter is_some l).

(* numpy.ma mean: sum of the unmasked cells / their number; masked when there is none *)
Definition rmean (l : list cell) : list cell :=
  match fold_right (olift qadd) None l with
  | None => [None]
  | Some s => [Some (Qred (s / inject_Z (Z.of_nat (count l))))]
  end.

(* numpy.diff on a masked lane: out[i] = l[i+1] - l[i], masked when either is *)
Fixpoint fdiff (l : list cell) : list cell :=
  match l with
  | a :: ((b :: _) as t) =>
      (match a, b with Some x, Some y => Some (Qred (y - x)) | _, _ => None end) :: fdiff t
  | _ => []
  end.

Fixpoint fsub_aux (step skip : nat) (l : list cell) : list cell :=
  match l with
  | [] => []
  | x :: t => match skip with
              | O => x :: fsub_aux step (step - 1) t
              | S s => fsub_aux step s t
              end
  end.
Definition fsub (step : nat) (l : list cell) : list cell := fsub_aux step 0 l.

Definition unmask (l : list cell) : list Q := map (fun c => match c with Some q => q | None => 0 end) l.

Definition conv_full (a ker : list Q) : list Q :=
  map (fun i => fold_right qadd 0
                  (map (fun j => if (j <=? i)%nat && (i - j <? length ker)%nat
                                 then nth j a 0 * nth (i - j) ker 0 else 0)
                       (seq 0 (length a))))
      (seq 0 (length a + length ker - 1)).

(* numpy.convolve modes as slices of the full convolution *)
Definition conv (mode : nat) (a ker : list Q) : list Q :=
  let n := length a in let k := length ker in
  let full := conv_full a ker in
  match mode with
  | O => full
  | S O => firstn (Nat.max n k) (skipn ((Nat.min n k - 1) / 2) full)
  | _ => firstn (Nat.max n k - Nat.min n k + 1) (skipn (Nat.min n k - 1) full)
  end.

(* numpy.convolve ignores the mask of a masked lane and computes on the hidden data, which
   this model does not carry: lanes with a masked cell are outside the executable model
   (the correspondence sends such cases to the Python oracle only); here they yield masked. *)
Definition fconv (mode : nat) (ker : list Q) (l : list cell) : list cell :=
  if forallb is_some l then map Some (conv mode (unmask l) ker)
  else map (fun _ => None) (conv mode (unmask l) ker).

Definition run (fd : fdesc) : list cell -> list cell :=
  match fd with
  | RSum => ma_red qadd | RProd => ma_red qmul | RMin => ma_red qmin | RMax => ma_red qmax
  | RMean => rmean
  | FDiff => fdiff | FSub s => fsub s | FConv m k => fconv m k
  | _ => fun l => l
  end.

Record var := Var { vname : nat; vdims : list nat; vdat : farr cell }.
Record file := File { fdims : list (nat * nat); fvars : list var }.
Definition dimfuncs := list (nat * fdesc).

Fixpoint lookup {B} (k : nat) (l : list (nat * B)) : option B :=
  match l with
  | [] => None
  | (k', v) :: t => if (k' =? k)%nat then Some v else lookup k t
  end.

Definition find_var (n : nat) (vs : list var) : option var := find (fun v => (vname v =? n)%nat) vs.

Definition arange (n : nat) : list cell := map (fun i => Some (inject_Z (Z.of_nat i))) (seq 0 n).

(* ---- step 1: dimlens ------------------------------------------------------------- *)
Definition coord_lane (f : file) (d n : nat) : list cell :=
  match find_var d (fvars f) with
  | Some v => if (rank (vdat v) =? 1)%nat then to_flat (vdat v) else arange n
  | None => arange n
  end.

Definition newlen (fd : fdesc) (l : list cell) : res nat :=
  match fd with
  | BadNoKeepdims => Err TypeError
  | BadNoAttr => Err AttributeError
  | RSum | RProd | RMin | RMax | RMean => Ok 1%nat
  | _ => Ok (length (run fd l))
  end.

Fixpoint dimlens (f : file) (dfs : dimfuncs) : res (list (nat * nat)) :=
  match dfs with
  | [] => Ok []
  | (d, fd) :: t =>
      match lookup d (fdims f) with
      | None => Err KeyError
      | Some n =>
          match newlen fd (coord_lane f d n) with
          | Err e => Err e
          | Ok m => match dimlens f t with Err e => Err e | Ok r => Ok ((d, m) :: r) end
          end
      end
  end.

Definition newdim (nl : list (nat * nat)) (dn : nat * nat) : nat * nat :=
  (fst dn, match lookup (fst dn) nl with Some m => m | None => snd dn end).

(* ---- step 2: variables ----------------------------------------------------------- *)
Definition enumerate {B} (l : list B) : list (nat * B) := combine (seq 0 (length l)) l.

Definition step (dfs : dimfuncs) (kd : nat * nat) (a : farr cell) : farr cell :=
  match lookup (snd kd) dfs with
  | Some fd => apply_axis (run fd) None (fst kd) a
  | None => a
  end.

(* for di, dk in list(enumerate(vdims))[::-1]: ... ; fold_right visits the last axis first *)
Definition impl_vals (dfs : dimfuncs) (v : var) : farr cell :=
  fold_right (step dfs) (vdat v) (enumerate (vdims v)).

Fixpoint target_shape (nd : list (nat * nat)) (ds : list nat) : option (list nat) :=
  match ds with
  | [] => Some []
  | d :: t => match lookup d nd, target_shape nd t with
              | Some n, Some s => Some (n :: s)
              | _, _ => None
              end
  end.

(* newvaro = copyVariable(varo, dtype=newvals.dtype, withdata=False); newvaro[...] = newvals
   (equal shapes only; numpy broadcasting of a length-1 axis is not modelled: it cannot
   arise for well-formed files and length-uniform functions) *)
Definition out_var (dfs : dimfuncs) (nd : list (nat * nat)) (v : var) : res var :=
  let nv := impl_vals dfs v in
  match target_shape nd (vdims v) with
  | None => Err KeyError
  | Some tgt =>
      if list_eqb Nat.eqb (sh nv) tgt
      then Ok (Var (vname v) (vdims v) nv)
      else Err ValueError
  end.

Fixpoint map_res {X Y} (g : X -> res Y) (l : list X) : res (list Y) :=
  match l with
  | [] => Ok []
  | x :: t => match g x with
              | Err e => Err e
              | Ok y => match map_res g t with Err e => Err e | Ok r => Ok (y :: r) end
              end
  end.

Definition impl_apply (f : file) (dfs : dimfuncs) : res file :=
  match dimlens f dfs with
  | Err e => Err e
  | Ok nl =>
      let nd := map (newdim nl) (fdims f) in
      match map_res (out_var dfs nd) (fvars f) with
      | Err e => Err e
      | Ok vs => Ok (File nd vs)
      end
  end.

(* ---- specification side ---------------------------------------------------------- *)
(* axes of the variable whose dimension is named *)
Definition named_axes (dfs : dimfuncs) (v : var) : list nat :=
  map fst (filter (fun kd => is_some (lookup (snd kd) dfs)) (enumerate (vdims v))).

(* apply the named functions along the axes ks, LAST element of ks first; the function of
   axis k is the one named for the k-th dimension of the variable *)
Definition seq_apply (dfs : dimfuncs) (v : var) (ks : list nat) : farr cell :=
  fold_right (fun k a => match nth_error (vdims v) k with
                         | Some d => step dfs (k, d) a
                         | None => a
                         end) (vdat v) ks.

Fixpoint insert_all {B} (x : B) (l : list B) : list (list B) :=
  match l with
  | [] => [[x]]
  | y :: t => (x :: l) :: map (cons y) (insert_all x t)
  end.
Fixpoint perms {B} (l : list B) : list (list B) :=
  match l with
  | [] => [[]]
  | x :: t => flat_map (insert_all x) (perms t)
  end.

(* comparison of a model cell with an observed cell: exact, or (binary64 rounding of a
   non-dyadic mean, possibly followed by cancellation) within 2^-40 relative or 2^-30 absolute
   (generated data are small multiples of 1/4: distinct exact results differ by > 2^-12) *)
Definition q_close (a b : Q) : bool :=
  Qeq_bool a b || Qle_bool (Qabs (a - b) * inject_Z (2 ^ 40)) (Qabs b)
  || Qle_bool (Qabs (a - b) * inject_Z (2 ^ 30)) 1.
Definition cell_close (a b : cell) : bool :=
  match a, b with
  | None, None => true
  | Some x, Some y => q_close x y
  | _, _ => false
  end.
Definition cells_close := list_eqb cell_close.

(* The property for one variable, on an observed result (shape, row-major cells):
   the result is the composition of the per-axis applications in SOME order of the named
   axes (for commuting reducers every order gives the same array: Props C03_reducers_any_order);
   no named axis: the data are unchanged. *)
Definition spec_var_ok (dfs : dimfuncs) (v : var) (oshape : list nat) (ocells : list cell) : bool :=
  existsb (fun ks => let r := seq_apply dfs v ks in
                     list_eqb Nat.eqb (sh r) oshape && cells_close (to_flat r) ocells)
          (perms (named_axes dfs v)).

(* well-formed file (the stated domain) *)
Definition wf_var (f : file) (v : var) : bool :=
  match target_shape (fdims f) (vdims v) with
  | Some s => list_eqb Nat.eqb (sh (vdat v)) s
  | None => false
  end.
Definition wf_file (f : file) : bool :=
  forallb (wf_var f) (fvars f) && forallb (fun dn => (1 <=? snd dn)%nat) (fdims f).

Definition good (fd : fdesc) : bool :=
  match fd with BadNoKeepdims | BadNoAttr => false | FSub O => false | _ => true end.

(* the property for a whole result, positionally (the code keeps the variable order) *)
Fixpoint spec_vars_ok (dfs : dimfuncs) (vs vs' : list var) : bool :=
  match vs, vs' with
  | [], [] => true
  | v :: t, v' :: t' =>
      (vname v =? vname v')%nat && list_eqb Nat.eqb (vdims v) (vdims v')
      && spec_var_ok dfs v (sh (vdat v')) (to_flat (vdat v')) && spec_vars_ok dfs t t'
  | _, _ => false
  end.
Definition spec_file_ok (dfs : dimfuncs) (f r : file) : bool := spec_vars_ok dfs (fvars f) (fvars r).

(* ---- integrality (the value class of integer dtypes) --------------------------------- *)
Definition q_int (q : Q) : Prop := exists z : Z, q == inject_Z z.
Definition cell_int (c : cell) : Prop := match c with Some q => q_int q | None => True end.
Definition arr_int (a : farr cell) : Prop := forall i, cell_int (at_ a i).
(* functions under which an integer variable stays integer-valued (numpy keeps an integer dtype):
   sum prod min max, diff, sub-sampling, convolution with an integer kernel *)
Definition int_preserving (fd : fdesc) : Prop :=
  match fd with
  | RSum | RProd | RMin | RMax | FDiff | FSub _ => True
  | FConv _ ker => Forall q_int ker
  | _ => False
  end.

(* ---- what the model transcribes from the source (tie T: compared with Gen/C03Src.v, which
   harness/props/c03.py translate() re-reads from the source on every run) ------------------- *)
Record apply_src := ASrc {
  as_enum : bool;        (* dik = list(enumerate(vdims)) *)
  as_reverse : bool;     (* for di, dk in dik[::-1]:   -- impl_vals folds from the last axis *)
  as_named_test : bool;  (* if dk in dimfuncs:          -- step looks the dimension NAME up *)
  as_reducer : bool;     (* newvals = getattr(newvals, dfunc)(axis=di, keepdims=True) *)
  as_callable : bool;    (* opts = dict(axis=di, arr=newvals); ...; newvals = np.apply_along_axis( **opts ) *)
  as_dtype : bool;       (* newvaro = outf.copyVariable(varo, key=vark, dtype=newvals.dtype, withdata=False) *)
  as_assign : bool;      (* newvaro[...] = newvals *)
  as_len_named : bool;   (* newdl = getattr(dvar[...], df)(keepdims=True).size *)
  as_len_call : bool;    (* newdl = df(dvar[:]).size ; dict form: dfopts.pop('func1d')(dvar[:], ...).size *)
  as_coord : bool;       (* dvar = self.variables[dk] if it is 1-D else np.arange(len(dv)) *)
  as_dims : bool;        (* for dk, dv in self.dimensions.items(): outf.copyDimension(dv, key=dk, dimlen=dimlens[dk]) *)
  as_ioapi : bool;       (* ioapi wrapper: core call, then VGLVLS = append(nlayb[:, 0], nlayb[-1, 1]) of layf.applyAlongDimensions(lay=kwds['LAY']) *)
  as_reduce_dim : bool;  (* reduce_dim: axis = list(var.dimensions).index(dimkey); _getfunc(vreshape, func)(axis=axis, keepdims=True) *)
  as_convolve_dim : bool (* convolve_dim: np.apply_along_axis(lambda x_: np.convolve(weights, x_, mode=mode), axis=axisi, arr=var[:]) *)
}.
Definition model_apply : apply_src := ASrc true true true true true true true true true true true true true true.

(* the variable loop as a function of what the source says (axis order) *)
Definition generic_vals (s : apply_src) (dfs : dimfuncs) (v : var) : farr cell :=
  if as_reverse s then fold_right (step dfs) (vdat v) (enumerate (vdims v))
  else fold_left (fun a kd => step dfs kd a) (enumerate (vdims v)) (vdat v).

(* a named function is usable on dimension d of length n: its length probe succeeds and every lane
   of length n gets the probed output length (true of every named reducer; true of a
   length-uniform callable when the 1-D coordinate variable, if any, has the dimension's length) *)
Definition lane_ok (f : file) (d n : nat) (fd : fdesc) : Prop :=
  match newlen fd (coord_lane f d n) with
  | Ok m => forall l, length l = n -> length (run fd l) = m
  | Err _ => False
  end.
