(* C20, file layer — ARL packed-bit FILE layout (HYSPLIT ARL packed data, user guide sect. 4 /
   noaafiles/_arl.py maparlpackedbit, readvardef, writevardef, arlpackedbit.__init__).
   A file is a list of bytes (Z in 0..255).  Every record has 50 + nx*ny bytes: a 50-byte
   ASCII label followed by nx*ny bytes.  Per time period: one INDX record (label, 108 bytes of
   fixed header, the level/variable table, padding) and one data record per level per variable.
   spec side: enc / dec (reference encoder / decoder written from the format description);
   impl side: impl_read (what arlpackedbit does with a file, including its quirks).
   Text fields that are merely moved (time stamp, grid id, projection block, level height text,
   PREC, VAR1, keys) are byte lists.  No proofs in this file. *)
From PNC Require Import Base.Util Model.Arl.
Local Open Scope Z_scope.

(* ---- option monad ----------------------------------------------------------------- *)
Definition obind {A B} (o : option A) (f : A -> option B) : option B :=
  match o with Some x => f x | None => None end.
Notation "'do' x <- e ; f" := (obind e (fun x => f))
  (at level 200, x pattern, e at level 100, f at level 200, right associativity).
Definition guard (b : bool) : option unit := if b then Some tt else None.

(* take n bytes: (field, rest); None when the input is too short *)
Definition take (n : nat) (l : list Z) : option (list Z * list Z) :=
  if (n <=? length l)%nat then Some (firstn n l, skipn n l) else None.

Definition lenZ {A} (l : list A) : Z := Z.of_nat (length l).

(* ---- decimal integer fields (Fortran Iw / Python '%wd' and int()) ----------------- *)
Fixpoint digits_fuel (fuel : nat) (n : Z) : list Z :=
  match fuel with
  | O => [48 + n mod 10]
  | S f => if n <? 10 then [48 + n] else digits_fuel f (n / 10) ++ [48 + n mod 10]
  end.
Definition dec_digits (n : Z) : list Z := digits_fuel 6 n.
(* right-justified, blank padded; wider than w when the number does not fit (as '%wd') *)
Definition fmtI (w : nat) (n : Z) : list Z :=
  let s := if n <? 0 then 45 :: dec_digits (- n) else dec_digits n in
  repeat 32 (w - length s) ++ s.

Definition is_digit (c : Z) : bool := (48 <=? c) && (c <=? 57).
Fixpoint parse_digits (acc : Z) (l : list Z) : option Z :=
  match l with
  | [] => Some acc
  | c :: t => if is_digit c then parse_digits (10 * acc + (c - 48)) t else None
  end.
Fixpoint lstrip (l : list Z) : list Z :=
  match l with c :: t => if c =? 32 then lstrip t else l | [] => [] end.
(* int(b'  12'), int(b' -3'): leading blanks, optional minus, at least one digit, nothing else *)
Definition parseI (l : list Z) : option Z :=
  match lstrip l with
  | [] => None
  | c :: t => if c =? 45 then match t with [] => None | _ => option_map Z.opp (parse_digits 0 t) end
              else parse_digits 0 (c :: t)
  end.
Definition takeI (w : nat) (l : list Z) : option (Z * list Z) :=
  do (a, r) <- take w l; do z <- parseI a; Some (z, r).

(* ---- file content -------------------------------------------------------------------- *)
Record var_t := Var {
  v_key : list Z;     (* 4 bytes *)
  v_ck : Z;           (* checksum recorded in the index table (I3) *)
  v_exp : Z;          (* NEXP (I4) *)
  v_prec : list Z;    (* E14.7 text, 14 bytes *)
  v_var1 : list Z;    (* E14.7 text, 14 bytes *)
  v_data : list Z     (* nx*ny packed bytes, row after row *)
}.
Record lvl_t := Lvl { l_text : list Z (* height, F6 text *); l_vars : list var_t }.
Record period_t := Period {
  p_time : list Z;    (* YYMMDDHHFF, 10 bytes (5 I2 fields) *)
  p_grid : list Z;    (* 2 bytes *)
  p_fixed : list Z;   (* SRCE(4) ICX(3) MN(2) + 12 F7 projection fields = 93 bytes *)
  p_nx : Z; p_ny : Z;
  p_vsys2 : list Z;   (* 2 bytes *)
  p_pad : list Z;     (* rest of the index record after the header *)
  p_levels : list lvl_t
}.

Definition ncell (p : period_t) : Z := p_nx p * p_ny p.
Definition nvars (l : lvl_t) : Z := lenZ (l_vars l).
(* level entry: F6 height + I2 count; variable entry: A4 key + I3 checksum + 1X *)
Definition table_len (ls : list lvl_t) : Z := sumZ (map (fun l => 8 + 8 * nvars l) ls).
Definition lenh (p : period_t) : Z := 108 + table_len (p_levels p).
Definition recl (p : period_t) : Z := 50 + ncell p.
Definition nrecs (ls : list lvl_t) : Z := sumZ (map nvars ls).

(* ---- reference encoder ------------------------------------------------------------- *)
Definition indx : list Z := [73; 78; 68; 88].
Definition zero_e14 : list Z := [32; 48; 46; 48; 48; 48; 48; 48; 48; 48; 69; 43; 48; 48].

Definition enc_var_entry (v : var_t) : list Z := v_key v ++ fmtI 3 (v_ck v) ++ [32].
Definition enc_lvl_entry (l : lvl_t) : list Z :=
  l_text l ++ fmtI 2 (nvars l) ++ concat (map enc_var_entry (l_vars l)).
Definition enc_table (ls : list lvl_t) : list Z := concat (map enc_lvl_entry ls).

Definition enc_index (p : period_t) : list Z :=
  p_time p ++ fmtI 2 0 ++ p_grid p ++ indx ++ fmtI 4 0 ++ zero_e14 ++ zero_e14
  ++ p_fixed p ++ fmtI 3 (p_nx p mod 1000) ++ fmtI 3 (p_ny p mod 1000) ++ fmtI 3 (lenZ (p_levels p))
  ++ p_vsys2 p ++ fmtI 4 (lenh p)
  ++ enc_table (p_levels p) ++ p_pad p.

Definition enc_rec (time grid : list Z) (li : Z) (v : var_t) : list Z :=
  time ++ fmtI 2 li ++ grid ++ v_key v ++ fmtI 4 (v_exp v) ++ v_prec v ++ v_var1 v ++ v_data v.
Definition enc_recs (time grid : list Z) (li : Z) (vs : list var_t) : list Z :=
  concat (map (enc_rec time grid li) vs).
Fixpoint enc_lvls (time grid : list Z) (li : Z) (ls : list lvl_t) : list Z :=
  match ls with
  | [] => []
  | l :: t => enc_recs time grid li (l_vars l) ++ enc_lvls time grid (li + 1) t
  end.
Definition enc_period (p : period_t) : list Z :=
  enc_index p ++ enc_lvls (p_time p) (p_grid p) 0 (p_levels p).
Definition enc (ps : list period_t) : list Z := concat (map enc_period ps).

(* Grids with 1000 or more points in a direction: the I3 fields NX, NY hold the number modulo
   1000 and the two characters of the grid id hold the thousands as letters, CHAR(64 + n/1000)
   ('@' = none, 'A' = 1000, ...); ordinary grid ids (digits, blanks) are below '@'. *)
Definition grid_thousands (g : Z) : Z := Z.max 0 ((g - 64) * 1000).
Definition grid_ok (p : period_t) : bool :=
  (grid_thousands (nth 0 (p_grid p) 0) =? 1000 * (p_nx p / 1000))
  && (grid_thousands (nth 1 (p_grid p) 0) =? 1000 * (p_ny p / 1000)).

(* ---- well-formed content (the domain of the encoder) ----------------------------------- *)
Definition len_is {A} (n : nat) (l : list A) : bool := Nat.eqb (length l) n.
Definition wf_var (nc : Z) (v : var_t) : bool :=
  len_is 4 (v_key v) && (-99 <=? v_ck v) && (v_ck v <=? 999)
  && (-999 <=? v_exp v) && (v_exp v <=? 9999)
  && len_is 14 (v_prec v) && len_is 14 (v_var1 v) && (lenZ (v_data v) =? nc).
Definition wf_lvl (nc : Z) (l : lvl_t) : bool :=
  len_is 6 (l_text l) && (nvars l <=? 99) && forallb (wf_var nc) (l_vars l).
Definition wf_period (p : period_t) : bool :=
  len_is 10 (p_time p) && len_is 2 (p_grid p) && len_is 93 (p_fixed p) && len_is 2 (p_vsys2 p)
  && (0 <=? p_nx p) && (p_nx p <=? 26999) && (0 <=? p_ny p) && (p_ny p <=? 26999)
  && grid_ok p
  && (lenZ (p_levels p) <=? 99) && (lenh p <=? 9999)
  && (lenh p <=? ncell p)                       (* the header fits into the index record *)
  && (lenZ (p_pad p) =? ncell p - lenh p)
  && forallb (wf_lvl (ncell p)) (p_levels p).

(* ---- reference decoder -------------------------------------------------------------- *)
Definition dec_var_entry (bs : list Z) : option ((list Z * Z) * list Z) :=
  do (k, r1) <- take 4 bs; do (ck, r2) <- takeI 3 r1; do (_, r3) <- take 1 r2; Some ((k, ck), r3).
Fixpoint dec_var_entries (n : nat) (bs : list Z) : option (list (list Z * Z) * list Z) :=
  match n with
  | O => Some ([], bs)
  | S n' => do (e, r) <- dec_var_entry bs; do (es, r') <- dec_var_entries n' r; Some (e :: es, r')
  end.
Definition dec_lvl_entry (bs : list Z) : option ((list Z * list (list Z * Z)) * list Z) :=
  do (txt, r1) <- take 6 bs; do (nv, r2) <- takeI 2 r1; do _ <- guard (0 <=? nv);
  do (es, r3) <- dec_var_entries (Z.to_nat nv) r2; Some ((txt, es), r3).
Fixpoint dec_table (n : nat) (bs : list Z) : option (list (list Z * list (list Z * Z)) * list Z) :=
  match n with
  | O => Some ([], bs)
  | S n' => do (l, r) <- dec_lvl_entry bs; do (ls, r') <- dec_table n' r; Some (l :: ls, r')
  end.
Definition tbl_len (tbl : list (list Z * list (list Z * Z))) : Z :=
  sumZ (map (fun l => 8 + 8 * lenZ (snd l)) tbl).

(* one data record; the label's time stamp, level index, grid id and key are validated *)
Definition dec_rec (time grid : list Z) (li nc : Z) (e : list Z * Z) (bs : list Z)
  : option (var_t * list Z) :=
  do (t, r1) <- take 10 bs; do _ <- guard (zlist_eqb t time);
  do (l, r2) <- takeI 2 r1; do _ <- guard (l =? li);
  do (g, r3) <- take 2 r2; do _ <- guard (zlist_eqb g grid);
  do (k, r4) <- take 4 r3; do _ <- guard (zlist_eqb k (fst e));
  do (ex, r5) <- takeI 4 r4;
  do (pr, r6) <- take 14 r5; do (v1, r7) <- take 14 r6;
  do (d, r8) <- take (Z.to_nat nc) r7;
  Some (Var k (snd e) ex pr v1 d, r8).
Fixpoint dec_recs (time grid : list Z) (li nc : Z) (es : list (list Z * Z)) (bs : list Z)
  : option (list var_t * list Z) :=
  match es with
  | [] => Some ([], bs)
  | e :: t => do (v, r) <- dec_rec time grid li nc e bs;
              do (vs, r') <- dec_recs time grid li nc t r; Some (v :: vs, r')
  end.
Fixpoint dec_lvls (time grid : list Z) (li nc : Z) (tbl : list (list Z * list (list Z * Z)))
  (bs : list Z) : option (list lvl_t * list Z) :=
  match tbl with
  | [] => Some ([], bs)
  | (txt, es) :: t => do (vs, r) <- dec_recs time grid li nc es bs;
                      do (ls, r') <- dec_lvls time grid (li + 1) nc t r; Some (Lvl txt vs :: ls, r')
  end.

Definition dec_period (bs : list Z) : option (period_t * list Z) :=
  do (time, r1) <- take 10 bs; do (_, r2) <- takeI 2 r1; do (grid, r3) <- take 2 r2;
  do (ix, r4) <- take 4 r3; do _ <- guard (zlist_eqb ix indx);
  do (_, r5) <- take 32 r4;                         (* Z1, MB1, MB2: unused in an index label *)
  do (fixed, r6) <- take 93 r5;
  do (nx3, r7) <- takeI 3 r6; do (ny3, r8) <- takeI 3 r7; do (nz, r9) <- takeI 3 r8;
  do (vs2, r10) <- take 2 r9; do (lh, r11) <- takeI 4 r10;
  do _ <- guard ((0 <=? nz) && (0 <=? nx3) && (0 <=? ny3));
  let nx := nx3 + grid_thousands (nth 0 grid 0) in
  let ny := ny3 + grid_thousands (nth 1 grid 0) in
  do (tbl, r12) <- dec_table (Z.to_nat nz) r11;
  do _ <- guard ((lh =? 108 + tbl_len tbl) && (lh <=? nx * ny));
  do (pad, r13) <- take (Z.to_nat (nx * ny - lh)) r12;
  do (ls, r14) <- dec_lvls time grid 0 (nx * ny) tbl r13;
  Some (Period time grid fixed nx ny vs2 pad ls, r14).

Fixpoint dec_periods (fuel : nat) (bs : list Z) : option (list period_t) :=
  match bs with
  | [] => Some []
  | _ => match fuel with
         | O => None
         | S f => do (p, r) <- dec_period bs; do ps <- dec_periods f r; Some (p :: ps)
         end
  end.
Definition dec (bs : list Z) : option (list period_t) := dec_periods (length bs) bs.

(* recorded checksums equal the byte sum mod 255 *)
Definition cksums_ok (p : period_t) : bool :=
  forallb (fun l => forallb (fun v => v_ck v =? sumZ (v_data v) mod 255) (l_vars l)) (p_levels p).

(* ---- position of a record in the spec layout ---------------------------------------- *)
(* index (0-based, the INDX record is record 0 of its period) of variable vi at level li *)
Definition rec_index (ls : list lvl_t) (li vi : nat) : Z := 1 + nrecs (firstn li ls) + Z.of_nat vi.
Definition period_len (p : period_t) : Z := recl p * (1 + nrecs (p_levels p)).
Definition spec_offset (p : period_t) (t li vi : nat) : Z :=
  Z.of_nat t * period_len p + recl p * rec_index (p_levels p) li vi.

Definition slice (off len : Z) (bs : list Z) : list Z :=
  firstn (Z.to_nat len) (skipn (Z.to_nat off) bs).

(* same layout in every period (what a memmap over the file requires) *)
Definition same_layout (p q : period_t) : bool :=
  (p_nx p =? p_nx q) && (p_ny p =? p_ny q)
  && list_eqb (fun a b => Nat.eqb (length (l_vars a)) (length (l_vars b))) (p_levels p) (p_levels q).
(* ... and the same keys (the library names the records of every period after the first table) *)
Definition same_keys (p q : period_t) : bool :=
  list_eqb (fun a b => zll_eqb (map v_key (l_vars a)) (map v_key (l_vars b))) (p_levels p) (p_levels q).

(* ---- what the library does (arlpackedbit) ---------------------------------------------- *)
(* layout numbers used by the library; the instances with the generated (tie T) definitions
   are in Proofs/ArlFileProofs.v *)
Record libsizes := LibSizes {
  ls_thd : Z;            (* thdtype.itemsize *)
  ls_vhd : Z;            (* vhdtype.itemsize *)
  ls_off_grid : Z; ls_off_nx : Z; ls_off_ny : Z; ls_off_nz : Z; ls_off_lenh : Z;
  ls_off_exp : Z; ls_off_var1 : Z
}.
Definition std_sizes : libsizes := LibSizes 158 50 12 143 146 149 154 18 36.

Definition blank (l : list Z) : bool := forallb (fun b => (b =? 32) || (b =? 0)) l.
(* float(b'1000.0'): blanks around, digits with at most one point, at least one digit *)
Definition float_ok (t : list Z) : bool :=
  let s := lstrip (rev (lstrip (rev t))) in
  forallb (fun c => is_digit c || (c =? 46)) s
  && (1 <=? lenZ (filter is_digit s)) && (lenZ (filter (fun c => c =? 46) s) <=? 1).

(* readvardef: level entries until the rest is blank (repaired reader: vheader is exactly the table) *)
Fixpoint readvardef (fuel : nat) (vh : list Z) : option (list (list Z * list (list Z * Z))) :=
  if blank vh then Some [] else
  match fuel with
  | O => None
  | S f => do (txt, r1) <- take 6 vh; do _ <- guard (float_ok txt);
           do (nv, r2) <- takeI 2 r1;
           do (es, r3) <- dec_var_entries (Z.to_nat nv) r2;
           do rest <- readvardef f r3; Some ((txt, es) :: rest)
  end.

Fixpoint dedup (seen l : list (list Z)) : list (list Z) :=
  match l with
  | [] => []
  | k :: t => if existsb (zlist_eqb k) seen then dedup seen t else k :: dedup (k :: seen) t
  end.
Fixpoint index_of (k : list Z) (l : list (list Z)) : option nat :=
  match l with
  | [] => None
  | x :: t => if zlist_eqb k x then Some O else option_map S (index_of k t)
  end.

(* a record as the library sees it: EXP, VAR1 text, packed bytes *)
Definition librec := (Z * list Z * list Z)%type.
Record libvar := LibVar { lv_key : list Z; lv_sfc : bool; lv_recs : list (list (option librec)) }.
Record libview := LibView {
  lb_nz1 : Z; lb_nx : Z; lb_ny : Z;
  lb_sfclvl : list Z; lb_zlvls : list (list Z);
  lb_times : list (list Z);
  lb_vars : list libvar
}.

Definition read_rec (sz : libsizes) (nc : Z) (bs : list Z) (off : Z) : option librec :=
  do ex <- parseI (slice (off + ls_off_exp sz) 4 bs);
  Some (ex, slice (off + ls_off_var1 sz) 14 bs, slice (off + ls_vhd sz) nc bs).

(* record numbers (0-based among the data records of a period) of key k in the upper levels *)
Fixpoint lay_positions (k : list Z) (base : Z) (lays : list (list Z * list (list Z * Z))) : list Z :=
  match lays with
  | [] => []
  | (_, es) :: t =>
      match index_of k (map fst es) with
      | Some i => [base + Z.of_nat i] | None => []
      end ++ lay_positions k (base + lenZ es) t
  end.

Definition impl_read (sz : libsizes) (bs : list Z) : option libview :=
  do lh <- parseI (slice (ls_off_lenh sz) 4 bs);
  do nx0 <- parseI (slice (ls_off_nx sz) 3 bs);
  do ny0 <- parseI (slice (ls_off_ny sz) 3 bs);
  do nz <- parseI (slice (ls_off_nz sz) 3 bs);
  let g := slice (ls_off_grid sz) 2 bs in
  let nx := nx0 + Z.max 0 ((nth 0 g 0 - 64) * 1000) in
  let ny := ny0 + Z.max 0 ((nth 1 g 0 - 64) * 1000) in
  let tl_ := lh - 108 in                          (* the table is LENH - 108 bytes long *)
  let vh := slice (ls_thd sz) tl_ bs in
  do tbl <- readvardef (length vh) vh;
  match tbl with
  | [] => None
  | (sfctxt, sfces) :: lays =>
      let nc := nx * ny in
      let hdrlen := 50 + nc - tl_ - ls_thd sz in
      do _ <- guard ((0 <=? tl_) && (0 <=? hdrlen));
      let rl := ls_vhd sz + nc in
      let nrec := sumZ (map (fun l => lenZ (snd l)) tbl) in
      let item := ls_thd sz + tl_ + hdrlen + nrec * rl in
      do _ <- guard ((0 <? lenZ bs) && (lenZ bs mod item =? 0));
      do _ <- guard ((2 <=? nx) && (2 <=? ny));       (* lat-lon cell-edge code in __init__ uses np.diff(x)[0] *)
      let nt := Z.to_nat (lenZ bs / item) in
      let base t := Z.of_nat t * item + ls_thd sz + tl_ + hdrlen in
      let sfckeys := map fst sfces in
      let laykeys := dedup [] (concat (map (fun l => map fst (snd l)) lays)) in
      let var_of k :=
        match index_of k sfckeys with
        | Some i => LibVar k true
              (map (fun t => [read_rec sz nc bs (base t + Z.of_nat i * rl)]) (seq 0 nt))
        | None => LibVar k false
              (map (fun t => map (fun j => read_rec sz nc bs (base t + j * rl))
                                 (lay_positions k (lenZ sfces) lays)) (seq 0 nt))
        end in
      Some (LibView (nz - 1) nx ny sfctxt (map fst lays)
              (map (fun t => slice (Z.of_nat t * item) 10 bs) (seq 0 nt))
              (map var_of (sfckeys ++ laykeys)))
  end.

(* library record offset of (time t, data record j), as the memmap dtype lays it out *)
Definition lib_offset (sz : libsizes) (nc lh nrec : Z) (t : nat) (j : Z) : Z :=
  let tl_ := lh - 108 in
  let hdrlen := 50 + nc - tl_ - ls_thd sz in
  let rl := ls_vhd sz + nc in
  Z.of_nat t * (ls_thd sz + tl_ + hdrlen + nrec * rl) + ls_thd sz + tl_ + hdrlen + j * rl.

(* ---- what an ideal reader with the library's interface returns for a content ------------ *)
Definition rec_of (v : var_t) : librec := (v_exp v, v_var1 v, v_data v).
Definition find_var (k : list Z) (vs : list var_t) : option var_t :=
  find (fun v => zlist_eqb k (v_key v)) vs.
Definition spec_view (ps : list period_t) : option libview :=
  match ps with
  | [] => None
  | p0 :: _ =>
      match p_levels p0 with
      | [] => None
      | sfc :: lays =>
          let sfckeys := map v_key (l_vars sfc) in
          let laykeys := dedup [] (concat (map (fun l => map v_key (l_vars l)) lays)) in
          let sfcvar k := LibVar k true
            (map (fun p => [option_map rec_of (find_var k (l_vars (hd sfc (p_levels p))))]) ps) in
          let layvar k := LibVar k false
            (map (fun p => concat (map (fun l => match find_var k (l_vars l) with
                                                 | Some v => [Some (rec_of v)] | None => [] end)
                                       (tl (p_levels p)))) ps) in
          Some (LibView (lenZ (p_levels p0) - 1) (p_nx p0) (p_ny p0) (l_text sfc) (map l_text lays)
                  (map p_time ps)
                  (map sfcvar sfckeys ++ map layvar laykeys))
      end
  end.

(* the domain on which the library is expected to read a spec file: at least 2x2 cells (the
   lat-lon cell-edge code needs one neighbour difference per axis), level heights that float() accepts, no key shared between the surface
   level and the upper levels *)
Definition lib_grid_ok (p : period_t) : bool := (2 <=? p_nx p) && (2 <=? p_ny p).
Definition lvl_texts_ok (p : period_t) : bool :=
  forallb (fun l => float_ok (l_text l) && negb (blank (l_text l))) (p_levels p).
Definition keys_disjoint (p : period_t) : bool :=
  match p_levels p with
  | [] => true
  | sfc :: lays =>
      forallb (fun k => negb (existsb (zlist_eqb k) (map v_key (l_vars sfc))))
              (concat (map (fun l => map v_key (l_vars l)) lays))
  end.

(* ---- times: YYMMDDHH as the reader decodes them ------------------------------------------ *)
(* ' 1' -> 1, '01' -> 1 (the library replaces blanks by '0' before strptime) *)
Definition two_digits (a b : Z) : Z :=
  let d c := if c =? 32 then 0 else if is_digit c then c - 48 else -100 in 10 * d a + d b.
Definition time_fields (t : list Z) : list Z :=
  match t with
  | a :: b :: c :: d :: e :: f :: g :: h :: _ => [two_digits a b; two_digits c d; two_digits e f; two_digits g h]
  | _ => []
  end.

(* ---- values: rows of a record, unpacked ------------------------------------------------ *)
Fixpoint chunks (fuel : nat) (n : nat) (l : list Z) : list (list Z) :=
  match fuel with
  | O => []
  | S f => match l with [] => [] | _ => firstn n l :: chunks f n (skipn n l) end
  end.
Definition rows_of (nx : Z) (data : list Z) : list (list Z) :=
  chunks (length data) (Z.to_nat nx) data.

(* ---- the writer (writearlpackedbit) --------------------------------------------------------
   Input: an in-memory file = per period a time stamp and per level the height text and the
   fields (key, rows in the unit, and what pack2d derives from the rows: half quantum h, NEXP,
   PREC and VAR1 texts).  The writer after fixes/C20-arl-writer-layout.patch packs every field
   (Model/Arl.v pack_bytes / ksum) and lays the records out as `enc` does, blank padding.
   (Before that repair maparlpackedbit(mode='write') unpacked every 4-byte layer key as a
   (level, keys) pair and raised for every input; `writer_repaired` says which of the two the
   model describes: the repaired one since /repo 6a4afc6.)
   An in-memory file has one dictionary of variables: the same keys and shapes in every period,
   no key both 3-D (surface) and 4-D (layer); pack2d chooses the exponent by nexp_rule_fixed. *)
Record wfield := WField {
  wf_key : list Z; wf_h : Z; wf_exp : Z; wf_prec : list Z; wf_var1 : list Z; wf_rows : list (list Z) }.
Record wperiod := WPeriod { wp_time : list Z; wp_levels : list (list Z * list wfield) }.
Record winput := WInput {
  wi_grid : list Z; wi_fixed : list Z; wi_nx : Z; wi_ny : Z; wi_vsys2 : list Z; wi_periods : list wperiod }.

Definition write_var (f : wfield) : var_t :=
  Var (wf_key f) (ksum (pack_bytes (wf_h f) (wf_rows f))) (wf_exp f) (wf_prec f) (wf_var1 f)
      (concat (pack_bytes (wf_h f) (wf_rows f))).
Definition write_levels (p : wperiod) : list lvl_t :=
  map (fun l => Lvl (fst l) (map write_var (snd l))) (wp_levels p).
Definition write_period (w : winput) (p : wperiod) : period_t :=
  Period (wp_time p) (wi_grid w) (wi_fixed w) (wi_nx w) (wi_ny w) (wi_vsys2 w)
    (repeat 32 (Z.to_nat (wi_nx w * wi_ny w - 108 - table_len (write_levels p)))) (write_levels p).
Definition write_content (w : winput) : list period_t := map (write_period w) (wi_periods w).
Definition impl_write_fixed (w : winput) : list Z := enc (write_content w).

Definition writer_repaired : bool := true.
Definition impl_write (w : winput) : option (list Z) :=
  if writer_repaired then Some (impl_write_fixed w) else None.

Definition wf_wfield (nx ny : Z) (f : wfield) : bool :=
  len_is 4 (wf_key f) && (0 <? wf_h f) && (-999 <=? wf_exp f) && (wf_exp f <=? 9999)
  && len_is 14 (wf_prec f) && len_is 14 (wf_var1 f)
  && rect (wf_rows f) && (lenZ (wf_rows f) =? ny) && forallb (fun r => lenZ r =? nx) (wf_rows f)
  (* h is the half quantum of the exponent pack2d chooses: 256 h = 2^NEXP in the unit *)
  && ((rmax (wf_rows f) =? 0) || ((0 <? rmax (wf_rows f)) && (256 * wf_h f =? 2 ^ nexp_rule_fixed (rmax (wf_rows f))))).
Definition wf_wperiod (nx ny : Z) (p : wperiod) : bool :=
  len_is 10 (wp_time p) && (lenZ (wp_levels p) <=? 99)
  && (108 + table_len (write_levels p) <=? 9999) && (108 + table_len (write_levels p) <=? nx * ny)
  && forallb (fun l => len_is 6 (fst l) && (lenZ (snd l) <=? 99) && forallb (wf_wfield nx ny) (snd l))
             (wp_levels p).
Definition wf_winput (w : winput) : bool :=
  len_is 2 (wi_grid w) && len_is 93 (wi_fixed w) && len_is 2 (wi_vsys2 w)
  && (0 <=? wi_nx w) && (wi_nx w <=? 26999) && (0 <=? wi_ny w) && (wi_ny w <=? 26999)
  (* the writer writes NX, NY modulo 1000 ('%3d' % (n % 1000), /repo 8d118b4) and copies the grid id
     of the input file, which must carry the thousands letters of its own sizes *)
  && (grid_thousands (nth 0 (wi_grid w) 0) =? 1000 * (wi_nx w / 1000))
  && (grid_thousands (nth 1 (wi_grid w) 0) =? 1000 * (wi_ny w / 1000))
  && forallb (wf_wperiod (wi_nx w) (wi_ny w)) (wi_periods w).
