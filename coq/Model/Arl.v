(* C20 — ARL packed-bit differential encoding (noaafiles/_arl.py pack2d / unpack).
   Exact model over Z.  All field values are integers in a unit u chosen by the caller;
   h > 0 is HALF the quantisation step in that unit (q = 2^(NEXP-7) = 2*h*u).
   The library computes in binary32; on inputs where every intermediate is representable
   (the correspondence generator's "exact" stream) the two coincide, which is what the
   correspondence check establishes.  No proofs in this file. *)
From PNC Require Import Base.Util.
Local Open Scope Z_scope.

(* ICVAL = INT((x - rold) * SCEXP + 127.5); INT truncates toward zero (Z.quot). *)
Definition raw_code (h x rold : Z) : Z := Z.quot (x - rold + 255 * h) (2 * h).
(* what lands in the uint8 array: numpy's int32 -> uint8 store wraps modulo 256 *)
Definition stored (c : Z) : Z := c mod 256.
(* ROLD = FLOAT(ICVAL - 127) / SCEXP + ROLD : the encoder uses the UNWRAPPED code *)
Definition recon (h c rold : Z) : Z := (c - 127) * (2 * h) + rold.

(* pack one scan line starting from running value rold: (raw code, running value) *)
Fixpoint pack_line (h rold : Z) (xs : list Z) : list (Z * Z) :=
  match xs with
  | [] => []
  | x :: t => let c := raw_code h x rold in
              let r := recon h c rold in (c, r) :: pack_line h r t
  end.

Definition hdZ (l : list Z) : Z := match l with x :: _ => x | [] => 0 end.
Definition first_row (rows : list (list Z)) : list Z :=
  match rows with r :: _ => r | [] => [] end.

(* The field is a list of rows (RVAR[j, :]).  First the first column is packed top to
   bottom starting from VAR1 = x[0][0]; then every row left to right starting from the
   running value of its first-column element.  Result: per cell (raw code, encoder's
   running reconstruction). *)
Definition pack_rows (h : Z) (rows : list (list Z)) : list (list (Z * Z)) :=
  let var1 := hdZ (first_row rows) in
  let col0 := pack_line h var1 (map hdZ rows) in
  map (fun p => fst p :: pack_line h (snd (fst p)) (tl (snd p))) (combine col0 rows).

Definition raw_codes (h : Z) (rows : list (list Z)) : list (list Z) :=
  map (map fst) (pack_rows h rows).
Definition enc_recon (h : Z) (rows : list (list Z)) : list (list Z) :=
  map (map snd) (pack_rows h rows).
(* bytes written to the record *)
Definition pack_bytes (h : Z) (rows : list (list Z)) : list (list Z) :=
  map (map stored) (raw_codes h rows).
(* KSUM = INT(CVAR.sum()) % 255 *)
Definition ksum (bytes : list (list Z)) : Z := sumZ (map sumZ bytes) mod 255.

(* unpack: data = (byte - 127) * q ; data[0,0] += VAR1 ; cumsum down column 0 ;
   cumsum along every row *)
Fixpoint cumsum (acc : Z) (ds : list Z) : list Z :=
  match ds with [] => [] | d :: t => (acc + d) :: cumsum (acc + d) t end.

Definition delta (h b : Z) : Z := (b - 127) * (2 * h).

Definition unpack_rows (h var1 : Z) (bytes : list (list Z)) : list (list Z) :=
  let col0 := cumsum var1 (map (fun r => delta h (hdZ r)) bytes) in
  map (fun p => fst p :: cumsum (fst p) (map (delta h) (tl (snd p)))) (combine col0 bytes).

(* the whole round trip as the library performs it *)
Definition roundtrip (h : Z) (rows : list (list Z)) : list (list Z) :=
  unpack_rows h (hdZ (first_row rows)) (pack_bytes h rows).

(* ---- specification side ------------------------------------------------------- *)

(* scan-order neighbour differences of the ORIGINAL field (what RMAX is the max of):
   along every row, and down the first column *)
Fixpoint diffs (prev : Z) (xs : list Z) : list Z :=
  match xs with [] => [] | x :: t => (x - prev) :: diffs x t end.

Definition field_diffs (rows : list (list Z)) : list Z :=
  diffs (hdZ (first_row rows)) (map hdZ rows)
  ++ concat (map (fun r => diffs (hdZ r) (tl r)) rows).

Definition maxabs (l : list Z) : Z := fold_right (fun d m => Z.max (Z.abs d) m) 0 l.
Definition rmax (rows : list (list Z)) : Z := maxabs (field_diffs rows).

(* rectangular with >= 1 row and >= 2 columns (the stated domain) *)
Definition rect (rows : list (list Z)) : bool :=
  match rows with
  | [] => false
  | r :: t => (2 <=? Z.of_nat (length r)) && forallb (fun r' => Nat.eqb (length r') (length r)) t
  end.

(* pointwise |a - b| <= bound on nested lists of equal shape *)
Fixpoint within1 (bound : Z) (a b : list Z) : bool :=
  match a, b with
  | [], [] => true
  | x :: a', y :: b' => (Z.abs (x - y) <=? bound) && within1 bound a' b'
  | _, _ => false
  end.
Fixpoint within (bound : Z) (a b : list (list Z)) : bool :=
  match a, b with
  | [], [] => true
  | x :: a', y :: b' => within1 bound x y && within bound a' b'
  | _, _ => false
  end.
Definition bytes_ok (cs : list (list Z)) : bool :=
  forallb (forallb (fun c => (0 <=? c) && (c <=? 255))) cs.

(* The property, as a boolean on one field, given half-quantum h:
   every element within one quantum, first element exact, no wrap-around, checksum. *)
Definition spec_ok (h : Z) (rows : list (list Z)) : bool :=
  within (2 * h) rows (roundtrip h rows)
  && (hdZ (first_row (roundtrip h rows)) =? hdZ (first_row rows))
  && bytes_ok (raw_codes h rows).

(* NEXP = floor(log2 RMAX) + 1 ; q = 2^(NEXP-7).  In unit u = 2^ue the half quantum is
   2^(NEXP - 8 - ue); callers pick ue <= NEXP - 8.  log2 on Z: *)
Definition nexp_of (rmax_num : Z) (ue : Z) : Z := Z.log2 rmax_num + ue + 1.

(* Exponent rule of the packer with the range repair (fixes/C20-arl-pack2d-exponent-range.patch):
   NEXP = floor(log2 RMAX) + 1, one more when RMAX still exceeds 127 quanta 2^(NEXP-7).
   Relative to the unit: q = 2^(e-7), so RMAX > 127 q  <->  127 * 2^e < 128 * RMAX. *)
Definition nexp_rule_fixed (r : Z) : Z :=
  let e := Z.log2 r + 1 in if 127 * 2 ^ e <? 128 * r then e + 1 else e.
