(* C06 — PseudoNetCDFFile.eval (core/_files.py): "an eval assignment creates variables equal to
   evaluating the expression on the file's arrays".  Executable model only.
   Expressions: names, numeric constants, unary minus, + - * / (what the correspondence
   generates for the Coq stream); arrays are row-major cell lists of one common length.
   Array arithmetic follows numpy / numpy.ma: an operation with a masked-typed operand is a
   numpy.ma operation (result masked-typed, mask = union of the operand masks, and for / also
   a zero divisor or a non-finite quotient); between plain arrays it is IEEE arithmetic
   (x/0 = +-inf, 0/0 = nan; eval does NOT mask non-finite values).  No proofs in this file. *)
From PNC Require Import Base.Util Model.Arith.
Require Import QArith.
Local Open Scope Q_scope.

(* ---- IEEE-style arithmetic on rv (finite part exact) --------------------------------- *)
Definition qsgn (q : Q) : Z := Z.sgn (Qnum q).
Definition rv_neg (x : rv) : rv :=
  match x with Fin q => Fin (Qred (- q)) | PInf => NInf | NInf => PInf | NaN => NaN end.
Definition rv_add (x y : rv) : rv :=
  match x, y with
  | NaN, _ | _, NaN => NaN
  | Fin a, Fin b => Fin (Qred (a + b))
  | PInf, NInf | NInf, PInf => NaN
  | PInf, _ | _, PInf => PInf
  | NInf, _ | _, NInf => NInf
  end.
Definition inf_of_sign (s : Z) : rv := if (s =? 0)%Z then NaN else if (0 <? s)%Z then PInf else NInf.
Definition rv_sgn (x : rv) : Z := match x with Fin q => qsgn q | PInf => 1%Z | NInf => (-1)%Z | NaN => 0%Z end.
Definition rv_mul (x y : rv) : rv :=
  match x, y with
  | NaN, _ | _, NaN => NaN
  | Fin a, Fin b => Fin (Qred (a * b))
  | _, _ => inf_of_sign (rv_sgn x * rv_sgn y)       (* inf * 0 = nan *)
  end.
Definition rv_div (x y : rv) : rv :=
  match x, y with
  | NaN, _ | _, NaN => NaN
  | Fin a, Fin b => if Qeq_bool b 0 then inf_of_sign (qsgn a) else Fin (Qred (a / b))
  | Fin _, _ => Fin 0                                 (* finite / inf = 0 *)
  | _, Fin b => inf_of_sign (rv_sgn x * (if Qeq_bool b 0 then 1 else qsgn b))
  | _, _ => NaN                                       (* inf / inf *)
  end.
Definition rv_is_zero (x : rv) : bool := match x with Fin q => Qeq_bool q 0 | _ => false end.

Inductive bop := OAdd | OSub | OMul | ODiv.
Definition rv_bin (o : bop) (x y : rv) : rv :=
  match o with OAdd => rv_add x y | OSub => rv_add x (rv_neg y) | OMul => rv_mul x y | ODiv => rv_div x y end.

(* ---- arrays and scalars ---------------------------------------------------------- *)
(* what kind of array a value is: a plain PseudoNetCDFVariable (or ndarray), a masked-typed
   PseudoNetCDFMaskedVariable, or a bare numpy.ma.MaskedArray (the result of an np.ma.* call) *)
Inductive kind := KPlain | KPncMa | KNpMa.
Definition is_ma (k : kind) : bool := match k with KPlain => false | _ => true end.
Record earr := EA { e_kind : kind; e_cells : list mcell }.     (* mcell = (raw, masked) from Arith *)
Definition e_ma (a : earr) : bool := is_ma (e_kind a).

(* Kind of `p op q` and whether the masks are DROPPED.  numpy picks the result class by
   __array_priority__: PseudoNetCDFMaskedVariable (1e9) > PseudoNetCDFVariable (1e7) > MaskedArray (15).
   quirk = true is what the library's variables do: a plain PseudoNetCDFVariable on the LEFT of a bare
   numpy masked array keeps the operation to itself and returns a plain variable, computed on the raw
   data, without mask.  quirk = false is masked-array semantics (the property). *)
Definition res_kind (quirk : bool) (kp kq : kind) : kind * bool :=
  match kp, kq with
  | KPncMa, _ | _, KPncMa => (KPncMa, false)
  | KNpMa, _ => (KNpMa, false)
  | KPlain, KNpMa => if quirk then (KPlain, true) else (KNpMa, false)
  | KPlain, KPlain => (KPlain, false)
  end.
Definition clear_masks (l : list mcell) : list mcell := map (fun c => MC (raw c) false) l.
Inductive eval_v := VS (x : rv) | VA (a : earr).

(* one cell of a binary operation; is_ma = the result is a numpy.ma array *)
Definition cell_bin (o : bop) (is_ma : bool) (c d : mcell) : mcell :=
  let v := rv_bin o (raw c) (raw d) in
  let dom := match o with ODiv => rv_is_zero (raw d) || nonfin v | _ => false end in
  let m := msk c || msk d || (is_ma && dom) in
  (* numpy.ma leaves the LEFT operand's data under a masked result cell (np.copyto(result, da, where=m));
     only observable where a later operation drops the mask (res_kind quirk) *)
  MC (if is_ma && m then raw c else v) m.

Fixpoint map2 {A B C} (f : A -> B -> C) (l : list A) (l' : list B) : list C :=
  match l, l' with x :: t, y :: t' => f x y :: map2 f t t' | _, _ => [] end.

Definition scal (x : rv) : mcell := MC x false.

(* None = the Python statement raises (unknown name, mismatching lengths) *)
Definition val_bin (quirk : bool) (o : bop) (a b : eval_v) : option eval_v :=
  match a, b with
  | VS x, VS y => Some (VS (rv_bin o x y))
  | VA p, VS y => Some (VA (EA (e_kind p) (map (fun c => cell_bin o (e_ma p) c (scal y)) (e_cells p))))
  | VS x, VA q => Some (VA (EA (e_kind q) (map (fun d => cell_bin o (e_ma q) (scal x) d) (e_cells q))))
  | VA p, VA q =>
      if (length (e_cells p) =? length (e_cells q))%nat
      then let (k, drop) := res_kind quirk (e_kind p) (e_kind q) in
           let ps := if drop then clear_masks (e_cells p) else e_cells p in
           let qs := if drop then clear_masks (e_cells q) else e_cells q in
           Some (VA (EA k (map2 (cell_bin o (is_ma k)) ps qs)))
      else None
  end.
Definition val_neg (a : eval_v) : eval_v :=
  match a with
  | VS x => VS (rv_neg x)
  | VA p => VA (EA (e_kind p) (map (fun c => MC (rv_neg (raw c)) (msk c)) (e_cells p)))   (* ndarray.__neg__: data negated everywhere *)
  end.

Inductive expr := EVar (n : nat) | EConst (q : Q) | ENeg (a : expr) | EBin (o : bop) (a b : expr)
                | EMaskCmp (less : bool) (a : expr) (q : Q).   (* np.ma.masked_less(a, q) / np.ma.masked_greater(a, q) *)

(* numpy.ma.masked_less / masked_greater of an array: a numpy.ma array, masked where it was or where
   the comparison holds on the data (nan compares false) *)
Definition val_maskcmp (less : bool) (q : Q) (a : eval_v) : option eval_v :=
  match a with
  | VA p => Some (VA (EA (match e_kind p with KPncMa => KPncMa | _ => KNpMa end)
                         (map (fun c => MC (raw c) (msk c || (if less then rv_lt (raw c) q else rv_gt (raw c) q))) (e_cells p))))
  | VS _ => None       (* 0-d results are not generated *)
  end.

Definition env := list (nat * eval_v).
Fixpoint elookup {B} (k : nat) (l : list (nat * B)) : option B :=
  match l with [] => None | (k', v) :: t => if (k' =? k)%nat then Some v else elookup k t end.

Fixpoint eval_expr (quirk : bool) (en : env) (e : expr) : option eval_v :=
  match e with
  | EVar n => elookup n en
  | EConst q => Some (VS (Fin q))
  | ENeg a => option_map val_neg (eval_expr quirk en a)
  | EMaskCmp l a q => match eval_expr quirk en a with Some x => val_maskcmp l q x | None => None end
  | EBin o a b =>
      match eval_expr quirk en a, eval_expr quirk en b with
      | Some x, Some y => val_bin quirk o x y
      | _, _ => None
      end
  end.

(* exec of `k1 = e1; k2 = e2; ...` : later statements see earlier assignments *)
Definition stmt := (nat * expr)%type.
Fixpoint exec (quirk : bool) (en : env) (ss : list stmt) : option env :=
  match ss with
  | [] => Some en
  | (k, e) :: t => match eval_expr quirk en e with
                   | Some v => exec quirk ((k, v) :: en) t
                   | None => None
                   end
  end.

(* ---- the file-level operation ------------------------------------------------------ *)
Fixpoint vars_of (e : expr) : list nat :=
  match e with
  | EVar n => [n] | EConst _ => [] | ENeg a => vars_of a | EBin _ a b => vars_of a ++ vars_of b
  | EMaskCmp _ a _ => vars_of a
  end.
Fixpoint dedup (l : list nat) : list nat :=
  match l with [] => [] | x :: t => x :: filter (fun y => negb (y =? x)%nat) (dedup t) end.
(* symtable order: per statement the target first, then the names of the right-hand side *)
Definition symbols (ss : list stmt) : list nat := dedup (flat_map (fun s => fst s :: vars_of (snd s)) ss).
Definition is_target (ss : list stmt) (k : nat) : bool := existsb (fun s => (fst s =? k)%nat) ss.
Definition assigned (ss : list stmt) : list nat := filter (is_target ss) (symbols ss).

Record efile := EF { ef_vars : list (nat * earr); ef_coords : list nat }.
Definition file_env (f : efile) : env := map (fun p => (fst p, VA (snd p))) (ef_vars f).

Definition remove_key {B} (k : nat) (l : list (nat * B)) : list (nat * B) :=
  filter (fun p => negb (fst p =? k)%nat) l.

Inductive eres := EOk (vars : list (nat * earr)) | ERaise.

(* the template variable: first symbol that is a variable of the file (before the exec) *)
Definition template (f : efile) (ss : list stmt) : option nat :=
  find (fun k => match elookup k (ef_vars f) with Some _ => true | None => false end) (symbols ss).

(* variables of the output file before the assigned ones are stored *)
Definition base_vars (f : efile) (copyall : bool) (tkey : nat) : option (list (nat * earr)) :=
  if copyall then Some (ef_vars f)
  else (* subsetVariables([key]) then del key: the coordinate variables (they must exist) *)
    let cs := filter (fun c => negb (c =? tkey)%nat) (ef_coords f) in
    fold_right (fun c acc => match elookup c (ef_vars f), acc with
                             | Some a, Some r => Some ((c, a) :: r)
                             | _, _ => None end) (Some []) cs.

(* for key in assignedkeys: del outf.variables[key]; outf.variables[key] = vardict[key] *)
Fixpoint store (en : env) (keys : list nat) (out : list (nat * earr)) : option (list (nat * earr)) :=
  match keys with
  | [] => Some out
  | k :: t => match elookup k en with
              | Some (VA a) => store en t (remove_key k out ++ [(k, a)])
              | _ => None        (* a scalar has no dtype: createVariable raises *)
              end
  end.

Definition impl_eval (f : efile) (copyall : bool) (ss : list stmt) : eres :=
  match template f ss with
  | None => ERaise                                    (* subsetVariables(['N/A']) : KeyError *)
  | Some tkey =>
      match base_vars f copyall tkey, exec true (file_env f) ss with
      | Some base, Some en =>
          match store en (assigned ss) base with Some r => EOk r | None => ERaise end
      | _, _ => ERaise
      end
  end.

(* ---- specification (boolean, on an observed result) --------------------------------- *)
Definition rv_close (a b : rv) : bool :=
  match a, b with
  | Fin x, Fin y => Qeq_bool x y || Qle_bool (Qabs.Qabs (x - y) * inject_Z (2 ^ 40)) (Qabs.Qabs y)
                    || Qle_bool (Qabs.Qabs (x - y) * inject_Z (2 ^ 30)) 1
  | PInf, PInf | NInf, NInf | NaN, NaN => true
  | _, _ => false
  end.
Definition ocell_close (a b : ocell) : bool :=
  match a, b with None, None => true | Some x, Some y => rv_close x y | _, _ => false end.
Definition arr_matches (a : earr) (o : list ocell) : bool := list_eqb ocell_close (map visible (e_cells a)) o.

(* every assigned name holds the value the statements give it; every other variable of the
   result is a variable of the file with identical cells; with copyall every variable of the
   file is in the result *)
Definition spec_eval_ok (f : efile) (copyall : bool) (ss : list stmt) (out : list (nat * list ocell)) : bool :=
  match exec false (file_env f) ss with
  | None => false
  | Some en =>
      forallb (fun k => match elookup k en, elookup k out with
                        | Some (VA a), Some o => arr_matches a o
                        | _, _ => false end) (assigned ss)
      && forallb (fun p => is_target ss (fst p)
                           || match elookup (fst p) (ef_vars f) with
                              | Some a => arr_matches a (snd p)
                              | None => false end) out
      && (negb copyall
          || forallb (fun p => is_target ss (fst p)
                               || match elookup (fst p) out with Some _ => true | None => false end) (ef_vars f))
  end.

(* known-defect region: the library's evaluation (quirk) and masked-array semantics give different
   observable values for an assigned name *)
Definition eval_quirk_region (f : efile) (ss : list stmt) : bool :=
  match exec true (file_env f) ss, exec false (file_env f) ss with
  | Some e1, Some e2 =>
      negb (forallb (fun k => match elookup k e1, elookup k e2 with
                              | Some (VA a), Some (VA b) => arr_matches a (map visible (e_cells b))
                              | _, _ => true end) (assigned ss))
  | _, _ => false
  end.

Fixpoint no_maskcall (e : expr) : bool :=
  match e with
  | EVar _ | EConst _ => true | ENeg a => no_maskcall a | EBin _ a b => no_maskcall a && no_maskcall b
  | EMaskCmp _ _ _ => false
  end.
