(* C16 — PseudoNetCDFFile.val2idx (core/_files.py): value -> index lookup, as REPAIRED by
   fixes/C16-val2idx-{no-inplace-edges,descending,top-edge,scalar-exact}.patch.
   Exact model over Z: every coordinate value, edge and query is an integer in a common
   unit chosen by the caller (the harness uses dyadic numbers so that the library's binary64
   arithmetic is exact where it matters).  Fractional indices are exact fractions num/den.
   The path "no bounds variable + method='bounds'" halves differences; the model works in
   HALF units there (everything multiplied by 2), see [derive_edges].  No proofs here. *)
From PNC Require Import Base.Util Gen.Val2idxSrc.
Local Open Scope Z_scope.

Inductive method := MNearest | MBounds | MExact | MOther.
Inductive bmode := BIgnore | BWarn | BError | BOther.      (* bounds= *)
Inductive cmode := CNone | CMask | COther.                 (* clean= *)
(* the three bounds representations: none, 1-D edges (n+1), n x 2 rows *)
Inductive bvar := NoBounds | Edges (es : list Z) | Rows (rs : list (Z * Z)).
Inductive fval := FNum (num den : Z) | FNan.               (* den > 0 *)
Inductive cell := Idx (i : Z) | Masked.
Inductive err := ENotImpl | ENotMono | EOutOfBounds | EIndex.
(* result: per query value a cell; whether the out-of-bounds warning was issued; the
   coordinate variable's values after the call (in the model's unit, see [scale_of]) *)
Inductive outcome := Raised (e : err) | Done (r : list cell) (warned : bool) (coord : list Z).

Record cfg := Cfg {
  c_m : method; c_b : bmode; c_c : cmode;
  c_lnan : bool;     (* left=np.nan  (false: left=None)  *)
  c_rnan : bool;     (* right=np.nan (false: right=None) *)
  c_cs : list Z;     (* coordinate values (centres) *)
  c_bv : bvar }.

(* ---- list helpers ---------------------------------------------------------------- *)
Fixpoint zseq (k : Z) (n : nat) : list Z :=
  match n with O => [] | S n' => k :: zseq (k + 1) n' end.
Fixpoint diffs (l : list Z) : list Z :=
  match l with a :: ((b :: _) as t) => (b - a) :: diffs t | _ => [] end.
Definition all_pos (l : list Z) : bool := forallb (fun d => 0 <? d) l.
Definition all_neg (l : list Z) : bool := forallb (fun d => d <? 0) l.
Definition asc (l : list Z) : bool := all_pos (diffs l).
Definition desc (l : list Z) : bool := all_neg (diffs l).
Fixpoint sub2 (a b : list Z) : list Z :=
  match a, b with x :: a', y :: b' => (x - y) :: sub2 a' b' | _, _ => [] end.
Definition memZ (x : Z) (l : list Z) : bool := existsb (Z.eqb x) l.
Definition nthZ (l : list Z) (i : Z) : Z := nth (Z.to_nat i) l 0.
Definition lenZ {A} (l : list A) : Z := Z.of_nat (length l).

(* ---- numpy.interp (compiled arr_interp), exact ----------------------------------- *)
(* bracket search + the linear formula slope*(x - xp[j]) + fp[j]; reached only with
   xp[0] <= x <= xp[-1].  For ascending xp numpy's guessed binary search returns the
   unique j with xp[j] <= x < xp[j+1] (or the last index), which is what this scan finds. *)
Fixpoint seg (x : Z) (xp fp : list Z) : fval :=
  match xp, fp with
  | x0 :: ((x1 :: _) as xt), y0 :: ((y1 :: _) as yt) =>
      if x <? x1 then FNum (y0 * (x1 - x0) + (y1 - y0) * (x - x0)) (x1 - x0)
      else seg x xt yt
  | _ :: nil, y0 :: _ => FNum y0 1
  | _, _ => FNan
  end.

(* numpy tests x > xp[-1] first, then x < xp[0]; left/right None = end values of fp *)
Definition interp1 (lnan rnan : bool) (xp fp : list Z) (x : Z) : fval :=
  if last xp 0 <? x then (if rnan then FNan else FNum (last fp 0) 1)
  else if x <? hd 0 xp then (if lnan then FNan else FNum (hd 0 fp) 1)
  else seg x xp fp.

(* np.minimum(fidx, b) (propagates nan) *)
Definition fmin (b : Z) (f : fval) : fval :=
  match f with FNum n d => if b * d <? n then FNum b 1 else f | FNan => FNan end.
(* np.round(., 0): round half to even *)
Definition rint (n d : Z) : Z :=
  let q := n / d in let r := n mod d in
  if 2 * r <? d then q else if d <? 2 * r then q + 1 else if Z.even q then q else q + 1.
(* float nan -> int32 cast on x86-64 *)
Definition INT_MIN : Z := -2147483648.

(* ---- edges when there is no bounds variable and method='bounds' (HALF units) ------ *)
Definition uniform (d : list Z) : bool :=
  match d with [] => true | d0 :: _ => forallb (Z.eqb d0) d end.
(* dval = diff/2; start/end are COPIES (astype('d')) extended by half a spacing when the
   spacing is uniform; dimevals = [start, dimvals[1:] - dval, end].  The coordinate variable is
   not touched.  Returns (dimvals, dimevals), both in half units. *)
Definition derive_edges (cs : list Z) : err + (list Z * list Z) :=
  let c2 := map (Z.mul 2) cs in
  let d := diffs cs in                       (* dval, in half units *)
  match d with
  | [] => inl EIndex                         (* dval[0] on an empty array *)
  | _ =>
    let mids := sub2 (tl c2) d in
    if uniform d then inr (c2, [hd 0 c2 - hd 0 d] ++ mids ++ [last c2 0 + last d 0])
    else inr (c2, [hd 0 c2] ++ mids ++ [last c2 0])
  end.

Definition edges_of_bvar (bv : bvar) : option (list Z) :=
  match bv with
  | NoBounds => None
  | Edges es => Some es
  | Rows rs => Some (map fst rs ++ [snd (last rs (0, 0))])   (* append(b[:,0], b[-1,1]) *)
  end.

(* (scale, dimvals, dimevals) *)
Definition prep (c : cfg) : err + (Z * list Z * list Z) :=
  match edges_of_bvar (c_bv c) with
  | Some es => inr (1, c_cs c, es)
  | None =>
      match c_m c with
      | MBounds => match derive_edges (c_cs c) with
                   | inl e => inl e | inr (dv, de) => inr (2, dv, de) end
      | _ => inr (1, c_cs c, c_cs c)
      end
  end.

Definition scale_of (c : cfg) : Z :=
  match c_bv c, c_m c with NoBounds, MBounds => 2 | _, _ => 1 end.

Definition bad_opts (c : cfg) : bool :=
  match c_m c with MOther => true | _ =>
  match c_b c with BOther => true | _ =>
  match c_c c with COther => true | _ => false end end end.

Definition is_mask (cm : cmode) := match cm with CMask => true | _ => false end.
Definition is_none (cm : cmode) := match cm with CNone => true | _ => false end.
Definition is_bounds (m : method) : bool := match m with MBounds => true | _ => false end.
Definition is_exact (m : method) : bool := match m with MExact => true | _ => false end.

Definition to_cell (m : method) (cm : cmode) (isin : bool) (f : fval) : cell :=
  if is_exact m && negb isin then Masked else
  match f with
  | FNan => match cm with CMask => Masked | _ => Idx INT_MIN end
  | FNum n d => Idx (match m with MNearest => rint n d | _ => Z.quot n d end)
  end.

Definition is_out (de : list Z) (x : Z) : bool := (x <? hd 0 de) || (last de 0 <? x).

(* fractional index of one (scaled) query value.  Descending coordinate: dimevals, dimvals and
   idx are all reversed, so np.interp sees ascending xp and the index vector n-1 .. 0.
   On the bounds path the index vector is clamped to dimvals.size - 1 BEFORE interpolating
   (the last edge closes the last cell; fills given by the caller are left alone). *)
Definition fidx_one (m : method) (lnan rnan dsc : bool) (dv de : list Z) (x : Z) : fval :=
  let xp0 := if is_bounds m then de else dv in
  let xp := if dsc then rev xp0 else xp0 in
  let idx0 := zseq 0 (length xp0) in
  let idx1 := if is_bounds m then map (Z.min (lenZ dv - 1)) idx0 else idx0 in
  let idx := if dsc then rev idx1 else idx1 in
  interp1 lnan rnan xp idx x.

Definition cell_one (m : method) (cm : cmode) (lnan rnan dsc : bool) (dv de : list Z) (x : Z) : cell :=
  to_cell m cm (memZ x dv) (fidx_one m lnan rnan dsc dv de x).

(* Variant of the bounds path with fixes/C16-val2idx-bounds-exact-cell.patch: inside the domain
   the cell is located by comparing with the edges,
     j = clip(searchsorted(dimevals, val, side='right'), 1, size - 1); min(cidx[j-1], cidx[j]),
   the interpolated value only supplies the fills outside.  brk = j - 1. *)
Fixpoint brk (x : Z) (xp : list Z) (k : Z) : Z :=
  match xp with
  | _ :: ((x1 :: (_ :: _)) as t) => if x <? x1 then k else brk x t (k + 1)
  | _ => k
  end.
Definition fidx_srch (m : method) (lnan rnan dsc : bool) (dv de : list Z) (x : Z) : fval :=
  let xp := if dsc then rev de else de in
  let idx1 := map (Z.min (lenZ dv - 1)) (zseq 0 (length de)) in
  let idx := if dsc then rev idx1 else idx1 in
  if is_bounds m && ((hd 0 xp <=? x) && (x <=? last xp 0))
  then let i := brk x xp 0 in FNum (Z.min (nthZ idx i) (nthZ idx (i + 1))) 1
  else fidx_one m lnan rnan dsc dv de x.
(* bs = which of the two the source does (Gen.Val2idxSrc.bounds_by_search, regenerated from the
   source on every run) *)
Definition cell_gen (bs : bool) (m : method) (cm : cmode) (lnan rnan dsc : bool) (dv de : list Z) (x : Z) : cell :=
  to_cell m cm (memZ x dv) (if bs then fidx_srch m lnan rnan dsc dv de x else fidx_one m lnan rnan dsc dv de x).

Definition impl_val2idx_gen (bs : bool) (c : cfg) (xs : list Z) : outcome :=
  if bad_opts c then Raised ENotImpl else
  match prep c with
  | inl e => Raised e
  | inr (s, dv, de) =>
      let d := diffs de in
      let run (dsc : bool) :=
        let xs' := map (Z.mul s) xs in
        let cells := map (cell_gen bs (c_m c) (c_c c) (c_lnan c) (c_rnan c) dsc dv de) xs' in
        (* isleft / isright use the (reversed, hence ascending) dimevals *)
        let out := existsb (is_out (if dsc then rev de else de)) xs' in
        match c_b c with
        | BError => if out then Raised EOutOfBounds else Done cells false dv
        | BWarn => Done cells out dv
        | _ => Done cells false dv
        end in
      if all_neg d then run true else if all_pos d then run false else Raised ENotMono
  end.
Definition impl_val2idx := impl_val2idx_gen bounds_by_search.

(* ---- specification side ------------------------------------------------------------ *)
Definition valid_idx (n : nat) (i : Z) : bool := (0 <=? i) && (i <? Z.of_nat n).
Definition absd (x c : Z) : Z := Z.abs (x - c).
(* i is a valid index and no coordinate value is closer to x than cs[i] *)
Definition nearest_ok (cs : list Z) (x i : Z) : bool :=
  valid_idx (length cs) i && forallb (fun c => absd x (nthZ cs i) <=? absd x c) cs.
(* cell i (closed interval, either orientation) contains x *)
Definition cell_lo (p : Z * Z) := Z.min (fst p) (snd p).
Definition cell_hi (p : Z * Z) := Z.max (fst p) (snd p).
Definition contains (cells : list (Z * Z)) (x i : Z) : bool :=
  valid_idx (length cells) i &&
  let p := nth (Z.to_nat i) cells (0, 0) in (cell_lo p <=? x) && (x <=? cell_hi p).
Definition exact_ok (cs : list Z) (x i : Z) : bool :=
  valid_idx (length cs) i && (nthZ cs i =? x).

Definition pairs (es : list Z) : list (Z * Z) := combine es (tl es).
(* the cells the caller means when there is no bounds variable: midpoints between
   neighbouring centres; outer edges extended by half the spacing when the coordinate is
   uniformly spaced, the end centres otherwise (the library's documented approximation).
   Half units. *)
Definition natural_edges (cs : list Z) : list Z :=
  let c2 := map (Z.mul 2) cs in
  let d := diffs cs in
  let mids := sub2 (tl c2) d in
  if uniform d then [hd 0 c2 - hd 0 d] ++ mids ++ [last c2 0 + last d 0]
  else [hd 0 c2] ++ mids ++ [last c2 0].

Definition true_cells (c : cfg) : list (Z * Z) :=
  match c_bv c with
  | NoBounds => pairs (natural_edges (c_cs c))
  | Edges es => pairs es
  | Rows rs => rs
  end.

Definition minl (l : list Z) : Z := fold_right Z.min (hd 0 l) l.
Definition maxl (l : list Z) : Z := fold_right Z.max (hd 0 l) l.
Definition hull_cells (cells : list (Z * Z)) : Z * Z :=
  (minl (map cell_lo cells), maxl (map cell_hi cells)).
Definition hull_cs (cs : list Z) : Z * Z := (minl cs, maxl cs).

(* the range outside which a value is "out of range" for warning / rejection *)
Definition range_of (c : cfg) : Z * Z :=
  match c_bv c, c_m c with
  | NoBounds, MBounds => hull_cells (true_cells c)
  | NoBounds, _ => hull_cs (c_cs c)
  | _, _ => hull_cells (true_cells c)
  end.

(* one query value x (already in the model's unit) against the reported cell r *)
Definition spec_one (c : cfg) (x : Z) (r : cell) : bool :=
  let cs := c_cs c in
  match c_m c with
  | MNearest =>
      let h := hull_cs cs in
      let nanout := ((x <? fst h) && c_lnan c) || ((snd h <? x) && c_rnan c) in
      match r with
      | Idx i => nearest_ok cs x i
                 || (negb (valid_idx (length cs) i) && nanout && is_none (c_c c))
      | Masked => nanout && is_mask (c_c c)
      end
  | MBounds =>
      let cells := true_cells c in
      let h := hull_cells cells in
      let nanout := ((x <? fst h) && c_lnan c) || ((snd h <? x) && c_rnan c) in
      match r with
      | Idx i =>
          contains cells x i
          || (valid_idx (length cells) i && (x <? fst h) && negb (c_lnan c)
              && (cell_lo (nth (Z.to_nat i) cells (0, 0)) =? fst h))
          || (valid_idx (length cells) i && (snd h <? x) && negb (c_rnan c)
              && (cell_hi (nth (Z.to_nat i) cells (0, 0)) =? snd h))
          || (negb (valid_idx (length cells) i) && nanout && is_none (c_c c))
      | Masked => nanout && is_mask (c_c c)
      end
  | MExact =>
      match r with
      | Idx i => exact_ok cs x i
      | Masked => negb (memZ x cs)
      end
  | MOther => false
  end.

Fixpoint all2 {A B} (f : A -> B -> bool) (a : list A) (b : list B) : bool :=
  match a, b with
  | [], [] => true
  | x :: a', y :: b' => f x y && all2 f a' b'
  | _, _ => false
  end.

Definition is_err (b : bmode) := match b with BError => true | _ => false end.
Definition is_warn (b : bmode) := match b with BWarn => true | _ => false end.

(* The property for one call with valid options: cells right, warning iff requested and
   some value is out of range, ValueError iff requested and some value is out of range,
   no other exception. *)
Definition spec_outcome (c : cfg) (xs : list Z) (o : outcome) : bool :=
  let s := scale_of c in
  let xs' := map (Z.mul s) xs in
  let h := range_of c in
  let anyout := existsb (fun x => (x <? fst h) || (snd h <? x)) xs' in
  match o with
  | Raised EOutOfBounds => is_err (c_b c) && anyout
  | Raised _ => false
  | Done r w _ =>
      negb (is_err (c_b c) && anyout)
      && Bool.eqb w (is_warn (c_b c) && anyout)
      && all2 (spec_one c) xs' r
  end.

(* ---- domain predicates --------------------------------------------------------------- *)
Fixpoint contig (rs : list (Z * Z)) : bool :=
  match rs with
  | p :: ((q :: _) as t) => (snd p =? fst q) && contig t
  | _ => true
  end.
Definition contiguous (rs : list (Z * Z)) : bool :=
  match rs with [] => false | _ => contig rs end.
Definition bv_ok (n : nat) (bv : bvar) : bool :=
  match bv with
  | NoBounds => true
  | Edges es => Nat.eqb (length es) (S n)
  | Rows rs => Nat.eqb (length rs) n && contiguous rs
  end.
Definition dir_edges (c : cfg) : list Z :=
  match edges_of_bvar (c_bv c) with Some es => es | None => c_cs c end.

(* direction of the coordinate as the code decides it *)
Definition is_desc (c : cfg) : bool := desc (dir_edges c).

(* the domain on which the property is proved: valid option words, >= 2 strictly monotonic
   coordinate values, bounds variable of matching length and direction *)
Definition dom0 (c : cfg) : bool :=
  negb (bad_opts c) && (2 <=? lenZ (c_cs c)) && bv_ok (length (c_cs c)) (c_bv c)
  && ((asc (c_cs c) && asc (dir_edges c)) || (desc (c_cs c) && desc (dir_edges c))).

(* low / high end of a strictly monotonic list, by direction *)
Definition lo_of (dsc : bool) (l : list Z) : Z := if dsc then last l 0 else hd 0 l.
Definition hi_of (dsc : bool) (l : list Z) : Z := if dsc then hd 0 l else last l 0.
Definition mono (dsc : bool) (l : list Z) : bool := if dsc then desc l else asc l.
(* x lies below lo with left=nan, or above hi with right=nan *)
Definition nan_out (lnan rnan : bool) (lo hi x : Z) : Prop :=
  (x < lo /\ lnan = true) \/ (hi < x /\ rnan = true).
