(* CAMx "one3d" family of meteorological files (camxfiles/one3d and its thin subclasses humidity and
   vertical_diffusivity) at the 4-byte-word level.
   spec side : the published layout: no header; per time step and per layer one Fortran record
                   hour (HHMM as binary32), idate (YYJJJ as integer), ((v(i,j), i=1,nx), j=1,ny)
               (this is what harness/camxfmt.py `records` writes for these formats).
   impl side : (a) the memory-mapped reader camxfiles/one3d/Memmap.py __init__/__variables, given rows and cols
               by the caller: record length from the TRANSLATED `rows * cols + 4` (Gen.Camx om_record_items), number
               of records from the file size by floor division, `lays` = index of the first record whose
               (time, date) differs from record 0 (IndexError when there is none), TSTEP from the TRANSLATED true
               division `records / lays` truncated by int() (om_time_steps), the reshape to (TSTEP, LAY, ROW, COL)
               that raises when the sizes do not fit;
               (b) the record reader camxfiles/one3d/Read.py: its seek arithmetic is TRANSLATED (o3r_layerrecords,
               o3r_timerecords, o3r_recordposition, o3r_padded_size_of); the probing of __readheader/__gettimestep
               (struct.calcsize, while/try loops) is outside the translator's subset and HAND-MODELLED below
               (o3r_probe).
   Hand-modelled as well: numpy.memmap('>f') needs a non-empty file of a whole number of words; ndarray.reshape
   needs exactly matching sizes; `where(a != a[0])[0][0]`; `self.__memmap.shape[0] // record_items`.
   "Ok" of the Memmap model means: the file opens AND the data variable can be read (the reshape of __variables
   is lazy: on a record boundary that is not a whole number of steps the open succeeds, TFLAG carries one extra row
   and reading the data raises ValueError; that is Err here).
   Stamps are compared as 32-bit patterns; numpy compares them as binary32 values, which is the same relation
   except for NaN and for +0.0 / -0.0 (never produced: HHMM of whole hours, YYJJJ integers).
   No proofs here. *)
From PNC Require Import Base.Util Base.Words Gen.Camx Model.Uamiv Model.CamxMet.
From Coq Require Import QArith Qround.
Import Coq.Lists.List. Import ListNotations.
Local Open Scope Z_scope.

Record ostep := OStep { os_time : word; os_date : word; os_lays : list (list word) }.
Record one3d := {
  o_nx : Z; o_ny : Z; o_nz : Z;
  o_steps : list ostep        (* per step: HHMM (binary32 bits), YYJJJ, per layer ny*nx words *)
}.

(* ---- spec encoder ---------------------------------------------------------------------------- *)
Definition o_step_records (s : ostep) : list record := one3d_step (os_time s) (os_date s) (os_lays s).
Definition o_to_records (c : one3d) : list record := concat (map o_step_records (o_steps c)).
Definition o_enc (c : one3d) : list word := frame (o_to_records c).

(* ---- spec decoder (record walking; the format has no header: grid and layer count are given) ---- *)
Fixpoint o_take_lays (n : nat) (t d ncell : Z) (rs : list record) : option (list (list word) * list record) :=
  match n with
  | O => Some ([], rs)
  | S n' =>
    match rs with
    | (t' :: d' :: cells) :: rs' =>
      if (t' =? t) && (d' =? d) && (Z.of_nat (length cells) =? ncell) then
        match o_take_lays n' t d ncell rs' with
        | Some (ls, rest) => Some (cells :: ls, rest)
        | None => None
        end
      else None
    | _ => None
    end
  end.
Fixpoint o_take_steps (fuel : nat) (nz : nat) (ncell : Z) (rs : list record) : option (list ostep) :=
  match rs with
  | [] => Some []
  | (t :: d :: _) :: _ =>
    match fuel with
    | O => None
    | S f =>
      match o_take_lays nz t d ncell rs with
      | Some (ls, rest) =>
        match o_take_steps f nz ncell rest with
        | Some sts => Some (OStep t d ls :: sts)
        | None => None
        end
      | None => None
      end
    end
  | _ => None
  end.
Definition o_of_records (nx ny nz : Z) (rs : list record) : option one3d :=
  if (0 <? nx) && (0 <? ny) && (0 <? nz) then
    match o_take_steps (S (length rs)) (Z.to_nat nz) (nx * ny) rs with
    | Some sts => Some {| o_nx := nx; o_ny := ny; o_nz := nz; o_steps := sts |}
    | None => None
    end
  else None.
Definition o_dec (nx ny nz : Z) (ws : list word) : option one3d :=
  match unframe_all ws with Some rs => o_of_records nx ny nz rs | None => None end.

(* ---- well-formedness --------------------------------------------------------------------------- *)
Definition o_wf_step (c : one3d) (s : ostep) : bool :=
  len_is (o_nz c) (os_lays s) && forallb (len_is (o_nx c * o_ny c)) (os_lays s).
Definition o_wf (c : one3d) : bool :=
  (0 <? o_nx c) && (0 <? o_ny c) && (0 <? o_nz c) && forallb (o_wf_step c) (o_steps c).

Definition stamp_eqb (a b : Z * Z) : bool := (fst a =? fst b) && (snd a =? snd b).
Definition os_stamp (s : ostep) : Z * Z := (os_time s, os_date s).
(* what the Memmap reader needs in addition: at least two steps and the second step's (time, date) differs from
   the first's (the layer count is inferred from the first change of time stamp) *)
Definition o_readable (c : one3d) : bool :=
  match o_steps c with
  | s0 :: s1 :: _ => negb (stamp_eqb (os_stamp s0) (os_stamp s1))
  | _ => false
  end.

(* a valid file: the time stamp changes from every step to the next *)
Definition o_distinct (c : one3d) : bool :=
  forallb (fun p => negb (stamp_eqb (os_stamp (fst p)) (os_stamp (snd p)))) (combine (o_steps c) (tl (o_steps c))).

(* ---- impl (a): the memory-mapped reader ---------------------------------------------------------- *)
Record oview := {
  ov_nx : Z; ov_ny : Z; ov_nz : Z; ov_ntimes : Z;       (* COL, ROW, LAY, TSTEP *)
  ov_stamps : list (Z * Z);                             (* per step: (time word, date word) behind TFLAG *)
  ov_data : list (list (list word))                     (* [t][k] -> rows*cols words *)
}.

(* (time, date) of a record as laid out in the file: marker, time, date, cells, marker *)
Definition row_stamp (r : list word) : Z * Z := (nth 1 r 0, nth 2 r 0).
(* where(time_date != time_date[newaxis, 0])[0][0] *)
Fixpoint first_diff (s0 : Z * Z) (rows : list (list word)) (i : nat) : option nat :=
  match rows with
  | [] => None
  | r :: t => if stamp_eqb (row_stamp r) s0 then first_diff s0 t (S i) else Some i
  end.
(* [:, 3:-1] of a record of rows*cols+4 items *)
Definition row_cells (ncell : Z) (r : list word) : list word := firstn (Z.to_nat ncell) (skipn 3 r).

Definition o_mm_read (rows cols : Z) (ws : list word) (size : Z) : result oview :=
  (* memmap(rf, '>f', 'r', offset=0): non-empty, whole number of 4-byte items *)
  if (size <=? 0) || negb (size mod 4 =? 0) then Err else
  let n := size / 4 in
  let ri := om_record_items rows cols in
  if (rows <=? 0) || (cols <=? 0) then Err else            (* outside the domain: the caller passes the grid *)
  let records := n / ri in                                 (* self.__memmap.shape[0] // self.__record_items *)
  if negb (records * ri =? n) then Err else                (* reshape(records, record_items) *)
  match chunks (Z.to_nat ri) (firstn (Z.to_nat n) ws) with
  | None => Err
  | Some rws =>
    match rws with
    | [] => Err                                            (* time_date[newaxis, 0] of an empty array *)
    | r0 :: _ =>
      match first_diff (row_stamp r0) rws 0 with
      | None => Err                                        (* IndexError: no record differs from the first *)
      | Some lays =>
        let tsteps := Qfloor (om_time_steps records (Z.of_nat lays)) in    (* int(records / lays) *)
        (* __variables: reshape(tsteps, lays, rows, cols) of records*rows*cols items *)
        if negb (tsteps * Z.of_nat lays =? records) then Err else
        let groups := group (Z.to_nat tsteps) lays rws in
        Ok {| ov_nx := cols; ov_ny := rows; ov_nz := Z.of_nat lays; ov_ntimes := tsteps;
              ov_stamps := map (fun g => row_stamp (hd [] g)) groups;      (* dates[::lays], times[::lays] *)
              ov_data := map (map (row_cells (rows * cols))) groups |}
      end
    end
  end.

Definition o_view_of (c : one3d) : oview :=
  {| ov_nx := o_nx c; ov_ny := o_ny c; ov_nz := o_nz c; ov_ntimes := Z.of_nat (length (o_steps c));
     ov_stamps := map os_stamp (o_steps c); ov_data := map os_lays (o_steps c) |}.
Definition o_truncate_steps (k : nat) (c : one3d) : one3d :=
  {| o_nx := o_nx c; o_ny := o_ny c; o_nz := o_nz c; o_steps := firstn k (o_steps c) |}.

(* sizes in words *)
Definition o_rec_words (c : one3d) : Z := o_nx c * o_ny c + 4.
Definition o_step_words (c : one3d) : Z := o_nz c * o_rec_words c.

(* TFLAG = ConvertCAMxTime(dates, times): dates YYJJJ, times HHMM as integers (the float words are decoded by the
   harness; whole hours) *)
Definition o_tflag (dates hhmms : list Z) : list (Z * Z) := convert_camx_time dates hhmms.
Definition o_spec_tflag (dates hhmms : list Z) : list (Z * Z) :=
  combine (map spec_date dates) (map (fun t => t * 100) hhmms).

(* ---- impl (b): the record reader (Read.py) --------------------------------------------------------
   HAND-MODELLED probing: __readheader reads the first record (marker -> record_size, time, date),
   __gettimestep reads the stamps of the following records until one differs (nlayers = number of reads),
   time_step = timediff(first stamp, that stamp); then it seeks step after step until the seek fails.
   Times are HHMM integers here (decoded by the caller). Returns (record_size, nlayers, time_step). *)
Fixpoint count_same (s0 : Z * Z) (stamps : list (Z * Z)) (n : Z) : option (Z * (Z * Z)) :=
  match stamps with
  | [] => None                                   (* reads past the end of the file *)
  | s :: t => if stamp_eqb s s0 then count_same s0 t (n + 1) else Some (n + 1, s)
  end.
(* stamps: (date, hhmm) of every record in file order *)
Definition o3r_probe (marker0 : Z) (stamps : list (Z * Z)) : option o3r_self :=
  match stamps with
  | s0 :: rest =>
    match count_same s0 rest 0 with
    | Some (nl, s1) =>
      Some {| o3r_start_date := fst s0; o3r_start_time := snd s0;
              o3r_time_step := tt_timediff s0 s1 2400;
              o3r_nlayers := nl; o3r_padded_size := o3r_padded_size_of marker0; o3r_data_start_byte := 0 |}
    | None => None
    end
  | [] => None
  end.

(* HAND-MODELLED: the number of steps __gettimestep finds by seeking step after step until the seek fails (a seek
   fails when its byte position is not below the file size): the number of j >= 0 with j * nlayers * padded_size < size.
   Claimed only while 0 < time_step <= 2400, where timeadd and timediff are consistent (one day roll-over per step). *)
Definition o3r_step_count (self : o3r_self) (size : Z) : option Z :=
  let blk := o3r_nlayers self * o3r_padded_size self in
  if (0 <? o3r_time_step self) && (o3r_time_step self <=? 2400) && (0 <? blk) then Some ((size + blk - 1) / blk)
  else None.
(* what read_into unpacks at a byte position: "fi" then cell_count floats *)
Definition cells_at (ws : list word) (pos ncell : Z) : list word :=
  firstn (Z.to_nat ncell) (skipn 3 (skipn (Z.to_nat (pos / 4)) ws)).

(* ---- the writer (one3d/Write.py ncf2one3d): per TFLAG row and layer one record
        buf, TFLAG time / 100 as binary32, date % century, cells, buf  -- the records of the content *)
