(* C10 — structure-level model of the IOAPI wrappers (cmaqfiles/_ioapi.py ioapi_base):
   _add2Varlist, getVarlist(update=True), updatetflag, updatemeta and the overriding methods copy,
   subsetVariables, sliceDimensions, applyAlongDimensions, eval, mask, interpSigma, plus the inherited
   renameVariable and stack (which call the overriding copyVariable but never updatemeta).
   The state holds exactly the redundant encodings the property talks about.  Executable definitions only.

   Time flags are (YYYYDDD, HHMMSS) pairs.  Re-creating TFLAG from SDATE/STIME/TSTEP needs calendar
   arithmetic, which belongs to C11/C12; here it is modelled only while all flags stay inside one day
   (no_rollover); outside that the model answers Raise ("raises OR not modelled") and the generator never goes there. *)
From PNC Require Import Base.Util Model.FileStruct.
Local Open Scope Z_scope.

Record io := IO {
  nt : nat; nl : nat;                 (* TSTEP, LAY lengths *)
  nr : option nat; nc : option nat;   (* ROW, COL lengths; None for boundary files (PERIM instead) *)
  vardim : nat;                       (* length of the VAR dimension *)
  ts_unl : bool;                      (* TSTEP is marked unlimited *)
  dvars : list name;                  (* variables having the standard dimensions, in file order (TFLAG excluded) *)
  tflag : option (nat * list (Z * Z));(* TFLAG: shape[1] and the rows TFLAG[:,0,:] *)
  nvars : nat;                        (* NVARS attribute *)
  varlist : list name;                (* VAR-LIST split into 16-character names *)
  a_nl : nat; a_nr : nat; a_nc : nat; (* NLAYS NROWS NCOLS attributes *)
  nvgl : nat;                         (* number of entries of VGLVLS *)
  sdate : Z; stime : Z; tstep : Z
}.

Definition set_meta (f : io) nv vl vd tf sd st : io :=
  IO (nt f) (nl f) (nr f) (nc f) vd (ts_unl f) (dvars f) tf nv vl (a_nl f) (a_nr f) (a_nc f) (nvgl f) sd st (tstep f).

(* ---- the property (spec side) -------------------------------------------------------------- *)
Definition pair_eqb (a b : Z * Z) : bool := (fst a =? fst b) && (snd a =? snd b).
Definition opt_nat_agrees (a : nat) (d : option nat) : bool := match d with Some n => Nat.eqb a n | None => true end.
(* everything except the time-flag clauses *)
Definition coh_rest (f : io) : bool :=
  Nat.eqb (nvars f) (length (varlist f))                          (* NVARS = entries of VAR-LIST *)
  && Nat.eqb (vardim f) (nvars f)                                  (* VAR dimension *)
  && negb (Nat.eqb (nvars f) 0)                                    (* at least one variable slot (TFLAG[0,0,:] exists) *)
  && forallb (fun k => memb k (dvars f)) (varlist f)               (* every listed variable exists with the standard dimensions *)
  && Nat.eqb (a_nl f) (nl f) && opt_nat_agrees (a_nr f) (nr f) && opt_nat_agrees (a_nc f) (nc f)
  && Nat.eqb (nvgl f) (nl f + 1)                                   (* one more level than layers *)
  && ts_unl f.                                                     (* IOAPI files mark TSTEP unlimited (C01 clause) *)
(* second axis of TFLAG = NVARS; first flag = SDATE/STIME *)
Definition tflag_part (f : io) : bool :=
  match tflag f with
  | Some (s1, r0 :: _) => Nat.eqb s1 (nvars f) && pair_eqb r0 (sdate f, stime f)
  | _ => false end.
Definition coherentb (f : io) : bool := coh_rest f && tflag_part f.

(* ---- helpers of the implementation side ------------------------------------------------------- *)
Definition listed_existing (f : io) : list name := filter (fun k => memb k (dvars f)) (varlist f).

(* _add2Varlist(keys): append the new, not yet listed keys; NVARS = number of listed variables that exist *)
Definition add2varlist (f : io) (ks : list name) : io :=
  let keys0 := listed_existing f in
  let new := filter (fun k => negb (memb k keys0)) ks in
  (* (duplicates inside ks do not occur: ks comes from dict keys / a set) *)
  set_meta f (length keys0 + length new) (varlist f ++ new) (vardim f) (tflag f) (sdate f) (stime f).

(* getVarlist(update=True): prune VAR-LIST to existing standard variables (an empty VAR-LIST means
   "all standard variables"), NVARS := its length, VAR dimension := max(NVARS, 1) *)
Definition getvarlist (f : io) : io :=
  let vl := match varlist f with [] => dvars f | _ => listed_existing f end in
  let nv := length vl in
  set_meta f nv vl (Nat.max nv 1) (tflag f) (sdate f) (stime f).

Definition no_rollover (f : io) (n : nat) : bool :=
  (0 <=? stime f) && (0 <? tstep f) && (stime f mod 10000 =? 0) && (tstep f mod 10000 =? 0)
  && (stime f + (Z.of_nat n - 1) * tstep f <? 240000) && (1000001 <=? sdate f).
Definition rebuilt (f : io) (n : nat) : list (Z * Z) :=
  map (fun i => (sdate f, stime f + Z.of_nat i * tstep f)) (seq 0 n).

(* updatetflag(): re-create TFLAG when missing or when its second axis differs from NVARS.  With
   fixes/C10-updatetflag-keeps-times.patch an existing TFLAG that only has the wrong number of variables keeps the time of
   every step (they need not be regular); otherwise the flags are generated from SDATE/STIME/TSTEP.  SDATE/STIME := first flag. *)
Definition updatetflag (f : io) : res io :=
  let overwrite := match tflag f with None => true | Some (s1, _) => negb (Nat.eqb s1 (nvars f)) end in
  if overwrite then
    if Nat.eqb (vardim f) 0 || Nat.eqb (nt f) 0 then Raise else                                  (* IndexError *)
    let keep := match tflag f with
                | Some (s1, r0 :: rest) => if negb (Nat.eqb s1 0) && Nat.eqb (length (r0 :: rest)) (nt f)
                                           then Some (r0, rest) else None
                | _ => None end in
    match keep with
    | Some (r0, rest) => Ok (set_meta f (nvars f) (varlist f) (vardim f) (Some (vardim f, r0 :: rest)) (fst r0) (snd r0))
    | None => if negb (no_rollover f (nt f)) then Raise                                        (* not modelled *)
              else Ok (set_meta f (nvars f) (varlist f) (vardim f) (Some (vardim f, rebuilt f (nt f))) (sdate f) (stime f))
    end
  else Ok f.

(* updatemeta(): TSTEP unlimited, VAR-LIST/NVARS/VAR, NLAYS NCOLS NROWS from the dimensions, TFLAG *)
Definition updatemeta (f : io) : res io :=
  let g := getvarlist f in
  let g' := IO (nt g) (nl g) (nr g) (nc g) (vardim g) true (dvars g) (tflag g) (nvars g) (varlist g)
               (nl g) (match nr g with Some n => n | None => a_nr g end) (match nc g with Some n => n | None => a_nc g end)
               (nvgl g) (sdate g) (stime g) (tstep g) in
  updatetflag g'.

(* ---- operations ------------------------------------------------------------------------------------ *)
Inductive dimk := DT | DL | DR | DC.
Inductive rfun := FMean | FMin | FMax | FSum | FHalf.
Inductive iop :=
  | ICopy
  | ISubset (ks : list name)
  | IRename (o n : name)
  | ISlice (sels : list (dimk * bool * list nat))
      (* one sliceDimensions call: per selected dimension, whether the selector is an index LIST (as opposed to an int or a
         slice, possibly with a negative step) and the selected positions in selection order (resolved, 0-based) *)
  | IApply (d : dimk) (g : rfun)
  | IEval (n a : name) (copyall : bool)       (* n = a * 2, n a fresh name *)
  | IMask
  | IStack (ont : nat) (orows : list (Z * Z)) (* stack(other, 'TSTEP'): the operand's TSTEP length and TFLAG rows *)
  | IInterp (m : nat)                         (* interpSigma to m layers (m+1 levels) *)
  | IDelete (k : name).                       (* g = f.copy(); del g.variables[k]; g.updatemeta() *)

Definition dim_len (f : io) (d : dimk) : option nat :=
  match d with DT => Some (nt f) | DL => Some (nl f) | DR => nr f | DC => nc f end.
Definition set_len (f : io) (d : dimk) (n : nat) : io :=
  IO (match d with DT => n | _ => nt f end) (match d with DL => n | _ => nl f end)
     (match d with DR => Some n | _ => nr f end) (match d with DC => Some n | _ => nc f end)
     (vardim f) (ts_unl f) (dvars f) (tflag f) (nvars f) (varlist f) (a_nl f) (a_nr f) (a_nc f) (nvgl f)
     (sdate f) (stime f) (tstep f).
Definition set_rows (f : io) (rows : list (Z * Z)) : io :=
  match tflag f with
  | Some (s1, _) => set_meta f (nvars f) (varlist f) (vardim f) (Some (s1, rows)) (sdate f) (stime f)
  | None => f end.
Definition set_vgl (f : io) (n : nat) : io :=
  IO (nt f) (nl f) (nr f) (nc f) (vardim f) (ts_unl f) (dvars f) (tflag f) (nvars f) (varlist f) (a_nl f) (a_nr f) (a_nc f) n
     (sdate f) (stime f) (tstep f).
Definition set_dvars (f : io) (vs : list name) : io :=
  IO (nt f) (nl f) (nr f) (nc f) (vardim f) (ts_unl f) vs (tflag f) (nvars f) (varlist f) (a_nl f) (a_nr f) (a_nc f) (nvgl f)
     (sdate f) (stime f) (tstep f).
Definition set_time (f : io) (sd st ts : Z) : io :=
  IO (nt f) (nl f) (nr f) (nc f) (vardim f) (ts_unl f) (dvars f) (tflag f) (nvars f) (varlist f) (a_nl f) (a_nr f) (a_nc f) (nvgl f)
     sd st ts.

Definition picks {A} (l : list A) (idx : list nat) : list A :=
  flat_map (fun i => match nth_error l i with Some x => [x] | None => [] end) idx.
Fixpoint evens {A} (l : list A) : list A :=
  match l with [] => [] | [x] => [x] | x :: _ :: t => x :: evens t end.

Definition reduce_rows (g : rfun) (rows : list (Z * Z)) : list (Z * Z) :=
  let ds := map fst rows in let ts := map snd rows in
  let n := Z.of_nat (length rows) in
  match g, rows with
  | FHalf, _ => evens rows
  | _, [] => []
  | FMean, _ => [(sumZ ds / n, sumZ ts / n)]        (* float mean stored into int32: truncation *)
  | FSum, _ => [(sumZ ds, sumZ ts)]
  | FMin, r :: t => [(fold_right Z.min (fst r) (map fst t), fold_right Z.min (snd r) (map snd t))]
  | FMax, r :: t => [(fold_right Z.max (fst r) (map fst t), fold_right Z.max (snd r) (map snd t))]
  end.
Definition rfun_len (g : rfun) (n : nat) : nat := match g with FHalf => Nat.div (n + 1) 2 | _ => 1 end.

(* ioapi_base.copy: attributes and dimensions, data variables through the BASE copyVariable, then updatetflag()
   re-creates TFLAG (createVariable('TFLAG') -> _add2Varlist(['TFLAG']) recounts NVARS) *)
Definition impl_copy (f : io) : res io :=
  let f1 := set_meta f (length (listed_existing f)) (varlist f) (vardim f) None (sdate f) (stime f) in
  updatetflag f1.

(* ioapi_base.subsetVariables *)
Definition impl_subset (f : io) (ks : list name) : res io :=
  let vl0 := match varlist f with [] => dvars f | _ => listed_existing f end in
  let nvl := filter (fun k => memb k ks) vl0 in
  let f1 := set_dvars f nvl in
  let f2 := set_meta f1 (length nvl) nvl (length nvl) None (sdate f) (stime f) in
  updatemeta f2.

(* renameVariable(s) as repaired by fixes/C10-renameVariable-varlist.patch: the inherited method runs first (_copywith
   copies every variable through the overriding copyVariable -> _add2Varlist, the new key is added, the old variable
   deleted); the override then renames the VAR-LIST entries in place (existing variables only, first occurrence only)
   and calls updatemeta() *)
Fixpoint dedup (l : list name) : list name :=
  match l with [] => [] | x :: t => x :: filter (fun y => negb (Nat.eqb y x)) (dedup t) end.
Definition impl_rename (f : io) (o n : name) : res io :=
  (* KeyError for a missing variable; renaming a variable onto itself (the variable disappears) is not modelled.
     The target may be an EXISTING variable: it is overwritten in place and one VAR-LIST entry disappears. *)
  if negb (memb o (dvars f)) || Nat.eqb o n then Raise else
  match tflag f with
  | None => Raise
  | Some (s1, rows) =>
      if negb (Nat.eqb s1 (vardim f)) then Raise else                    (* TFLAG is re-allocated from the VAR dimension *)
      let f1 := add2varlist f (dvars f) in
      let f2 := add2varlist (set_dvars f1 (if memb n (dvars f1) then dvars f1 else dvars f1 ++ [n])) [n] in
      let f3 := set_dvars f2 (filter (fun k => negb (Nat.eqb k o)) (dvars f2)) in
      let vl := dedup (filter (fun k => memb k (dvars f3))
                              (map (fun k => if Nat.eqb k o then n else k) (varlist f3))) in
      updatemeta (set_meta f3 (nvars f3) vl (vardim f3) (tflag f3) (sdate f3) (stime f3))
  end.

(* ioapi_base.sliceDimensions: the effect of one selector; SDATE/STIME become the FIRST selected time step (times[0]),
   TSTEP the difference of the first two selected steps (it may be negative or zero) *)
Definition dimk_eqb (a b : dimk) : bool :=
  match a, b with DT, DT | DL, DL | DR, DR | DC, DC => true | _, _ => false end.
Definition sel_one (g : io) (s : dimk * bool * list nat) : res io :=
  let d := fst (fst s) in let idx := snd s in
  match dim_len g d with
  | None => Raise
  | Some n =>
      if Nat.eqb (length idx) 0 || negb (forallb (fun i => Nat.ltb i n) idx) then Raise else   (* IndexError / empty: not modelled *)
      let k := length idx in
      let g1 := set_len g d k in
      match d with
      | DT => match tflag g with
              | Some (s1, rows) =>
                  if negb (Nat.eqb (length rows) n) then Raise else
                  match picks rows idx with
                  | [] => Raise
                  | r0 :: rest =>
                      let ts := match rest with r1 :: _ => snd r1 - snd r0 | [] => tstep g end in
                      Ok (set_time (set_rows g1 (r0 :: rest)) (fst r0) (snd r0) ts)
                  end
              | None => Raise
              end
      | DL => if Nat.eqb (nvgl g) (n + 1) then Ok (set_vgl g1 (k + 1)) else Raise   (* other cases not modelled *)
      | _ => Ok g1
      end
  end.
Fixpoint sel_all (g : io) (sels : list (dimk * bool * list nat)) : res io :=
  match sels with [] => Ok g | s :: t => do g' <- sel_one g s; sel_all g' t end.
Fixpoint dims_distinct (ds : list dimk) : bool :=
  match ds with [] => true | d :: t => negb (existsb (dimk_eqb d) t) && dims_distinct t end.
Definition nlists (sels : list (dimk * bool * list nat)) : nat := length (filter (fun s => snd (fst s)) sels).
(* two index lists, one of them on TSTEP, of equal length (the "zipped" POINTS selection): every standard variable carries
   both dimensions and ends up on (POINTS, ...), i.e. no standard variable is left; TFLAG keeps its own TSTEP selection *)
Definition zip_ok (sels : list (dimk * bool * list nat)) : bool :=
  match filter (fun s => snd (fst s)) sels with
  | [a; b] => (dimk_eqb (fst (fst a)) DT || dimk_eqb (fst (fst b)) DT)
              && Nat.eqb (length (snd a)) (length (snd b))
  | _ => false
  end.
Definition impl_slice (f : io) (sels : list (dimk * bool * list nat)) : res io :=
  (* keyword arguments name each dimension once *)
  if negb (dims_distinct (map (fun s => fst (fst s)) sels)) then Raise else
  match tflag f with
  | None => Raise
  | Some _ =>
      if Nat.leb (nlists sels) 1 then do f2 <- sel_all f sels; updatemeta f2
      else if zip_ok sels then do f2 <- sel_all f sels; updatemeta (set_dvars f2 [])
      else Raise                      (* other multi-list selections (ROW and COL zipped, three lists): C01 drives them *)
  end.

(* ioapi_base.applyAlongDimensions for one dimension *)
Definition impl_apply (f : io) (d : dimk) (g : rfun) : res io :=
  match dim_len f d, tflag f with
  | Some n, Some (s1, rows) =>
      if Nat.eqb n 0 then Raise else
      let m := rfun_len g n in
      let f1 := set_len f d m in
      do f2 <- (match d with
                | DT => if Nat.eqb (length rows) n then Ok (set_rows f1 (reduce_rows g rows)) else Raise
                | DL => if Nat.eqb (nvgl f) (n + 1) then Ok (set_vgl f1 (m + 1)) else Raise   (* append(b[:,0], b[-1,1]): fixes/C10-apply-vglvls.patch *)
                | _ => Ok f1
                end);
      updatemeta f2
  | _, _ => Raise
  end.

(* ioapi_base.eval('n = a * 2') *)
Definition impl_eval (f : io) (n a : name) (copyall : bool) : res io :=
  if negb (memb a (dvars f)) || memb n (dvars f) || memb n (varlist f) then Raise else
  if copyall then
    do g <- impl_copy f;
    updatemeta (add2varlist (set_dvars g (dvars g ++ [n])) [n])
  else
    do g <- impl_subset f [a];
    updatemeta (add2varlist (set_dvars g [n]) [n]).

(* ioapi_base.mask: copy(variables=False) (TFLAG re-created), every variable through the overriding copyVariable,
   the original TFLAG copied over, updatemeta *)
Definition impl_mask (f : io) : res io :=
  match tflag f with
  | None => Raise
  | Some (s1, rows) =>
      do g <- impl_copy f;
      if negb (Nat.eqb s1 (vardim f)) then Raise else
      updatemeta (set_rows (add2varlist g (dvars f)) rows)
  end.

(* inherited stack(other, 'TSTEP'): variables (TFLAG too) are concatenated, copied through the overriding copyVariable *)
Definition impl_stack (f : io) (ont : nat) (orows : list (Z * Z)) : res io :=
  match tflag f with
  | None => Raise
  | Some (s1, rows) =>
      if negb (Nat.eqb s1 (vardim f)) || negb (Nat.eqb (length rows) (nt f)) || negb (Nat.eqb (length orows) ont) then Raise else
      let f1 := set_len f DT (nt f + ont) in
      Ok (set_rows (add2varlist f1 (dvars f)) (rows ++ orows))
  end.

(* interpSigma(vglvls of m+1 entries) *)
Definition impl_interp (f : io) (m : nat) : res io :=
  match tflag f with
  | None => Raise
  | Some _ =>
      if Nat.eqb m 0 || Nat.eqb (nl f) 0 || negb (Nat.eqb (nvgl f) (nl f + 1)) then Raise else
      do g <- updatemeta (set_vgl (set_len f DL m) (m + 1));
      let g' := set_vgl g (m + 1) in
      updatemeta (IO (nt g') (nl g') (nr g') (nc g') (vardim g') (ts_unl g') (dvars g') (tflag g') (nvars g') (varlist g')
                     m (a_nr g') (a_nc g') (nvgl g') (sdate g') (stime g') (tstep g'))
  end.

(* deleting a variable from (a copy of) the file and refreshing the metadata: VAR-LIST is pruned, NVARS and the VAR
   dimension shrink, TFLAG is re-created with the new second axis (keeping its times) *)
Definition impl_delete (f : io) (k : name) : res io :=
  if negb (memb k (dvars f)) then Raise else
  do g <- impl_copy f;
  updatemeta (set_dvars g (filter (fun v => negb (Nat.eqb v k)) (dvars g))).

Definition istep (f : io) (o : iop) : res io :=
  match o with
  | ICopy => impl_copy f
  | ISubset ks => impl_subset f ks
  | IRename o n => impl_rename f o n
  | ISlice sels => impl_slice f sels
  | IApply d g => impl_apply f d g
  | IEval n a ca => impl_eval f n a ca
  | IMask => impl_mask f
  | IStack ont orows => impl_stack f ont orows
  | IInterp m => impl_interp f m
  | IDelete k => impl_delete f k
  end.
Fixpoint irun (f : io) (ops : list iop) : res io :=
  match ops with [] => Ok f | o :: t => do f' <- istep f o; irun f' t end.

(* ---- the sub-domain on which coherence is PROVED; the complement = known-defect regions --------------- *)
(* 0 = safe; 1 = a reducer along TSTEP over more than one step (TFLAG is reduced like data, SDATE/STIME are not touched);
   2 = subsetVariables selecting nothing, or a zipped (two-list) selection: no listed variable is left, NVARS=0 but VAR=1; 3 = a standard variable missing from VAR-LIST (never generated: the
   overriding copyVariable would append it).  renameVariable and functions along LAY are repaired
   (fixes/C10-renameVariable-varlist.patch, fixes/C10-apply-vglvls.patch) and need no region any more. *)
Definition iop_region (f : io) (o : iop) : nat :=
  match o with
  | IApply DT g => match g with FHalf => 0 | _ => if Nat.eqb (nt f) 1 then 0 else 1 end
  | ISubset ks => match filter (fun k => memb k ks) (listed_existing f) with [] => 2 | _ => 0 end
  | ISlice sels => if Nat.leb (nlists sels) 1 then 0 else 2     (* zipped selection: no standard variable is left *)
  | IDelete k => match filter (fun v => negb (Nat.eqb v k)) (listed_existing f) with [] => 2 | _ => 0 end   (* the last listed variable *)
  | IEval _ a false => if memb a (listed_existing f) then 0 else 3
  | IStack _ _ => if forallb (fun k => memb k (varlist f)) (dvars f) then 0 else 3
  | _ => 0
  end.
(* operations for which preservation of coherence is PROVED (the others: correspondence only) *)
Definition proved_op (o : iop) : bool :=
  match o with ICopy | ISubset _ | IRename _ _ | ISlice _ | IApply _ _ | IStack _ _ | IDelete _ => true | _ => false end.
Fixpoint irun_region (f : io) (ops : list iop) : nat :=
  match ops with
  | [] => 0%nat
  | o :: t => match iop_region f o with
              | O => match istep f o with Ok f' => irun_region f' t | Raise => 0%nat end
              | k => k
              end
  end.

(* ---- the library's own audit: structural keys of ioapi_base.audit_meta(fail='ignore') that are functions of the modelled state ---- *)
Definition audit_structb (f : io) : bool :=
  Nat.eqb (a_nl f) (nl f)                                            (* 'LAY'  : NLAYS == len(LAY) *)
  && Nat.eqb (nvars f) (vardim f)                                    (* 'VAR'  : NVARS == len(VAR) *)
  && opt_nat_agrees (a_nr f) (nr f) && opt_nat_agrees (a_nc f) (nc f)  (* 'ROW', 'COL' (gridded files) *)
  && Nat.eqb (nvars f) (length (varlist f))                          (* 'VAR-LIST-LEN' : NVARS * 16 == len(VAR-LIST) *)
  && forallb (fun k => memb k (dvars f)) (varlist f)                 (* has_<var>, 'VAR-LIST' (pruning changes nothing), var_<k>.right_dims *)
  && match tflag f with                                              (* has_TFLAG, SDATE_TFLAG, STIME_TFLAG *)
     | Some (_, r0 :: _) => pair_eqb r0 (sdate f, stime f)
     | _ => false end.
