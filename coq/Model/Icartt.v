(* C19 — ICARTT ffi1001 text writer (ncf2ffi1001) and reader (ffi1001.__init__).
   Executable definitions only.  Text is modelled at character level where the hazards live
   (newline / comma / colon / blank handling, the line-number state machine); characters are
   code points (Z).  Numbers in data rows are exact decimals m * 10^e; "%.6e" is [fmt6e].
   A double that was parsed from a <=7-digit decimal is identified with that decimal
   (binary64 <-> <=15-digit decimal round trip, trusted; see harness TRUSTED). *)
From Coq Require Import String Ascii DecimalString.
From PNC Require Import Base.Util.
Local Open Scope Z_scope.

(* ---------------------------------------------------------------- strings *)
Definition str := list Z.
Definition s2z (s : string) : str :=
  map (fun a => Z.of_N (N_of_ascii a)) (list_ascii_of_string s).
Definition str_eqb : str -> str -> bool := list_eqb Z.eqb.

Definition cNL := 10.  Definition cSP := 32.  Definition cCOMMA := 44.
Definition cCOLON := 58. Definition cSLASH := 47. Definition cUS := 95.

(* str.strip()/split() whitespace (ASCII part) *)
Definition is_ws (c : Z) : bool :=
  (c =? 32) || (c =? 10) || (c =? 13) || (c =? 9) || (c =? 11) || (c =? 12).

Definition has_char (c : Z) (s : str) : bool := existsb (Z.eqb c) s.

(* s.split(c): never empty *)
Fixpoint split_on (c : Z) (s : str) : list str :=
  match s with
  | [] => [[]]
  | x :: t => if x =? c then [] :: split_on c t
              else match split_on c t with
                   | h :: r => (x :: h) :: r
                   | [] => [[x]]
                   end
  end.

Fixpoint lstrip (s : str) : str :=
  match s with
  | [] => []
  | x :: t => if is_ws x then lstrip t else s
  end.
Definition rstrip (s : str) : str := rev (lstrip (rev s)).
Definition strip (s : str) : str := rstrip (lstrip s).
Definition stripped (s : str) : bool := str_eqb (strip s) s.

(* s.split() without argument *)
Fixpoint words (s : str) : list str :=
  match s with
  | [] => []
  | x :: t =>
      if is_ws x then words t
      else match t with
           | [] => [[x]]
           | y :: _ => if is_ws y then [x] :: words t
                       else match words t with
                            | h :: r => (x :: h) :: r
                            | [] => [[x]]
                            end
           end
  end.

Fixpoint join (sep : str) (l : list str) : str :=
  match l with
  | [] => []
  | [a] => a
  | a :: t => a ++ sep ++ join sep t
  end.

Definition replace_char (a b : Z) (s : str) : str := map (fun c => if c =? a then b else c) s.

(* index of first occurrence *)
Fixpoint find_char (c : Z) (s : str) : option nat :=
  match s with
  | [] => None
  | x :: t => if x =? c then Some O else option_map S (find_char c t)
  end.

(* '%d' % z *)
Definition zstr (z : Z) : str := s2z (NilZero.string_of_int (Z.to_int z)).

Definition is_digit (c : Z) : bool := (48 <=? c) && (c <=? 57).
Fixpoint digits_val (acc : Z) (s : str) : option Z :=
  match s with
  | [] => Some acc
  | c :: t => if is_digit c then digits_val (acc * 10 + (c - 48)) t else None
  end.
Definition parse_nat_str (s : str) : option Z :=
  match s with [] => None | _ => digits_val 0 s end.
(* int(line) for the strings that occur: optional sign, digits, surrounding blanks *)
Definition parse_int (s : str) : option Z :=
  match strip s with
  | 45 :: t => option_map Z.opp (parse_nat_str t)
  | 43 :: t => parse_nat_str t
  | t => parse_nat_str t
  end.

(* ---------------------------------------------------------------- decimals *)
Record dec := D { dm : Z; de : Z }.            (* value = dm * 10^de *)

(* exact decimal of the binary number m * 2^k (a double): m * 2^k = (m * 5^-k) * 10^k for k < 0 *)
Definition dbin (m k : Z) : dec := if 0 <=? k then D (m * 2 ^ k) 0 else D (m * 5 ^ (- k)) k.

Definition dec_eqb (a b : dec) : bool :=
  let e := Z.min (de a) (de b) in
  dm a * 10 ^ (de a - e) =? dm b * 10 ^ (de b - e).
Definition dec_mul (a b : dec) : dec := D (dm a * dm b) (de a + de b).
Definition dec_ideq (a b : dec) : bool := (dm a =? dm b) && (de a =? de b).

(* number of decimal digits of m > 0 *)
Fixpoint ndig (fuel : nat) (m : Z) : Z :=
  match fuel with
  | O => 0
  | S k => if m <? 10 then 1 else 1 + ndig k (m / 10)
  end.
Definition ndigits_slow (m : Z) : Z := ndig (S (Z.to_nat (Z.log2 m))) m.
(* same value, computed from a log2 estimate that is checked (the slow loop is the fallback) *)
Definition ndigits (m : Z) : Z :=
  let g := Z.log2 m * 30103 / 100000 in
  if (10 ^ g <=? m) && (m <? 10 ^ (g + 1)) then g + 1
  else if (1 <=? g) && (10 ^ (g - 1) <=? m) && (m <? 10 ^ g) then g
  else if (10 ^ (g + 1) <=? m) && (m <? 10 ^ (g + 2)) then g + 2
  else ndigits_slow m.

(* round-half-even of a / p  (a >= 0, p > 0) *)
Definition rhe (a p : Z) : Z :=
  let q := a / p in let r := a mod p in
  if 2 * r <? p then q else if p <? 2 * r then q + 1 else if Z.even q then q else q + 1.

(* '%.6e' % x  as a canonical 7-digit decimal: |mantissa| in [10^6, 10^7) or (0,0).
   glibc rounds the exact binary value correctly (half-even on exact ties). *)
Definition fmt6e (x : dec) : dec :=
  let m := dm x in
  if m =? 0 then D 0 0 else
  let a := Z.abs m in let sg := Z.sgn m in
  let nd := ndigits a in
  if nd <=? 7 then D (sg * a * 10 ^ (7 - nd)) (de x - (7 - nd))
  else let k := nd - 7 in
       let q := rhe a (10 ^ k) in
       if q =? 10 ^ 7 then D (sg * 10 ^ 6) (de x + k + 1) else D (sg * q) (de x + k).

Definition canon7 (d : dec) : bool :=
  ((dm d =? 0) && (de d =? 0)) || ((10 ^ 6 <=? Z.abs (dm d)) && (Z.abs (dm d) <? 10 ^ 7)).

(* Python numeric literal as produced by str(int) / repr(float): [-]ddd[.ddd][e[+-]dd] *)
Fixpoint take_digits (s : str) : str * str :=
  match s with
  | c :: t => if is_digit c then let (a, b) := take_digits t in (c :: a, b) else ([], s)
  | [] => ([], [])
  end.
Definition parse_num (s : str) : option dec :=
  let (sg, s1) := match s with 45 :: t => (-1, t) | 43 :: t => (1, t) | _ => (1, s) end in
  let (ip, s2) := take_digits s1 in
  let (fp, s3) := match s2 with 46 :: t => take_digits t | _ => ([], s2) end in
  match ip ++ fp with
  | [] => None
  | _ =>
    match digits_val 0 (ip ++ fp) with
    | None => None
    | Some mant =>
      let base := D (sg * mant) (- Z.of_nat (length fp)) in
      match s3 with
      | [] => Some base
      | c :: t =>
        if (c =? 101) || (c =? 69) then
          match parse_int t with          (* exponent *)
          | Some ex => match t with
                       | [] => None
                       | _ => Some (D (dm base) (de base + ex))
                       end
          | None => None
          end
        else None
      end
    end
  end.

(* ---------------------------------------------------------------- input file *)
Record var := Var {
  v_name : str;
  v_units : option str;           (* the 'units' attribute, if any *)
  v_code : option str;            (* str(missing_value), if the attribute exists *)
  v_fill : dec;                   (* the masked array's own fill_value (ignored by the repaired writer) *)
  v_cells : list (option dec)     (* None = masked *)
}.

Record file := File {
  f_attrs : list (str * str);     (* ncattrs() in order, values as str() *)
  f_vars : list var               (* f.variables in order *)
}.

Fixpoint get_attr (k : str) (l : list (str * str)) : option str :=
  match l with
  | [] => None
  | (k', v) :: t => if str_eqb k k' then Some v else get_attr k t
  end.
Fixpoint set_attr (k v : str) (l : list (str * str)) : list (str * str) :=
  match l with
  | [] => [(k, v)]
  | (k', v') :: t => if str_eqb k k' then (k, v) :: t else (k', v') :: set_attr k v t
  end.
Definition attr_or (k : string) (dflt : string) (l : list (str * str)) : str :=
  match get_attr (s2z k) l with Some v => v | None => s2z dflt end.

Definition ignore_attrs : list str := map s2z
  ["fmt"; "n_header_lines"; "PI_NAME"; "ORGANIZATION_NAME"; "SOURCE_DESCRIPTION"; "MISSION_NAME";
   "VOLUME_INFO"; "SDATE"; "WDATE"; "TIME_INTERVAL"; "INDEPENDENT_VARIABLE"; "TFLAG"]%string.
Definition in_strs (k : str) (l : list str) : bool := existsb (str_eqb k) l.

Definition myattrs (f : file) : list (str * str) :=
  filter (fun kv => negb (in_strs (fst kv) ignore_attrs)) (f_attrs f).
Definition indep_name (f : file) : option str := get_attr (s2z "INDEPENDENT_VARIABLE") (f_attrs f).
Definition depvars (ind : str) (f : file) : list var :=
  filter (fun v => negb (str_eqb (v_name v) ind)) (f_vars f).
Definition find_var (k : str) (f : file) : option var :=
  find (fun v => str_eqb (v_name v) k) (f_vars f).

(* ---------------------------------------------------------------- text *)
Inductive pline := PT (s : str) | PR (cells : list dec).

(* print(s): s may contain newlines *)
Definition print (s : str) : list pline := map PT (split_on cNL s).

Definition code_str (v : var) : str := match v_code v with Some s => s | None => s2z "-999" end.
Definition units_str (v : var) : str := match v_units v with Some s => s | None => s2z "unknown" end.
Definition sep : str := [cCOMMA; cSP].

(* numeric value of the missing code printed in the header: getattr(var, 'missing_value', -999) *)
Definition code_val (v : var) : dec :=
  match parse_num (code_str v) with Some c => c | None => D 0 0 end.
(* numpy.ma.filled(var[:], missing_value): masked cells carry the code (v_fill, the array's own
   fill_value, is no longer used by the writer) *)
Definition filled (v : var) : list dec :=
  map (fun c => match c with Some d => d | None => code_val v end) (v_cells v).
(* str(value) with line breaks replaced by blanks *)
Definition one_line (s : str) : str := replace_char 13 cSP (replace_char cNL cSP s).

(* array(vals).T : rows; all variables share the POINTS dimension *)
Fixpoint transpose_rows (n : nat) (cols : list (list dec)) : list (list dec) :=
  match n with
  | O => []
  | S k => map (fun c => match c with x :: _ => x | [] => D 0 0 end) cols
           :: transpose_rows k (map (@tl dec) cols)
  end.

Definition header_count (f : file) (ind : str) : Z :=
  Z.of_nat (length (myattrs f)) + Z.of_nat (length (depvars ind f)) + 15.

Definition indep_line (f : file) (ind : str) : str :=
  match find_var ind f with
  | Some iv => match v_units iv with Some u => join sep [ind; u] | None => ind end
  | None => ind
  end.
(* the arguments of the successive print() calls of the header (lines 2 .. names line) *)
Definition hdr_strings (f : file) (ind sdate : str) : list str :=
  let deps := depvars ind f in
  let my := myattrs f in
  let a := f_attrs f in
  [ attr_or "PI_NAME" "Unknown" a; attr_or "ORGANIZATION_NAME" "Unknown" a;
    attr_or "SOURCE_DESCRIPTION" "Unknown" a; attr_or "MISSION_NAME" "Unknown" a;
    attr_or "VOLUME_INFO" "1, 1" a; sdate ++ [cSP] ++ attr_or "WDATE" "2000, 01, 01" a;
    attr_or "TIME_INTERVAL" "0" a; indep_line f ind; zstr (Z.of_nat (length deps));
    join sep (map (fun _ => s2z "1") deps); join sep (map code_str deps) ]
  ++ map (fun v => join sep [v_name v; units_str v]) deps
  ++ [ s2z "0"; zstr (Z.of_nat (length my)) ]
  ++ map (fun kv => fst kv ++ [cCOLON; cSP] ++ one_line (snd kv)) my
  ++ [ join sep (ind :: map v_name deps) ].

(* ncf2ffi1001: declared header count (line 1 is "N, 1001") and physical lines 2.. ;
   None = the writer raises (no SDATE / no INDEPENDENT_VARIABLE / independent variable absent) *)
Definition impl_write (f : file) : option (Z * list pline) :=
  match indep_name f, get_attr (s2z "SDATE") (f_attrs f) with
  | Some ind, Some sdate =>
    match find_var ind f with
    | None => None
    | Some iv =>
      let deps := depvars ind f in
      let hdr := concat (map print (hdr_strings f ind sdate)) in
      let cols := filled iv :: map filled deps in
      let rows := transpose_rows (length (v_cells iv)) cols in
      Some (header_count f ind, hdr ++ map (fun r => PR (map fmt6e r)) rows)
    end
  | _, _ => None
  end.

(* ---------------------------------------------------------------- reader *)
Inductive cell := CM | CV (d : dec) | CN.     (* masked / value / NaN *)
Record rvar := RVar { r_name : str; r_units : str; r_code_s : str; r_code : dec; r_cells : list cell }.
Record rfile := RFile { r_n : Z; r_attrs : list (str * str); r_vars : list rvar }.

Record st := St {
  s_scales : list dec; s_miss : list (str * dec); s_units : list str; s_nsc : Z;
  s_last : option str; s_attrs : list (str * str); s_vars : option (list str)
}.
Definition upd_attr (k v : str) (s : st) : st :=
  St (s_scales s) (s_miss s) (s_units s) (s_nsc s) (s_last s) (set_attr k v (s_attrs s)) (s_vars s).
Definition upd_attr_last (k v : str) (s : st) : st :=
  St (s_scales s) (s_miss s) (s_units s) (s_nsc s) (Some k) (set_attr k v (s_attrs s)) (s_vars s).

Fixpoint all_some {A} (l : list (option A)) : option (list A) :=
  match l with
  | [] => Some []
  | Some x :: t => option_map (cons x) (all_some t)
  | None :: _ => None
  end.
(* [eval(i) for i in split(line)] with delim ',' *)
Definition eval_list (line : str) : option (list (str * dec)) :=
  all_some (map (fun t => option_map (pair (strip t)) (parse_num (strip t))) (split_on cCOMMA line)).

Definition nth_str (n : nat) (l : list str) : str := nth n l [].

(* Which branch of the if/elif chain of ffi1001.__init__ handles header line li, given the declared
   count n, the number of missing codes read so far (nm) and the special-comment count (nsc).
   Order of the tests is the order in the source. *)
Inductive lkind := K_fixed | K_scale | K_missing | K_desc | K_spcount | K_special | K_ucount | K_user | K_names | K_skip.
Definition classify (n nm nsc li : Z) : lkind :=
  if (2 <=? li) && (li <=? 9) then K_fixed
  else if li =? 11 then K_scale
  else if li =? 12 then K_missing
  else if (12 <? li) && (li <=? 12 + nm) then K_desc                       (* LAST_VAR_DESC_LINE = 12 + len(missing) *)
  else if li =? 12 + nm + 1 then K_spcount                                 (* SPECIAL_COMMENT_COUNT_LINE *)
  else if (12 + nm + 1 <? li) && (li <=? 12 + nm + 1 + nsc) then K_special
  else if li =? 12 + nm + 2 + nsc then K_ucount                            (* USER_COMMENT_COUNT_LINE *)
  else if (12 + nm + 2 + nsc <? li) && (li <? n) then K_user
  else if li =? n then K_names
  else K_skip.

(* parsers of single header lines *)
Definition parse_desc (line : str) : str * str :=
  let nameunit := split_on cCOMMA line in
  let name := strip (nth_str 0 nameunit) in
  let u := match nameunit with
           | _ :: u1 :: _ => strip u1
           | _ => (* no comma: "name_unit" or bare name (the "(unit)" form is not modelled) *)
               if has_char cUS name then strip (nth_str 1 (split_on cUS name)) else name
           end in
  (name, u).
Definition parse_names (line : str) : list str :=
  map (replace_char cSLASH cUS) (words (replace_char cCOMMA cSP line)).
Definition parse_user (line : str) : str * str :=
  match find_char cCOLON line with
  | Some p => (strip (firstn p line), strip (skipn (S p) line))
  | None => (strip line, strip line)          (* line[:-1] drops the newline *)
  end.

Definition set_units (u : list str) (s : st) : st :=
  St (s_scales s) (s_miss s) u (s_nsc s) (s_last s) (s_attrs s) (s_vars s).

(* one iteration of the header loop: li is the 1-based line number, [line] has no trailing newline *)
Definition step (n li : Z) (line : str) (s : st) : option st :=
  let nm := Z.of_nat (length (s_miss s)) in
  let scc := 12 + nm + 1 in
  match classify n nm (s_nsc s) li with
  | K_fixed =>
    if li =? 2 then Some (upd_attr (s2z "PI_NAME") (strip line) s)
    else if li =? 3 then Some (upd_attr (s2z "ORGANIZATION_NAME") (strip line) s)
    else if li =? 4 then Some (upd_attr (s2z "SOURCE_DESCRIPTION") (strip line) s)
    else if li =? 5 then Some (upd_attr (s2z "MISSION_NAME") (strip line) s)
    else if li =? 6 then Some (upd_attr (s2z "VOLUME_INFO") (join sep (map strip (split_on cCOMMA line))) s)
    else if li =? 7 then      (* date line: dates are trusted valid; SDATE / WDATE text not modelled *)
      Some (upd_attr (s2z "WDATE") (s2z "-") (upd_attr (s2z "SDATE") (s2z "-") s))
    else if li =? 8 then Some (upd_attr (s2z "TIME_INTERVAL") (strip line) s)
    else
      let unitstr := strip line in
      let parts := map strip (split_on cCOMMA unitstr) in
      let u := match parts with [_] => nth_str 0 parts | _ => nth_str 1 parts end in
      let s1 := upd_attr (s2z "INDEPENDENT_VARIABLE_DEFINITION") unitstr s in
      let s2 := upd_attr (s2z "INDEPENDENT_VARIABLE") (nth_str 0 parts) s1 in
      let s3 := upd_attr (s2z "INDEPENDENT_VARIABLE_UNITS") u s2 in
      Some (set_units (s_units s3 ++ [u]) s3)
  | K_scale =>
    match eval_list line with
    | Some sc => Some (St (map snd sc) (s_miss s) (s_units s) (s_nsc s) (s_last s) (s_attrs s) (s_vars s))
    | None => None
    end
  | K_missing =>
    match eval_list line with
    | Some ms => Some (St (s_scales s) ms (s_units s) (s_nsc s) (s_last s) (s_attrs s) (s_vars s))
    | None => None
    end
  | K_desc => Some (set_units (s_units s ++ [snd (parse_desc line)]) s)
  | K_spcount =>
    match parse_int line with
    | Some k => Some (St (s_scales s) (s_miss s) (s_units s) k (s_last s) (s_attrs s) (s_vars s))
    | None => None
    end
  | K_special =>
    let cont := match s_last s with
                | None => None
                | Some k => let old := match get_attr k (s_attrs s) with Some v => v | None => [] end in
                            Some (upd_attr_last k (old ++ rstrip line) s)
                end in
    match find_char cCOLON line with
    | None => if li =? scc + 1 then Some (upd_attr_last (s2z "SPECIAL_COMMENTS") (strip line) s) else cont
    | Some p =>
        match line with
        | 32 :: _ => cont
        | _ => Some (upd_attr_last (replace_char cSLASH cUS (strip (firstn p line))) (strip (skipn (S p) line)) s)
        end
    end
  | K_ucount => Some (St (s_scales s) (s_miss s) (s_units s) (s_nsc s) None (s_attrs s) (s_vars s))
  | K_user =>
    match line with
    | 32 :: _ =>
        match s_last s with
        | None => None                      (* getattr(self, None, '') : TypeError *)
        | Some k => let old := match get_attr k (s_attrs s) with Some v => v | None => [] end in
                    Some (upd_attr_last k (old ++ line ++ [cNL]) s)
        end
    | _ => let kv := parse_user line in Some (upd_attr_last (fst kv) (snd kv) s)
    end
  | K_names =>
    match parse_names line with
    | [] => None                            (* variables[0] : IndexError *)
    | v0 :: vs' => Some (St (s_scales s) (s_miss s) (s_units s) (s_nsc s) (s_last s)
                            (set_attr (s2z "TFLAG") v0 (s_attrs s)) (Some (v0 :: vs')))
    end
  | K_skip => Some s
  end.

Fixpoint run_header (n li : Z) (k : nat) (ls : list pline) (s : st) : option (st * list pline) :=
  match k with
  | O => Some (s, ls)
  | S k' =>
    match ls with
    | PT line :: t =>
        match step n li line s with
        | Some s' => run_header n (li + 1) k' t s'
        | None => None
        end
    | _ => None      (* data row or end of file inside the declared header: not produced by the writer *)
    end
  end.

(* genfromtxt on one physical data line: None = blank (skipped) *)
Definition data_row (l : pline) : option (list cell) :=
  match l with
  | PR cs => Some (map CV cs)
  | PT s => match strip s with
            | [] => None
            | _ => Some (map (fun _ => CN) (split_on cCOMMA s))     (* non-numeric text -> nan *)
            end
  end.

Fixpoint drop_trailing_blank (ls : list pline) : list pline :=
  match ls with
  | [] => []
  | l :: t => match drop_trailing_blank t, l with
              | [], PT [] => []
              | [], PT [32] => []
              | [], PT [13] => []
              | t', _ => l :: t'
              end
  end.

Fixpoint chunks {A} (fuel : nat) (w : nat) (l : list A) : list (list A) :=
  match fuel with
  | O => []
  | S k => match l with [] => [] | _ => firstn w l :: chunks k w (skipn w l) end
  end.

Fixpoint column {A} (i : nat) (rows : list (list A)) : list A :=
  match rows with
  | [] => []
  | r :: t => match nth_error r i with Some x => x :: column i t | None => column i t end
  end.

Definition cell_apply (scale miss : dec) (c : cell) : cell :=
  match c with
  | CV d => if dec_eqb d miss then CM else CV (dec_mul d scale)
  | CN => CN
  | CM => CM
  end.

Definition cell_is_nan (c : cell) : bool := match c with CN => true | _ => false end.

(* independent-variable values must be convertible to datetime (SDATE 2020-01-02 .. year 9999 / year 1);
   the harness keeps |t| <= 10^9 or >= 10^12; in between the model is not claimed faithful *)
Definition t_ok (c : cell) : bool :=
  match c with
  | CV d => let e := Z.min (de d) 0 in
            Z.abs (dm d) * 10 ^ (de d - e) <=? 10 ^ 10 * 10 ^ (0 - e)
  | CM => true
  | CN => false                   (* int(nan): ValueError *)
  end.
(* self.variables[self.TFLAG] is the LAST column carrying the first name; datetime conversion runs on the
   underlying data, masked or not *)
Fixpoint last_index (k : str) (names : list str) (i : nat) (acc : nat) : nat :=
  match names with
  | [] => acc
  | x :: t => last_index k t (S i) (if str_eqb x k then i else acc)
  end.

Definition has_attr (k : string) (l : list (str * str)) : bool :=
  match get_attr (s2z k) l with Some _ => true | None => false end.

Fixpoint build_vars (names : list str) (vi : nat) (scales : list dec) (miss : list (str * dec)) (units : list str)
                    (rows : list (list cell)) : option (list rvar) :=
  match names with
  | [] => Some []
  | nm :: t =>
    match nth_error scales vi, nth_error miss vi, nth_error units vi with
    | Some sc, Some ms, Some u =>
      match build_vars t (S vi) scales miss units rows with
      | Some rest => Some (RVar nm u (fst ms) (snd ms) (map (cell_apply sc (snd ms)) (column vi rows)) :: rest)
      | None => None
      end
    | _, _, _ => None
    end
  end.

(* duplicate names overwrite earlier dictionary entries, keeping the first position *)
Fixpoint dedup_vars (seen : list rvar) (l : list rvar) : list rvar :=
  match l with
  | [] => seen
  | v :: t =>
    let fix put (s : list rvar) : list rvar :=
      match s with
      | [] => [v]
      | w :: r => if str_eqb (r_name w) (r_name v) then v :: r else w :: put r
      end in
    dedup_vars (put seen) t
  end.

(* everything after the header loop: code/scale lists, genfromtxt, reshape, variables, time conversion *)
Definition read_data (n : Z) (s : st) (rest : list pline) : option rfile :=
    match s_vars s with
    | None => None                                      (* NameError: variables never assigned *)
    | Some names =>
      let miss := firstn 1 (s_miss s) ++ s_miss s in
      let scales := D 1 0 :: s_scales s in
      let dl := drop_trailing_blank rest in
      match dl with
      | [] => None                                      (* no data lines *)
      | _ =>
        let nd := length dl in
        let rows := flat_map (fun l => match data_row l with Some r => [r] | None => [] end) dl in
        match rows with
        | [] => None
        | r0 :: _ =>
          if negb (forallb (fun r => Nat.eqb (length r) (length r0)) rows) then None
          else
            let flat := concat rows in
            let nv := length names in
            if negb (Nat.eqb (length flat) (nd * nv)) then None      (* reshape *)
            else
              match build_vars names O scales miss (s_units s) (chunks nd nv flat) with
              | None => None                            (* IndexError *)
              | Some vs =>
                let vs' := dedup_vars [] vs in
                if forallb t_ok (column (last_index (nth_str 0 names) names 0 0) (chunks nd nv flat))
                then Some (RFile n (s_attrs s) vs') else None
              end
        end
      end
    end.

Definition s0_of (n : Z) : st :=
  St [] [] [] 0 None [(s2z "fmt", s2z "1001"); (s2z "n_header_lines", zstr n)] None.
Definition impl_read (n : Z) (ls : list pline) : option rfile :=
  match run_header n 2 (Z.to_nat (n - 1)) ls (s0_of n) with
  | None => None
  | Some (s, rest) => read_data n s rest
  end.

Definition impl_roundtrip (f : file) : option rfile :=
  match impl_write f with
  | Some (n, ls) => impl_read n ls
  | None => None
  end.

(* The file a second ncf2ffi1001 sees: attributes as set by the reader, every variable with
   units / missing_value = the evaluated code (str() of it is the token again) and fill_value = code *)
Definition has_nan (r : rfile) : bool := existsb (fun v => existsb cell_is_nan (r_cells v)) (r_vars r).
Definition to_var (v : rvar) : var :=
  Var (r_name v) (Some (r_units v)) (Some (r_code_s v)) (r_code v)
      (map (fun c => match c with CV d => Some d | _ => None end) (r_cells v)).
Definition to_file (r : rfile) : file := File (r_attrs r) (map to_var (r_vars r)).
Definition impl_second (f : file) : option rfile :=
  match impl_roundtrip f with
  | Some r => impl_roundtrip (to_file r)
  | None => None
  end.

(* ---------------------------------------------------------------- auto-detection *)
(* pncopen without format: the l100 reader is asked before ffi1001 and claims every file whose
   key line (the first line starting with 'Level', else the 28th) has at least 8 tokens equal to
   'Level Press Alt Pottp Temp FtempV Hum Ozone'. *)
Inductive reader_id := R_ffi1001 | R_l100.
Definition l100_names : list str := map s2z ["Level"; "Press"; "Alt"; "Pottp"; "Temp"; "FtempV"; "Hum"; "Ozone"]%string.
Fixpoint zip_all_eq (a b : list str) : bool :=
  match a, b with
  | x :: a', y :: b' => str_eqb x y && zip_all_eq a' b'
  | _, _ => true
  end.
Definition pline_words (l : pline) : list str :=
  match l with
  | PT s => words s
  | PR cs => map (fun _ => [48]) cs        (* numeric tokens, never equal to a name *)
  end.
(* ls = physical lines 2.. ; the 28th line of the file is index 26 *)
(* l100.isMine on its key line: at least 8 tokens, the first 8 being the L100 column names *)
Definition claims (l : pline) : bool :=
  (8 <=? Z.of_nat (length (pline_words l))) && zip_all_eq l100_names (pline_words l).
Fixpoint starts_with (p s : str) : bool :=
  match p, s with
  | [], _ => true
  | a :: p', b :: s' => (a =? b) && starts_with p' s'
  | _, [] => false
  end.
Definition is_level_line (l : pline) : bool :=
  match l with PT s => starts_with (s2z "Level") s | PR _ => false end.
(* l100._getmeta: the first of the first 100 lines that starts with 'Level', else the 28th line *)
Definition impl_detect (ls : list pline) : reader_id :=
  let key := match find is_level_line (firstn 99 ls) with
             | Some l => Some l
             | None => nth_error ls 26
             end in
  match key with
  | None => R_ffi1001                   (* no such line: no tokens, not claimed *)
  | Some l => if claims l then R_l100 else R_ffi1001
  end.

(* ---------------------------------------------------------------- specification *)
(* what the property demands of read(write f): independent variable first, then the dependent
   variables in file order; every variable keeps its own units and code; masked cells masked,
   unmasked cells equal to 7 significant digits *)
Definition spec_cell (c : option dec) : cell :=
  match c with None => CM | Some d => CV (fmt6e d) end.
Definition spec_var (v : var) : option rvar :=
  match v_units v with
  | Some u => match parse_num (code_str v) with
              | Some c => Some (RVar (v_name v) u (code_str v) c (map spec_cell (v_cells v)))
              | None => None
              end
  | None => None
  end.
Definition spec_roundtrip (f : file) : option (list rvar) :=
  match indep_name f with
  | None => None
  | Some ind => match find_var ind f with
                | None => None
                | Some iv => all_some (map spec_var (iv :: depvars ind f))
                end
  end.

Definition cell_eqb (a b : cell) : bool :=
  match a, b with
  | CM, CM => true | CN, CN => true
  | CV x, CV y => dec_ideq x y
  | _, _ => false
  end.
Definition rvar_eqb (a b : rvar) : bool :=
  str_eqb (r_name a) (r_name b) && str_eqb (r_units a) (r_units b)
  && dec_eqb (r_code a) (r_code b) && list_eqb cell_eqb (r_cells a) (r_cells b).
Definition rvars_eqb := list_eqb rvar_eqb.

(* ---------------------------------------------------------------- domain (booleans) *)
Definition no_nl (s : str) : bool := negb (has_char cNL s).
(* a clean token: non-empty, no whitespace, no comma, no slash *)
Definition clean_tok (s : str) : bool :=
  match s with [] => false | _ => forallb (fun c => negb (is_ws c) && negb (c =? cCOMMA) && negb (c =? cSLASH)) s end.
(* a unit string: no comma, no newline, survives strip() *)
Definition clean_unit (s : str) : bool := negb (has_char cCOMMA s) && no_nl s && stripped s.
(* a code string: parses, has no comma/blank *)
Definition clean_code (s : str) : bool :=
  match parse_num s with Some _ => true | None => false end
  && forallb (fun c => negb (is_ws c) && negb (c =? cCOMMA)) s.

Definition fixed_keys : list string :=
  ["PI_NAME"; "ORGANIZATION_NAME"; "SOURCE_DESCRIPTION"; "MISSION_NAME"; "VOLUME_INFO"; "SDATE"; "WDATE";
   "TIME_INTERVAL"; "INDEPENDENT_VARIABLE"]%string.

Definition ident_char (c : Z) : bool :=
  is_digit c || ((65 <=? c) && (c <=? 90)) || ((97 <=? c) && (c <=? 122)) || (c =? cUS).
Definition reserved_keys : list str := map s2z ["variables"; "dimensions"; "groups"]%string.
Definition key_ok (k : str) : bool :=
  match k with
  | [] => false
  | c :: _ => negb (c =? cUS) && forallb ident_char k && negb (in_strs k reserved_keys)
  end.
(* a variable name the ICARTT text can carry at all: non-empty, no blank, no comma *)
Definition name_ok (s : str) : bool :=
  match s with [] => false | _ => forallb (fun c => negb (is_ws c) && negb (c =? cCOMMA)) s end.
Fixpoint uniq (l : list str) : bool :=
  match l with [] => true | x :: t => negb (in_strs x t) && uniq t end.

(* |d| <= 10^k *)
Definition abs_le_pow10 (d : dec) (k : Z) : bool :=
  let e := Z.min (de d) 0 in
  Z.abs (dm d) * 10 ^ (de d - e) <=? 10 ^ k * 10 ^ (0 - e).

Definition opt_all {A} (p : A -> bool) (o : option A) : bool := match o with Some x => p x | None => true end.

(* the inputs the property quantifies over (everything else is the malformed stream) *)
Definition in_quant (f : file) : bool :=
  match indep_name f, get_attr (s2z "SDATE") (f_attrs f) with
  | Some ind, Some _ =>
    match find_var ind f with
    | Some iv =>
      let deps := depvars ind f in
      let nrec := length (v_cells iv) in
      forallb (fun kv => key_ok (fst kv)) (f_attrs f)
      && uniq (map fst (f_attrs f))
      && forallb (fun kv => negb (in_strs (fst kv) ignore_attrs) || no_nl (snd kv)) (f_attrs f)
      && forallb (fun v => name_ok (v_name v)) (f_vars f)
      && uniq (map v_name (f_vars f))
      && (1 <=? Z.of_nat (length deps)) && (1 <=? Z.of_nat nrec)
      && forallb (fun v => Nat.eqb (length (v_cells v)) nrec) (f_vars f)
      && forallb (fun d => abs_le_pow10 d 9) (filled iv)
      && forallb (fun v => opt_all no_nl (v_units v) && opt_all clean_code (v_code v)) (f_vars f)
      && forallb (fun v => forallb (fun x => match x with
                                             | Some d => negb (dec_eqb d (if str_eqb (v_name v) ind
                                                                          then match deps with w :: _ => code_val w | [] => D 0 0 end
                                                                          else code_val v))
                                             | None => true
                                             end) (v_cells v)) (f_vars f)
    | None => false
    end
  | _, _ => false
  end.

(* ---- known-defect regions (booleans on the input) *)
Definition reg_token (f : file) : bool :=
  existsb (fun v => has_char cSLASH (v_name v)
                    || match v_units v with Some u => negb (clean_unit u) | None => true end) (f_vars f).
(* the code the reader will use for a variable of the output: dependent variables their own,
   the independent variable the first dependent variable's *)
Definition first_dep_code (ind : str) (f : file) : dec :=
  match depvars ind f with v :: _ => code_val v | [] => D 0 0 end.
Definition reader_code (ind : str) (f : file) (v : var) : dec :=
  if str_eqb (v_name v) ind then first_dep_code ind f else code_val v.
Definition has_masked (v : var) : bool :=
  existsb (fun c => match c with None => true | Some _ => false end) (v_cells v).
(* a masked cell is written as '%.6e' % code: a code with more than 7 digits is not recognised again *)
Definition reg_longcode (f : file) : bool :=
  match indep_name f with
  | Some ind => existsb (fun v => has_masked v && negb (dec_eqb (fmt6e (code_val v)) (reader_code ind f v))) (f_vars f)
  | None => false
  end.
(* an unmasked value that differs from the code but prints like it *)
Definition reg_collide (f : file) : bool :=
  match indep_name f with
  | Some ind =>
      existsb (fun v => existsb (fun x => match x with
                                          | Some d => dec_eqb (fmt6e d) (reader_code ind f v)
                                          | None => false
                                          end) (v_cells v)) (f_vars f)
  | None => false
  end.
(* the text has no place for a missing code of the independent variable *)
Definition reg_indep (f : file) : bool :=
  match indep_name f with
  | Some ind =>
    match find_var ind f with
    | Some iv => negb (dec_eqb (code_val iv) (first_dep_code ind f))
    | None => false
    end
  | None => false
  end.
Definition total_lines (f : file) : Z :=
  match impl_write f with Some (_, ls) => 1 + Z.of_nat (length ls) | None => 0 end.

Definition region_of (f : file) : nat :=
  if negb (in_quant f) then 0%nat
  else if reg_token f then 4%nat
  else if reg_longcode f then 2%nat
  else if reg_collide f then 3%nat
  else if reg_indep f then 1%nat
  else 0%nat.

(* the domain on which the whole property is proved for the model *)
Definition dom (f : file) : bool := in_quant f && Nat.eqb (region_of f) 0.
