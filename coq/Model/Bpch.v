(* C18 — GEOS-Chem binary punch files (geoschemfiles/_bpch.py) at the 4-byte-word level.
   A bpch file is a sequence of Fortran records whose payloads are multiples of 4 bytes: two title
   records (40 and 80 characters) and then, per data block, a 36-byte model record, a 168-byte tracer
   record and a data record.  Files are lists of big-endian 32-bit words (Base/Words.v).
   spec side : content record `bfile`, encoder `enc` via records, record-walking decoder `dec`,
               `view_of` = what a reader should present, association-list table lookup.
   impl side : `impl_open`  = bpch1.__init__ + access of every tracer variable: header walk until the first
               tracer repeats, time_type strides, itemcount from the file size, assertions;
               field positions come from the TRANSLATED dtype literals (Gen/Bpch.v);
               `impl_write` = ncf2bpch with the translated pads; `impl_lookup` = the dict-based name/scale/unit lookup.
   Character strings (20/40/80 chars = 5/10/20 words) and float64 time stamps (2 words) are only moved.
   No proofs in this file. *)
From PNC Require Import Base.Util Base.Words Gen.Bpch.
From Coq Require Import String QArith.
Import Coq.Lists.List. Import ListNotations.
Local Open Scope Z_scope.

(* ---- content --------------------------------------------------------------------------------- *)
Record block := {
  b_model : list word;     (* 9 words: modelname(5) modelres(2) halfpolar center180 *)
  b_cat : list word;       (* 10 words: category, left justified, blank padded *)
  b_tid : Z;
  b_unit : list word;      (* 10 words *)
  b_tau : list word;       (* 4 words: tau0, tau1 as float64 *)
  b_resv : list word;      (* 10 words *)
  b_nx : Z; b_ny : Z; b_nz : Z;
  b_start : list word;     (* 3 words: I0 J0 L0 (1-based nested-grid offsets) *)
  b_data : list word       (* nz*ny*nx words *)
}.
Record bfile := {
  f_ftype : list word;               (* 10 words *)
  f_title : list word;               (* 20 words *)
  f_times : list (list block)        (* time blocks, each a list of data blocks *)
}.

Definition lenZ {A} (l : list A) : Z := Z.of_nat (length l).
Definition len_is {A} (n : Z) (l : list A) : bool := lenZ l =? n.

(* ---- spec encoder ---------------------------------------------------------------------------- *)
Definition h2_of (b : block) : record :=
  b_cat b ++ [b_tid b] ++ b_unit b ++ b_tau b ++ b_resv b ++ [b_nx b; b_ny b; b_nz b] ++ b_start b
  ++ [4 * lenZ (b_data b) + 8].
Definition block_records (b : block) : list record := [b_model b; h2_of b; b_data b].
Definition to_records (f : bfile) : list record :=
  [f_ftype f; f_title f] ++ concat (map block_records (concat (f_times f))).
Definition enc (f : bfile) : list word := frame (to_records f).

(* ---- spec decoder: walks the records, independent of the strides the library uses ------------- *)
Definition block_of_records (h1 h2 d : record) : option block :=
  if len_is 9 h1 && len_is 42 h2 && (nth 41 h2 0 =? 4 * lenZ d + 8) then
    Some {| b_model := h1; b_cat := firstn 10 h2; b_tid := nth 10 h2 0; b_unit := firstn 10 (skipn 11 h2);
            b_tau := firstn 4 (skipn 21 h2); b_resv := firstn 10 (skipn 25 h2);
            b_nx := nth 35 h2 0; b_ny := nth 36 h2 0; b_nz := nth 37 h2 0;
            b_start := firstn 3 (skipn 38 h2); b_data := d |}
  else None.
Fixpoint take_blocks (fuel : nat) (rs : list record) : option (list block) :=
  match rs with
  | [] => Some []
  | h1 :: h2 :: d :: rest =>
    match fuel with
    | O => None
    | S f => match block_of_records h1 h2 d, take_blocks f rest with
             | Some b, Some bs => Some (b :: bs)
             | _, _ => None
             end
    end
  | _ => None
  end.
(* result: title records and the flat list of data blocks, in file order *)
Definition dec (ws : list word) : option (list word * list word * list block) :=
  match unframe_all ws with
  | Some (ft :: ti :: body) =>
    if len_is 10 ft && len_is 20 ti then
      match take_blocks (S (length body)) body with Some bs => Some (ft, ti, bs) | None => None end
    else None
  | _ => None
  end.

Definition wf_block (b : block) : bool :=
  len_is 9 (b_model b) && len_is 10 (b_cat b) && len_is 10 (b_unit b) && len_is 4 (b_tau b)
  && len_is 10 (b_resv b) && len_is 3 (b_start b)
  && (0 <? b_nx b) && (0 <? b_ny b) && (0 <? b_nz b) && len_is (b_nz b * b_ny b * b_nx b) (b_data b).
(* enough for the codec: field widths *)
Definition wf_shape (f : bfile) : bool :=
  len_is 10 (f_ftype f) && len_is 20 (f_title f) && forallb wf_block (concat (f_times f)).

(* ---- tracerinfo.dat / diaginfo.dat -------------------------------------------------------------- *)
(* names and units of the tables are identified by their index in a string pool kept by the harness *)
Inductive tname := TName (i : Z) | TNum (n : Z).           (* table name | str(tracer id) *)
Inductive tunit := UTab (i : Z) | UHdr (w : list word).    (* table unit | the unit string of the header *)
Record tentry := { t_ord : Z; t_name : Z; t_scale : Q; t_unit : Z }.
Definition tinfo := list tentry.
Definition dinfo := list (list word * Z).                   (* category -> offset *)

(* SPEC lookup: the table entry whose number is offset(category) + tracer id *)
Definition spec_offset (D : dinfo) (cat : list word) : Z :=
  match find (fun p => zlist_eqb (fst p) cat) D with Some p => snd p | None => 0 end.
Definition spec_entry (T : tinfo) (D : dinfo) (cat : list word) (tid : Z) : option tentry :=
  find (fun e => t_ord e =? tid + spec_offset D cat) T.

(* what the reader should present for a tracer: name, SCALE and unit of that entry; when the table has no such
   line (adjoint-style files) the documented fallback: the name of the tracer with that number WITHOUT offset
   (else the number itself), scale 1, the unit string of the data block header *)
Definition spec_lookup (T : tinfo) (D : dinfo) (cat : list word) (tid : Z) (unit0 : list word) : tname * Q * tunit :=
  match spec_entry T D cat tid with
  | Some e => (TName (t_name e), t_scale e, UTab (t_unit e))
  | None => match find (fun e => t_ord e =? tid) T with
            | Some e => (TName (t_name e), 1%Q, UHdr unit0)
            | None => (TNum tid, 1%Q, UHdr unit0)
            end
  end.
(* table keys are unique *)
Fixpoint nodupb {A} (eqb : A -> A -> bool) (l : list A) : bool :=
  match l with [] => true | x :: t => negb (existsb (eqb x) t) && nodupb eqb t end.
Definition tables_ok (T : tinfo) (D : dinfo) : bool :=
  nodupb Z.eqb (map t_ord T) && nodupb zlist_eqb (map fst D).

(* IMPL lookup: both files are read into Python dicts line by line (a later line overwrites an earlier one) *)
Definition dict_get {A} (key : A -> bool) (l : list A) : option A := find key (rev l).
Definition impl_offset (D : dinfo) (cat : list word) : Z :=
  match dict_get (fun p => zlist_eqb (fst p) cat) D with Some p => snd p | None => 0 end.
Definition impl_lookup (T : tinfo) (D : dinfo) (cat : list word) (tid : Z) (unit0 : list word) : tname * Q * tunit :=
  match dict_get (fun e => t_ord e =? tid + impl_offset D cat) T with
  | Some e => (TName (t_name e), t_scale e, UTab (t_unit e))
  | None =>   (* "no tracerinfo line": name of the tracer with that number without offset, scale 1, header unit *)
    match dict_get (fun e => t_ord e =? tid) T with
    | Some e => (TName (t_name e), 1%Q, UHdr unit0)
    | None => (TNum tid, 1%Q, UHdr unit0)
    end
  end.

(* ---- what a reader presents ------------------------------------------------------------------- *)
Record var := {
  v_cat : list word; v_name : tname; v_tid : Z; v_unit0 : list word; v_resv : list word;
  v_nx : Z; v_ny : Z; v_nz : Z; v_start : list word;       (* STARTI+1, STARTJ+1, STARTK+1 *)
  v_scale : Q; v_unit : tunit
}.
Record view := {
  r_ftype : list word; r_title : list word;
  r_model : list word;                   (* modelname modelres halfpolar center180 of the FIRST block *)
  r_nx : Z; r_ny : Z;                    (* longitude / latitude dimensions: dims of the FIRST block *)
  r_vars : list var;
  r_taus : list (list word);             (* per time block: tau0 tau1 (4 words) of the FIRST tracer *)
  r_data : list (list (list word))       (* [time][tracer] -> raw data words *)
}.
Inductive result (A : Type) := Ok (a : A) | Err.
Arguments Ok {A} a. Arguments Err {A}.

Definition var_of (T : tinfo) (D : dinfo) (b : block) : var :=
  let l := spec_lookup T D (b_cat b) (b_tid b) (b_unit b) in
  {| v_cat := b_cat b; v_name := fst (fst l); v_tid := b_tid b; v_unit0 := b_unit b; v_resv := b_resv b;
     v_nx := b_nx b; v_ny := b_ny b; v_nz := b_nz b; v_start := b_start b;
     v_scale := snd (fst l); v_unit := snd l |}.
Definition hd_block (tb : list block) : block :=
  hd {| b_model := []; b_cat := []; b_tid := 0; b_unit := []; b_tau := []; b_resv := [];
        b_nx := 0; b_ny := 0; b_nz := 0; b_start := []; b_data := [] |} tb.
Definition tb0 (f : bfile) : list block := hd [] (f_times f).
Definition view_of (T : tinfo) (D : dinfo) (f : bfile) : view :=
  {| r_ftype := f_ftype f; r_title := f_title f; r_model := b_model (hd_block (tb0 f));
     r_nx := b_nx (hd_block (tb0 f)); r_ny := b_ny (hd_block (tb0 f));
     r_vars := map (var_of T D) (tb0 f);
     r_taus := map (fun tb => b_tau (hd_block tb)) (f_times f);
     r_data := map (map b_data) (f_times f) |}.

(* ---- impl: bpch1 ------------------------------------------------------------------------------ *)
Definition woff (d : list (string * Z * Z)) (f : string) : nat :=
  match dtype_offset d f with Some o => Z.to_nat (o / 4) | None => O end.
Definition getw (ws : list word) (i : nat) : word := nth i ws 0.
Definition ght := bp_general_header_type.
Definition dht := bp_datablock_header_type.
Definition ght_words : nat := Z.to_nat (dtype_itemsize ght / 4).   (* 34 *)
Definition dht_words : nat := Z.to_nat (dtype_itemsize dht / 4).   (* 55 *)

Record phdr := {
  p_model : list word; p_cat : list word; p_tid : Z; p_unit : list word; p_tau : list word;
  p_resv : list word; p_nx : Z; p_ny : Z; p_nz : Z; p_start : list word; p_skip : Z
}.
(* a structured view of dht over the words starting at ws *)
Definition parse_hdr (ws : list word) : phdr :=
  {| p_model := firstn 9 (skipn (woff dht "f1") ws);
     p_cat := firstn 10 (skipn (woff dht "f7") ws);
     p_tid := getw ws (woff dht "f8");
     p_unit := firstn 10 (skipn (woff dht "f9") ws);
     p_tau := firstn 4 (skipn (woff dht "f10") ws);
     p_resv := firstn 10 (skipn (woff dht "f12") ws);
     p_nx := getw ws (woff dht "f13"); p_ny := getw ws (S (woff dht "f13")); p_nz := getw ws (S (S (woff dht "f13")));
     p_start := firstn 3 (skipn (woff dht "f14") ws);
     p_skip := getw ws (woff dht "f15") |}.

Record entry := { e_cat : list word; e_name : tname; e_n : Z }.   (* key = (category, name); n data words *)
(* data_type = dtype('>i4, (nz,ny,nx)>f4, >i4'); assert data_type.itemsize == header[-2] *)
Definition mk_entry (T : tinfo) (D : dinfo) (h : phdr) : option entry :=
  if (0 <? p_nx h) && (0 <? p_ny h) && (0 <? p_nz h) && (4 * (p_nz h * p_ny h * p_nx h) + 8 =? p_skip h) then
    Some {| e_cat := p_cat h; e_name := fst (fst (impl_lookup T D (p_cat h) (p_tid h) (p_unit h)));
            e_n := p_nz h * p_ny h * p_nx h |}
  else None.

(* skipn with a Z count (no huge unary numbers when the count exceeds the list) *)
Definition skipnZ (n : Z) (l : list word) : list word :=
  if lenZ l <=? n then [] else skipn (Z.to_nat n) l.

(* The header walk. rest = the file from the current offset on; rem = file_size - offset in BYTES.
     while first_header is None or offset < file_size:
        header = memmap(offset, dht)             -- needs offset + 220 <= file_size
        offset += 220 + header[-2]
        if first_header is None: first_header = header
        elif same (category, tracer) as first_header or offset == file_size:
            if offset == file_size and not same (category, tracer) as first_header: <add entry>
            break
        <add entry>
   The model handles skips that are non-negative multiples of 4 (others: Err; never generated). *)
Fixpoint walk (fuel : nat) (T : tinfo) (D : dinfo) (rest : list word) (rem : Z)
              (first : option (list word * Z)) : result (list entry) :=
  match fuel with
  | O => Err
  | S f =>
    if rem <? dtype_itemsize dht then Err else
    let h := parse_hdr rest in
    let sk := p_skip h in
    if (sk <? 0) || negb (sk mod 4 =? 0) then Err else
    let rem' := rem - dtype_itemsize dht - sk in
    let rest' := skipnZ (Z.of_nat dht_words + sk / 4) rest in
    let continue (fst' : option (list word * Z)) :=
      match mk_entry T D h with
      | None => Err
      | Some e => if 0 <? rem' then
                    match walk f T D rest' rem' fst' with Ok l => Ok (e :: l) | Err => Err end
                  else Ok [e]
      end in
    match first with
    | None => continue (Some (p_cat h, p_tid h))
    | Some (c0, t0) =>
      let same := zlist_eqb (p_cat h) c0 && (p_tid h =? t0) in
      if same || (rem' =? 0) then
        if (rem' =? 0) && negb same then match mk_entry T D h with Some e => Ok [e] | None => Err end
        else Ok []
      else continue first
    end
  end.

Definition tname_eqb (a b : tname) : bool :=
  match a, b with TName i, TName j => i =? j | TNum i, TNum j => i =? j | _, _ => false end.
Definition key_eqb (a b : entry) : bool := zlist_eqb (e_cat a) (e_cat b) && tname_eqb (e_name a) (e_name b).
Fixpoint nodup_keys (es : list entry) : bool :=
  match es with [] => true | e :: t => negb (existsb (key_eqb e) t) && nodup_keys t end.

Definition seg_wordsZ (e : entry) : Z := Z.of_nat dht_words + 2 + e_n e.
Definition seg_words (e : entry) : nat := Z.to_nat (seg_wordsZ e).
Fixpoint split_sizes (ns : list nat) (l : list word) : list (list word) :=
  match ns with [] => [] | n :: t => firstn n l :: split_sizes t (skipn n l) end.

(* one (header, data) item of time_type *)
Record pblock := { q_hdr : phdr; q_m0 : word; q_data : list word; q_m2 : word }.
Definition parse_block (e : entry) (seg : list word) : pblock :=
  {| q_hdr := parse_hdr seg; q_m0 := getw seg dht_words;
     q_data := firstn (Z.to_nat (e_n e)) (skipn (S dht_words) seg); q_m2 := getw seg (S dht_words + Z.to_nat (e_n e)) |}.
Definition parse_time (es : list entry) (tb : list word) : list pblock :=
  map (fun p => parse_block (fst p) (snd p)) (combine es (split_sizes (map seg_words es) tb)).

Definition same_ids (a b : list pblock) : bool :=
  list_eqb (fun x y => zlist_eqb (p_cat (q_hdr x)) (p_cat (q_hdr y)) && (p_tid (q_hdr x) =? p_tid (q_hdr y))) a b.
Definition var_of_hdr (T : tinfo) (D : dinfo) (h : phdr) : var :=
  let l := impl_lookup T D (p_cat h) (p_tid h) (p_unit h) in
  {| v_cat := p_cat h; v_name := fst (fst l); v_tid := p_tid h; v_unit0 := p_unit h; v_resv := p_resv h;
     v_nx := p_nx h; v_ny := p_ny h; v_nz := p_nz h; v_start := p_start h;
     v_scale := snd (fst l); v_unit := snd l |}.
Definition hd_pblock (l : list pblock) : phdr :=
  match l with q :: _ => q_hdr q | [] => parse_hdr [] end.

(* bpch1(path, tracerinfo, diaginfo) followed by reading every tracer variable, time_bounds and the global
   attributes.  ws = the whole words of the file, size = its length in bytes. *)
Definition impl_open (T : tinfo) (D : dinfo) (ws : list word) (size : Z) : result view :=
  (* fromfile(count=_first_header_size) viewed as the two header dtypes *)
  if size <? bp_first_header_size (dtype_itemsize ght) (dtype_itemsize dht) then Err else
  (* "Verify that all Fortran unformatted buffers match": only the title record markers, pairwise *)
  if negb ((getw ws (woff ght "f0") =? getw ws (woff ght "f2")) && (getw ws (woff ght "f3") =? getw ws (woff ght "f5"))) then Err else
  let body := skipn ght_words ws in
  let h0 := parse_hdr body in
  match walk (S (length ws)) T D body (size - bp_walk_start (dtype_itemsize ght)) None with
  | Err => Err
  | Ok es =>
    if negb (nodup_keys es) then Err else                       (* dtype(): field occurs more than once *)
    let tsz := fold_right (fun e a => seg_wordsZ e + a) 0 es in
    (* itemcount = int((float(size) - 136) // time_type.itemsize) *)
    let cnt := (size - dtype_itemsize ght) / (4 * tsz) in
    if cnt <=? 0 then Err else                                  (* empty map: tid[0] raises *)
    match chunks (Z.to_nat tsz) (firstn (Z.to_nat (cnt * tsz)) body) with
    | None => Err
    | Some tbs =>
      let pbs := map (parse_time es) tbs in
      let pb0 := hd [] pbs in
      (* assert (tid[0] == tid).all(); assert (gn[0] == gn).all() *)
      if negb (forallb (same_ids pb0) pbs) then Err else
      (* max(layerns) > Ap.size only warns *)
      (* variable access: assert (data['f0'] == data['f2']).all() *)
      if negb (forallb (forallb (fun q => q_m0 q =? q_m2 q)) pbs) then Err else
      Ok {| r_ftype := firstn 10 (skipn (woff ght "f1") ws); r_title := firstn 20 (skipn (woff ght "f4") ws);
            r_model := p_model h0; r_nx := p_nx h0; r_ny := p_ny h0;
            r_vars := map (fun q => var_of_hdr T D (q_hdr q)) pb0;
            r_taus := map (fun pb => p_tau (hd_pblock pb)) pbs;
            r_data := map (map q_data) pbs |}
    end
  end.

(* ---- impl: ncf2bpch (noscale) ------------------------------------------------------------------- *)
(* per variable and time: header from the FILE attributes (model), the variable attributes
   (category, tracerid, base_units, reserved, STARTI/J/K), the time block's tau0/tau1, the data shape *)
Definition write_block (model tau : list word) (v : var) (d : list word) : list word :=
  let n := 4 * (v_nz v * v_ny v * v_nx v) in   (* tdv['SPAD1'] = np.prod(vals.shape) * 4 *)
  [bw_hpad1] ++ model ++ [bw_hepad1; bw_hpad2]
  ++ v_cat v ++ [v_tid v] ++ v_unit0 v ++ tau ++ v_resv v ++ [v_nx v; v_ny v; v_nz v] ++ v_start v ++ [bw_skip n]
  ++ [bw_hepad2] ++ [n] ++ d ++ [n].
Definition write_time (model : list word) (vs : list var) (p : list word * list (list word)) : list word :=
  concat (map (fun vd => write_block model (fst p) (fst vd) (snd vd)) (combine vs (snd p))).
Definition impl_write (v : view) : list word :=
  [bw_gpad1] ++ r_ftype v ++ [bw_gepad1; bw_gpad2] ++ r_title v ++ [bw_gepad2]
  ++ concat (map (write_time (r_model v) (r_vars v)) (combine (r_taus v) (r_data v))).

(* ---- the domain: bpch-convention files ---------------------------------------------------------- *)
Definition meta_eqb (a b : block) : bool :=
  zlist_eqb (b_model a) (b_model b) && zlist_eqb (b_cat a) (b_cat b) && (b_tid a =? b_tid b)
  && zlist_eqb (b_unit a) (b_unit b) && zlist_eqb (b_resv a) (b_resv b)
  && (b_nx a =? b_nx b) && (b_ny a =? b_ny b) && (b_nz a =? b_nz b) && zlist_eqb (b_start a) (b_start b).
Definition id_eqb (a b : block) : bool := zlist_eqb (b_cat a) (b_cat b) && (b_tid a =? b_tid b).
Definition entry_of (T : tinfo) (D : dinfo) (b : block) : entry :=
  {| e_cat := b_cat b; e_name := fst (fst (spec_lookup T D (b_cat b) (b_tid b) (b_unit b)));
     e_n := b_nz b * b_ny b * b_nx b |}.
(* no two time blocks carry the same time stamp: the format identifies a data block by (category, tracer, tau0) *)
Definition taus_distinct (f : bfile) : bool :=
  nodupb zlist_eqb (map (fun tb => b_tau (hd_block tb)) (f_times f)).
(* every time block repeats the tracers of the first one (same metadata), one model grid per file, one
   time stamp per time block and different stamps on different time blocks, no tracer twice in a time block,
   distinct variable names *)
Definition wf (T : tinfo) (D : dinfo) (f : bfile) : bool :=
  wf_shape f
  && match f_times f with
     | [] => false
     | t0 :: _ =>
       match t0 with
       | [] => false
       | b0 :: rest0 =>
         forallb (fun tb => list_eqb meta_eqb tb t0) (f_times f)
         && forallb (fun b => zlist_eqb (b_model b) (b_model b0)) t0
         && forallb (fun tb => forallb (fun b => zlist_eqb (b_tau b) (b_tau (hd_block tb))) tb) (f_times f)
         && negb (existsb (id_eqb b0) rest0)
         && nodup_keys (map (entry_of T D) t0)
         && taus_distinct f
       end
     end.

(* ---- scaled reading: values are raw * SCALE; exact binary32 value of a word -------------------- *)
Definition b32_val (w : word) : option Q :=
  let s := w / 2147483648 in let e := (w / 8388608) mod 256 in let m := w mod 8388608 in
  if (w <? 0) || (4294967296 <=? w) || (e =? 255) then None else
  let mant := if e =? 0 then m else m + 8388608 in
  let ex := (if e =? 0 then 1 else e) - 150 in
  let mag := if 0 <=? ex then inject_Z (mant * 2 ^ ex) else (mant # Z.to_pos (2 ^ (- ex))) in
  Some (if s =? 1 then Qopp mag else mag).
(* out is the binary32 number raw * scale, exactly *)
Definition scaled_ok (scale : Q) (raw out : word) : bool :=
  match b32_val raw, b32_val out with
  | Some a, Some b => Qeq_bool b (a * scale)
  | _, _ => false
  end.

(* ---- prefixes (C14 for bpch): what a cut file may legitimately present ----------------------------- *)
(* words of one data block / one time block in the encoding: 55 header words + 2 markers + data *)
Definition tb_wordsZ (tb : list block) : Z := fold_right (fun b a => 57 + lenZ (b_data b) + a) 0 tb.
(* the first k time blocks only *)
Definition trunc_times (k : nat) (f : bfile) : bfile :=
  {| f_ftype := f_ftype f; f_title := f_title f; f_times := firstn k (f_times f) |}.
(* a single time block holding only the first j tracers of the first time block *)
Definition first_tracers (j : nat) (f : bfile) : bfile :=
  {| f_ftype := f_ftype f; f_title := f_title f; f_times := [firstn j (tb0 f)] |}.

(* ---- impl: bpch2 (geoschemfiles/_newbpch.py, as repaired by a06c03f and 78b5b3f) ------------------------------------ *)
(* The block-walking reader: no marker check, no time_type; it walks EVERY data block header
      while offset < size: hdr = data[offset:offset+220].view(dht); key = category + '_' + str(tracerid)
                           outpos.setdefault(key, OrderedDict())[(tau0, tau1)] = offset, offset+220+skip, dim
                           offset += skip + 220
   and presents, per key in order of first appearance, the data of all blocks with that key (a later block with the
   same (tau0, tau1) replaces the earlier one).  tracerinfo/diaginfo are arrays of rows: FIRST matching row, bpch1's
   fallbacks for missing rows.  Modelled for skips that are non-negative multiples of 4 and blocks whose dims agree with skip
   (others: Err; only well-formed files are driven through bpch2). *)
Definition firstnZ (n : Z) (l : list word) : list word :=
  if lenZ l <=? n then l else firstn (Z.to_nat n) l.

Definition blk2 := (phdr * list word)%type.      (* header, the words data[start:end] *)
Fixpoint walk2 (fuel : nat) (rest : list word) (rem : Z) : result (list blk2) :=
  match fuel with
  | O => Err
  | S f =>
    if rem <=? 0 then Ok [] else
    if rem <? dtype_itemsize dht then Err else           (* a short slice cannot be viewed as dht *)
    let h := parse_hdr rest in
    let sk := p_skip h in
    if (sk <? 0) || negb (sk mod 4 =? 0) then Err else
    let n := Z.of_nat dht_words + sk / 4 in
    match walk2 f (skipnZ n rest) (rem - dtype_itemsize dht - sk) with
    | Ok l => Ok ((h, firstnZ n rest) :: l)
    | Err => Err
    end
  end.

Definition key2 (b : blk2) : list word * Z := (p_cat (fst b), p_tid (fst b)).
Definition key2_eqb (a b : list word * Z) : bool := zlist_eqb (fst a) (fst b) && (snd a =? snd b).
(* keys in order of first appearance (dict insertion order) *)
Definition keys2 (bs : list blk2) : list (list word * Z) :=
  fold_left (fun acc b => if existsb (key2_eqb (key2 b)) acc then acc else acc ++ [key2 b]) bs [].
(* inner OrderedDict keyed by (tau0, tau1): assignment to an existing key keeps its position *)
Fixpoint tau_set (b : blk2) (l : list blk2) : list blk2 :=
  match l with
  | [] => [b]
  | x :: r => if zlist_eqb (p_tau (fst x)) (p_tau (fst b)) then b :: r else x :: tau_set b r
  end.
Definition group2 (k : list word * Z) (bs : list blk2) : list blk2 :=
  fold_left (fun l b => tau_set b l) (filter (fun b => key2_eqb (key2 b) k) bs) [].

(* table rows in file order, FIRST match; as repaired by 78b5b3f a missing diaginfo line means offset 0 and a missing
   tracerinfo line for offset+id means the name of the tracer with that id (else the id), scale 1, the header unit:
   this is exactly the association `spec_lookup` *)
Definition lookup2 (T : tinfo) (D : dinfo) (cat : list word) (tid : Z) (unit0 : list word) : tname * Q * tunit :=
  spec_lookup T D cat tid unit0.

Record view2 := {
  s_ftype : list word; s_title : list word;
  s_vars : list var;                      (* v_resv = [] : bpch2 does not present `reserved` *)
  s_taus : list (list word);              (* tau0 tau1 of the blocks of the FIRST variable *)
  s_data : list (list (list word))        (* [variable][time] -> raw data words *)
}.

Definition hdr_dims_n (h : phdr) : Z := p_nz h * p_ny h * p_nx h.
(* one variable: attributes from its FIRST block, data of all its blocks viewed with the dims of the LAST one *)
Definition var2 (T : tinfo) (D : dinfo) (g : list blk2) : option (var * list (list word)) :=
  match g with
  | [] => None
  | (h0, _) :: _ =>
    let n := hdr_dims_n (fst (last g (h0, []))) in
    let l := lookup2 T D (p_cat h0) (p_tid h0) (p_unit h0) in
      if (0 <? p_nx h0) && (0 <? p_ny h0) && (0 <? p_nz h0) && (0 <? n)
         && forallb (fun b => (lenZ (snd b) =? Z.of_nat dht_words + 2 + n) && (p_skip (fst b) =? 4 * n + 8)
                              && (hdr_dims_n (fst b) =? n)) g
      then Some ({| v_cat := p_cat h0; v_name := fst (fst l); v_tid := p_tid h0; v_unit0 := p_unit h0; v_resv := [];
                    v_nx := p_nx h0; v_ny := p_ny h0; v_nz := p_nz h0; v_start := p_start h0;
                    v_scale := snd (fst l); v_unit := snd l |},
                 map (fun b => firstn (Z.to_nat n) (skipn (S dht_words) (snd b))) g)
      else None
  end.
Fixpoint all_some {A} (l : list (option A)) : option (list A) :=
  match l with
  | [] => Some []
  | Some x :: r => match all_some r with Some xs => Some (x :: xs) | None => None end
  | None :: _ => None
  end.

Definition impl_bpch2 (T : tinfo) (D : dinfo) (ws : list word) (size : Z) : result view2 :=
  if size <? dtype_itemsize ght then Err else
  match walk2 (S (length ws)) (skipn ght_words ws) (size - dtype_itemsize ght) with
  | Err => Err
  | Ok bs =>
    match bs with
    | [] => Err                                           (* tmp_hdr undefined *)
    | _ =>
      let gs := map (fun k => group2 k bs) (keys2 bs) in
      match all_some (map (var2 T D) gs) with
      | None => Err
      | Some vds =>
        Ok {| s_ftype := firstn 10 (skipn (woff ght "f1") ws); s_title := firstn 20 (skipn (woff ght "f4") ws);
              s_vars := map fst vds;
              s_taus := map (fun b => p_tau (fst b)) (hd [] gs);
              s_data := map snd vds |}
      end
    end
  end.

(* ---- reader agreement (clause 4) ------------------------------------------------------------------------- *)
Definition no_resv (v : var) : var :=
  {| v_cat := v_cat v; v_name := v_name v; v_tid := v_tid v; v_unit0 := v_unit0 v; v_resv := [];
     v_nx := v_nx v; v_ny := v_ny v; v_nz := v_nz v; v_start := v_start v; v_scale := v_scale v; v_unit := v_unit v |}.
Definition var_key_eqb (a b : var) : bool := zlist_eqb (v_cat a) (v_cat b) && (v_tid a =? v_tid b).
(* the data bpch1 presents for variable v: per time block, the entries at the positions of the variables with v's ids *)
Definition data_of_var (v1 : view) (v : var) : list (list word) :=
  concat (map (fun row => map snd (filter (fun p => var_key_eqb (fst p) v) (combine (r_vars v1) row))) (r_data v1)).
(* bpch2 presents the same variables (ids, names, units, scale, dims, offsets), time stamps and data as bpch1 *)
Definition readers_agree (v1 : view) (v2 : view2) : Prop :=
  s_ftype v2 = r_ftype v1 /\ s_title v2 = r_title v1
  /\ s_vars v2 = map no_resv (r_vars v1)
  /\ s_taus v2 = r_taus v1
  /\ s_data v2 = map (data_of_var v1) (r_vars v1).
