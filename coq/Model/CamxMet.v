(* Record payloads of the meteorological and boundary CAMx formats, as the format descriptions give them
   (CAMx User's Guide: `hour, idate, ((v(i,j),i=1,nx),j=1,ny)` per record; boundary files: edge definition
   records and per species/edge data records). Used to tie the writers' pad expressions (translated, Gen/Camx.v)
   to the framing model of Base/Words.v. The contents themselves are compared by the correspondence. *)
From PNC Require Import Base.Util Base.Words.
Local Open Scope Z_scope.

Definition met_rec (t d : Z) (data : list Z) : list Z := t :: d :: data.
Definition wind_hdr_rec (t d lstag : Z) : list Z := [t; d; lstag].
Definition lb_edge_rec (iedge nb : Z) (cells : list Z) : list Z := 1 :: iedge :: nb :: cells.
Definition lb_data_rec (name : list Z) (iedge : Z) (data : list Z) : list Z := 1 :: name ++ iedge :: data.

(* per time step record lists *)
Definition temperature_step (t d : Z) (sfc : list Z) (air : list (list Z)) : list (list Z) :=
  met_rec t d sfc :: map (met_rec t d) air.
Definition one3d_step (t d : Z) (lays : list (list Z)) : list (list Z) := map (met_rec t d) lays.
Definition hp_step (t d : Z) (hp : list (list Z * list Z)) : list (list Z) :=
  concat (map (fun p => [met_rec t d (fst p); met_rec t d (snd p)]) hp).
Definition wind_step (t d lstag zero : Z) (uv : list (list Z * list Z)) : list (list Z) :=
  wind_hdr_rec t d lstag :: concat (map (fun p => [fst p; snd p]) uv) ++ [[zero]].
