(* C05 (closing is local) — the netCDF handle table as a state machine.
   netCDF-C keeps a table of open files; nc_open hands out the SMALLEST free slot (ncid = slot * 65536);
   nc_close(ncid) closes whatever currently sits in that slot, or fails (NC_EBADID) if the slot is free.
   A Python object (core/_files.py class netcdf, a netCDF4.Dataset) remembers its ncid and a flag _isopen.
   Primitive events:
     Open f   : netcdf(path of disk file f)            -> new object, id = number of objects created before
     Close o  : o.close()  — also what the finaliser does: netcdf.__del__ calls self.close() unconditionally
   Every interleaving of open / close / drop-reference / gc.collect() is a sequence of these (dropping a reference
   has no effect on the table until the finaliser runs, and the finaliser is Close).
   impl_* = the code since the repair C05-close-isopen-guard: netcdf.close returns at once when `not self.isopen()`,
            otherwise Dataset.close -> nc_close(self._grpid) and _isopen = 0; netcdf.__del__ calls self.close()
            (before the repair close / __del__ called nc_close on the remembered id unconditionally and could close a
            slot that had been handed to another object; that model was retired with the fix).
   The property is a statement about the states impl_run reaches (all_valid / read).  No proofs in this file. *)
From PNC Require Import Base.Util.

Record obj := Obj { o_ncid : nat; o_file : nat; o_open : bool }.
Definition table := list (nat * nat).                       (* open slots: (slot, disk file) *)
Record state := St { tbl : table; objs : list obj }.
Inductive prim := Open (f : nat) | Close (o : nat).

Definition st0 : state := St [] [].

Fixpoint lookup (n : nat) (t : table) : option nat :=
  match t with [] => None | (k, f) :: r => if Nat.eqb k n then Some f else lookup n r end.
Definition slot_open (n : nat) (t : table) : bool :=
  match lookup n t with Some _ => true | None => false end.
Definition remove (n : nat) (t : table) : table :=
  filter (fun kf => negb (Nat.eqb (fst kf) n)) t.

(* smallest free slot >= 1; the fallback (one above the largest slot in use) is never needed but keeps the
   function total without a pigeonhole argument *)
Definition first_free (t : table) : nat :=
  match filter (fun k => negb (slot_open k t)) (seq 1 (S (length t))) with
  | k :: _ => k
  | [] => S (fold_right Nat.max 0 (map fst t))
  end.

Fixpoint set_nth {A} (l : list A) (i : nat) (x : A) : list A :=
  match l, i with
  | [], _ => []
  | _ :: t, O => x :: t
  | y :: t, S j => y :: set_nth t j x
  end.

Definition do_open (st : state) (f : nat) : state :=
  let n := first_free (tbl st) in St ((n, f) :: tbl st) (objs st ++ [Obj n f true]).

Definition impl_step (st : state) (e : prim) : state :=
  match e with
  | Open f => do_open st f
  | Close o =>
      match nth_error (objs st) o with
      | None => st
      | Some ob =>
          if o_open ob                                     (* `if not self.isopen(): return` *)
          then St (remove (o_ncid ob) (tbl st)) (set_nth (objs st) o (Obj (o_ncid ob) (o_file ob) false))
          else st
      end
  end.

Definition impl_run (h : list prim) : state := fold_left impl_step h st0.

(* what reading a variable through object o returns: the disk file whose data comes back, or None = "Not a valid ID" *)
Definition read (st : state) (o : nat) : option nat :=
  match nth_error (objs st) o with
  | Some ob => lookup (o_ncid ob) (tbl st)
  | None => None
  end.

(* the property on one state: every object the program has not closed reads its own file *)
Definition all_valid (st : state) : bool :=
  forallb (fun ob => negb (o_open ob) || option_eqb Nat.eqb (lookup (o_ncid ob) (tbl st)) (Some (o_file ob))) (objs st).

(* observation after a group of events: for the listed (still referenced) objects, what a read returns *)
Definition reads (st : state) (os : list nat) : list (option nat) := map (read st) os.

(* ---- files derived from a disk-backed object ------------------------------------------------------------------
   g = o.copy() / o.subsetVariables(..) / o.sliceDimensions(..) / o.mask(..) / ... : an in-memory file built from what o
   reads at that moment (every variable through copyVariable, every dimension through copyDimension).  It owns no handle and
   holds no reference to o's dimension or variable objects, so USING it later (reading every variable, len() of every
   dimension, saving it) does not touch the handle table.  Derived files are numbered in creation order. *)
Inductive hev := P (e : prim) | Derive (o : nat).

Definition dstate := (state * list (option nat))%type.   (* handle state, and per derived file: the disk file whose data it holds
                                                            (None: the derivation itself failed because o was not readable) *)
Definition dstep (ds : dstate) (e : hev) : dstate :=
  match e with
  | P p => (impl_step (fst ds) p, snd ds)
  | Derive o => (fst ds, snd ds ++ [read (fst ds) o])
  end.
Definition drun (h : list hev) : dstate := fold_left dstep h (st0, []).

(* what using derived file d returns after the history: the data it was built from *)
Definition use (ds : dstate) (d : nat) : option nat :=
  match nth_error (snd ds) d with Some x => x | None => None end.

Fixpoint prims_of (h : list hev) : list prim :=
  match h with [] => [] | P p :: t => p :: prims_of t | Derive _ :: t => prims_of t end.
