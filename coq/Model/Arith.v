(* C06 — file arithmetic (core/_functions.py pncbo via PseudoNetCDFFile.__add__ ...) and
   PseudoNetCDFFile.mask (core/_files.py), AFTER the fixes C06-pncbo-keep-masks,
   C06-mask-dims-list and C06-mask-int-values.  Executable model only, elementwise over the
   row-major cells (so for every shape).  The scalar arithmetic itself is NOT modelled: per
   cell the harness supplies numpy's elementwise result on the raw data (r); the model decides
   where masks go.  No proofs in this file. *)
From PNC Require Import Base.Util.
Require Import QArith Qabs.
Local Open Scope Q_scope.

(* a stored value: finite rational, +inf, -inf, nan *)
Inductive rv := Fin (q : Q) | PInf | NInf | NaN.
Definition nonfin (x : rv) : bool := match x with Fin _ => false | _ => true end.
Definition ocell := option rv.                     (* observable cell: None = masked *)

(* numpy.ma.masked_invalid(x.view(ndarray)) on one value *)
Definition to_cell (x : rv) : ocell := if nonfin x then None else Some x.

(* ---- binary operators ------------------------------------------------------------ *)
Record bcell := BC {
  m1 : bool; m2 : bool;        (* operand masks *)
  b0 : bool;                   (* right operand's raw value is zero *)
  r : rv                       (* numpy elementwise result on the raw data *)
}.

(* operator class: 0 = + - * and comparisons; 1 = / // % (numpy.ma domained); 2 = pow.
   What numpy.ma masks when one of the operands is masked-typed: the operand masks, and for the
   domained operators a zero divisor or a non-finite result. *)
Definition ma_masks (cls : nat) (c : bcell) : bool :=
  m1 c || m2 c ||
  match cls with
  | O => false
  | S O => b0 c || nonfin (r c)
  | _ => nonfin (r c)
  end.

(* pncbo: outval = eval('in1var[...] op in2var[...]').view(np.ma.MaskedArray);
   outval = np.ma.masked_where(~np.isfinite(np.ma.getdata(outval)), outval).
   is_ma = one of the two variables is masked-typed: numpy.ma computes and masks (ma_masks); the
   view keeps that mask and masked_where adds the cells whose data are non-finite.  Plain
   operands: numpy computes, the view has no mask, masked_where masks the non-finite cells.
   (Under a cell masked by numpy.ma the data are a finite filler or the raw result; either way
   the cell is masked, so the observable outcome is the one below.) *)
Definition impl_cell (is_ma : bool) (cls : nat) (c : bcell) : ocell :=
  if is_ma && ma_masks cls c then None else to_cell (r c).

(* the property (masked-array semantics): masked where an operand is masked or the result is
   non-finite, else the elementwise result; for masked-typed operands numpy.ma additionally
   masks a zero divisor of / // % (this only matters for integers, where numpy returns 0) *)
Definition spec_cell (is_ma : bool) (cls : nat) (c : bcell) : ocell :=
  if m1 c || m2 c then None
  else if is_ma && (cls =? 1)%nat && b0 c then None
  else to_cell (r c).

(* well-formed input: only masked-typed variables carry masked cells *)
Definition wf_cell (is_ma : bool) (c : bcell) : bool := is_ma || negb (m1 c || m2 c).

Record bvar := BV {
  bname : nat;
  bma : bool;                          (* either operand variable is masked-typed *)
  bleft : list ocell;                  (* the left operand's observable data *)
  bpair : option (list bcell)          (* None: the variable is absent from the right file *)
}.

Definition is_coord (coords : list nat) (v : bvar) : bool := existsb (Nat.eqb (bname v)) coords.

Definition binop_var (cellf : bool -> bcell -> ocell) (coords : list nat) (v : bvar) : list ocell :=
  if is_coord coords v then bleft v
  else match bpair v with
       | None => bleft v                         (* warn + copy *)
       | Some cs => map (cellf (bma v)) cs
       end.
Definition impl_binop (cls : nat) (coords : list nat) (vs : list bvar) : list (list ocell) :=
  map (binop_var (fun ma => impl_cell ma cls) coords) vs.
Definition spec_binop (cls : nat) (coords : list nat) (vs : list bvar) : list (list ocell) :=
  map (binop_var (fun ma => spec_cell ma cls) coords) vs.

Definition wf_var (v : bvar) : bool :=
  match bpair v with None => true | Some cs => forallb (wf_cell (bma v)) cs end.

(* ---- mask() ---------------------------------------------------------------------- *)
Record mcell := MC { raw : rv; msk : bool }.
Definition visible (c : mcell) : ocell := if msk c then None else Some (raw c).

Record preds := Preds {
  p_greater : option Q; p_greater_equal : option Q; p_less : option Q; p_less_equal : option Q;
  p_values : option Q; p_equal : option Q; p_invalid : bool
}.

Definition rv_gt (x : rv) (g : Q) : bool :=
  match x with Fin a => negb (Qle_bool a g) | PInf => true | _ => false end.
Definition rv_ge (x : rv) (g : Q) : bool :=
  match x with Fin a => Qle_bool g a | PInf => true | _ => false end.
Definition rv_lt (x : rv) (g : Q) : bool :=
  match x with Fin a => negb (Qle_bool g a) | NInf => true | _ => false end.
Definition rv_le (x : rv) (g : Q) : bool :=
  match x with Fin a => Qle_bool a g | NInf => true | _ => false end.
Definition rv_eq (x : rv) (g : Q) : bool := match x with Fin a => Qeq_bool a g | _ => false end.
(* numpy.isclose(x, v, rtol=1e-5, atol=1e-8) for floating data, exact equality for integers *)
Definition rv_close (isfloat : bool) (x : rv) (v : Q) : bool :=
  match x with
  | Fin a => if isfloat then Qle_bool (Qabs (a - v)) ((1 # 100000000) + (1 # 100000) * Qabs v)
             else Qeq_bool a v
  | _ => false
  end.
Definition opt_test {A} (t : A -> bool) (o : option A) : bool := match o with Some g => t g | None => false end.

Definition pred_hit (p : preds) (isfloat : bool) (x : rv) : bool :=
  opt_test (rv_gt x) (p_greater p) || opt_test (rv_ge x) (p_greater_equal p)
  || opt_test (rv_lt x) (p_less p) || opt_test (rv_le x) (p_less_equal p)
  || opt_test (rv_close isfloat x) (p_values p) || opt_test (rv_eq x) (p_equal p)
  || (p_invalid p && nonfin x).

(* the `where` argument: a plain boolean array (no .dimensions), optional dims= argument (any
   iterable of names: the code compares tuple(dims) with the variable's dimensions) *)
Record wherearg := WA { w_shape : list nat; w_bits : list bool; w_dims : option (list nat) }.
Record mvar := MV { mname : nat; mfloat : bool; mdims : list nat; mshape : list nat; mcells : list mcell }.

(* maskdims == vv.dimensions or (maskdims is None and where.shape == vals.shape) *)
Definition applies (w : wherearg) (v : mvar) : bool :=
  match w_dims w with
  | Some ds => list_eqb Nat.eqb ds (mdims v)
  | None => list_eqb Nat.eqb (w_shape w) (mshape v)
  end.

(* the property for one cell: masked iff it was, or the where bit is set, or a predicate holds;
   the value is not touched *)
Definition spec_mcell (p : preds) (isfloat : bool) (wb : bool) (c : mcell) : mcell :=
  MC (raw c) (msk c || wb || pred_hit p isfloat (raw c)).

(* the code: the numpy.ma.masked_* chain in the order where, greater, greater_equal, less,
   less_equal, values, equal, invalid; every step ORs its comparison on the data into the mask
   (values=: the comparison is made on the data and added with masked_where) *)
Definition impl_mcell (p : preds) (isfloat : bool) (wb : bool) (c : mcell) : mcell :=
  let x := raw c in
  let m0 := msk c || wb in
  let m1 := m0 || opt_test (rv_gt x) (p_greater p) in
  let m2 := m1 || opt_test (rv_ge x) (p_greater_equal p) in
  let m3 := m2 || opt_test (rv_lt x) (p_less p) in
  let m4 := m3 || opt_test (rv_le x) (p_less_equal p) in
  let m5 := m4 || opt_test (rv_close isfloat x) (p_values p) in
  let m6 := m5 || opt_test (rv_eq x) (p_equal p) in
  MC x (m6 || (p_invalid p && nonfin x)).

Fixpoint zip_mask (cellf : bool -> mcell -> mcell) (bits : option (list bool)) (cs : list mcell) : list mcell :=
  match cs with
  | [] => []
  | c :: t =>
      let wb := match bits with Some (b :: _) => b | _ => false end in
      let rest := match bits with Some (_ :: bt) => Some bt | _ => None end in
      cellf wb c :: zip_mask cellf rest t
  end.

Inductive mres := MOk (cells : list (list ocell)) | MIndexError.

Definition mask_var (cellf : preds -> bool -> bool -> mcell -> mcell) (coords : list nat) (with_coords : bool)
           (w : option wherearg) (p : preds) (v : mvar) : option (list mcell) :=
  if existsb (Nat.eqb (mname v)) coords && negb with_coords then Some (mcells v)
  else match w with
       | Some wa =>
           if applies wa v then
             if list_eqb Nat.eqb (w_shape wa) (mshape v) then Some (zip_mask (cellf p (mfloat v)) (Some (w_bits wa)) (mcells v))
             else None                                (* numpy.ma.masked_where: IndexError *)
           else Some (zip_mask (cellf p (mfloat v)) None (mcells v))
       | None => Some (zip_mask (cellf p (mfloat v)) None (mcells v))
       end.

Fixpoint all_some {A} (l : list (option A)) : option (list A) :=
  match l with
  | [] => Some []
  | Some x :: t => match all_some t with Some r => Some (x :: r) | None => None end
  | None :: _ => None
  end.

Definition mask_file cellf coords with_coords w p (vs : list mvar) : mres :=
  match all_some (map (mask_var cellf coords with_coords w p) vs) with
  | Some r => MOk (map (map visible) r)
  | None => MIndexError
  end.
Definition impl_mask := mask_file impl_mcell.
Definition spec_mask := mask_file spec_mcell.


(* ---- what the model transcribes from the source (tie T: compared with Gen/C06Src.v, which
   harness/props/c06.py translate() re-reads from core/_files.py and core/_functions.py) ------ *)
Require Import String.
Local Open Scope string_scope.

(* PseudoNetCDFFile.__op__(self, lhs) = pncbo(op=<symbol>, ifile1=self, ifile2=lhs, coordkeys=self._operator_exclude_vars) *)
Definition model_ops : list (string * string) :=
  [("__add__", "+"); ("__sub__", "-"); ("__mul__", "*"); ("__truediv__", "/"); ("__floordiv__", "//");
   ("__pow__", "**"); ("__and__", "&"); ("__or__", "|"); ("__xor__", "^"); ("__mod__", "%");
   ("__lt__", "<"); ("__gt__", ">"); ("__eq__", "=="); ("__le__", "<="); ("__ge__", ">="); ("__ne__", "!=")].

(* operator class used by impl_cell (numpy.ma domained operators / power / the rest) *)
Definition op_cls (op : string) : nat :=
  if (op =? "/") || (op =? "//") || (op =? "%") then 1%nat else if op =? "**" then 2%nat else 0%nat.

(* mask(): the chain inside the variable loop, in order: (keyword tested, numpy.ma function, arguments) *)
Definition model_chain : list (string * (string * string)) :=
  [("where", ("masked_where", "where, vals"));
   ("greater", ("masked_greater", "vals, greater"));
   ("greater_equal", ("masked_greater_equal", "vals, greater_equal"));
   ("less", ("masked_less", "vals, less"));
   ("less_equal", ("masked_less_equal", "vals, less_equal"));
   ("values", ("masked_values+masked_where", "np.ma.getdata(vals), values"));
   ("equal", ("masked_equal", "vals, equal"));
   ("invalid", ("masked_invalid", "vals"))].

(* pncbo: the statements impl_binop / impl_cell stand for *)
Record pncbo_src := PSrc {
  ps_expr : bool;        (* eval('in1var[...] %s in2var[...]' % op): left operand first, the operator between *)
  ps_view_ma : bool;     (* .view(np.ma.MaskedArray): operand masks survive *)
  ps_nonfinite : bool;   (* np.ma.masked_where(~np.isfinite(np.ma.getdata(outval)), outval) *)
  ps_coord_left : bool;  (* if k in coordkeys: tmpfile.copyVariable(in1var, key=k) *)
  ps_missing_left : bool;(* elif k not in ifile2.variables.keys(): ... tmpfile.copyVariable(in1var, key=k) *)
  ps_loop_left : bool    (* for k in ifile1.variables.keys(): result variables = left file's, in its order *)
}.
Definition model_pncbo : pncbo_src := PSrc true true true true true true.

(* mask(): statements around the chain *)
Record mask_src := MSrc {
  ms_dims_tuple : bool;     (* maskdims = tuple(dims) *)
  ms_applies : bool;        (* maskdims == vv.dimensions or (maskdims is None and where.shape == vals.shape) *)
  ms_coords_skip : bool;    (* if vk in coordkeys and not coords: newvar[...] = vv[...]; continue *)
  ms_assign : bool          (* newvar[...] = vals[...] *)
}.
Definition model_mask : mask_src := MSrc true true true true.

(* one result cell of pncbo as a function of what the source says *)
Definition generic_cell (s : pncbo_src) (is_ma : bool) (cls : nat) (c : bcell) : ocell :=
  if ps_view_ma s && is_ma && ma_masks cls c then None
  else if ps_nonfinite s then to_cell (r c) else Some (r c).
