(* C11 — IOAPI subsetting (cmaqfiles/_ioapi.py ioapi_base.sliceDimensions): how XORIG/YORIG, VGLVLS and
   SDATE/STIME/TSTEP are recomputed for a window given per dimension as an int or a unit-stride slice.
   Executable definitions only.  Coordinates are integers in a dyadic unit chosen by the caller (binary64 /
   binary32 exact); instants are seconds since 1970-01-01T00:00:00Z. *)
From PNC Require Import Base.Util Base.Calendar.
Local Open Scope Z_scope.

(* a window on one dimension: Python int (negative counts from the end) or slice(a, b) *)
Inductive sel := SInt (i : Z) | SSlice (a b : option Z).

(* slice.indices(n) for step 1 *)
Definition clamp_idx (n : Z) (x : option Z) (dflt : Z) : Z :=
  match x with
  | None => dflt
  | Some v => if v <? 0 then Z.max 0 (v + n) else Z.min v n
  end.
(* np.arange(n)[sel]: (first index, count); None = IndexError *)
Definition sel_range (n : Z) (s : sel) : option (Z * Z) :=
  match s with
  | SInt i => if (- n <=? i) && (i <? n) then Some (if i <? 0 then i + n else i, 1) else None
  | SSlice a b => let st := clamp_idx n a 0 in let sp := clamp_idx n b n in Some (st, Z.max 0 (sp - st))
  end.

(* XORIG += np.arange(ncol)[sel].take(0) * XCELL   (take(0) of an empty selection raises) *)
Definition impl_slice_origin (orig cell n : Z) (s : option sel) : option Z :=
  match s with
  | None => Some orig
  | Some s => match sel_range n s with
              | Some (st, cnt) => if cnt =? 0 then None else Some (orig + st * cell)
              | None => None
              end
  end.

(* lidx = arange(nlvls - 1)[sel]; VGLVLS[lidx] ++ [VGLVLS[lidx[-1] + 1]] *)
Definition impl_slice_vglvls (lv : list Z) (s : option sel) : option (list Z) :=
  match s with
  | None => Some lv
  | Some s => match sel_range (Z.of_nat (length lv) - 1) s with
              | Some (st, cnt) => if cnt =? 0 then None
                                  else Some (firstn (Z.to_nat (cnt + 1)) (skipn (Z.to_nat st) lv))
              | None => None
              end
  end.

(* times = getTimes()[sel]; SDATE/STIME = strftime of times[0];
   when more than one step: dtsec = (times[1]-times[0]).total_seconds();
   TSTEP = dtsec // 3600 * 10000 + dtsec % 3600 // 60 * 100 + dtsec % 60   (HHHMMSS, hours unbounded;
   repaired by fixes/C11-slice-tstep-ge-24h.patch -- before, strftime('%H%M%S') dropped whole days) *)
Definition impl_slice_time (t0 tstep n : Z) (sdate stime : Z) (s : option sel) : option (Z * Z * Z) :=
  match s with
  | None => Some (sdate, stime, tstep)
  | Some s => match sel_range n s with
              | Some (st, cnt) =>
                  if cnt =? 0 then None else
                  let '(d, h) := flag_of_sec (t0 + st * sec_of_hhmmss tstep) in
                  Some (d, h, if 1 <? cnt then hhmmss_of_sec (sec_of_hhmmss tstep) else tstep)
              | None => None
              end
  end.

(* the retained range of a dimension (None selector = everything) *)
Definition win_range (n : Z) (s : option sel) : option (Z * Z) :=
  match s with None => Some (0, n) | Some s => sel_range n s end.

Fixpoint iotaZ (i : Z) (n : nat) : list Z := match n with O => [] | S m => i :: iotaZ (i + 1) m end.
(* decoded instants of the window: the TFLAG rows are sliced like any other variable *)
Definition impl_window_times (t0 tstep n : Z) (s : option sel) : option (list Z) :=
  match win_range n s with
  | Some (st, cnt) => Some (map (fun j => t0 + (st + j) * sec_of_hhmmss tstep) (iotaZ 0 (Z.to_nat cnt)))
  | None => None
  end.

Record grid := Grid { g_xorig : Z; g_yorig : Z; g_xcell : Z; g_ycell : Z; g_lv : list Z;
                      g_sdate : Z; g_stime : Z; g_tstep : Z;
                      g_nt : Z; g_nr : Z; g_nc : Z }.
Record window := Win { w_t : option sel; w_l : option sel; w_r : option sel; w_c : option sel }.
Record outmeta := Out { o_xorig : Z; o_yorig : Z; o_lv : list Z; o_sdate : Z; o_stime : Z; o_tstep : Z;
                        o_times : list Z }.

Definition impl_window (g : grid) (w : window) : option outmeta :=
  let t0 := sec_of_flag (g_sdate g) (g_stime g) in
  match impl_slice_origin (g_xorig g) (g_xcell g) (g_nc g) (w_c w),
        impl_slice_origin (g_yorig g) (g_ycell g) (g_nr g) (w_r w),
        impl_slice_vglvls (g_lv g) (w_l w),
        impl_slice_time t0 (g_tstep g) (g_nt g) (g_sdate g) (g_stime g) (w_t w),
        impl_window_times t0 (g_tstep g) (g_nt g) (w_t w) with
  | Some x, Some y, Some lv, Some (d, h, ts), Some tms => Some (Out x y lv d h ts tms)
  | _, _, _, _, _ => None
  end.

(* ---- specification side *)
(* x coordinate of the left edge of cell j *)
Definition edge (orig cell j : Z) : Z := orig + j * cell.
(* instants implied by start date/time/step attributes *)
Definition attr_time (sdate stime tstep j : Z) : Z := sec_of_flag sdate stime + j * sec_of_hhmmss tstep.

Definition valid_grid_time (g : grid) : bool :=
  let '(y, j) := yj_of_yyyyjjj (g_sdate g) in
  valid_yj y j && valid_hhmmss (g_stime g) && valid_step (g_tstep g).
