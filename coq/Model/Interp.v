(* C17 — coordutil.getinterpweights / sigma2coeff and their application
   (core/_files.py interpDimension, cmaqfiles/_ioapi.py interpSigma).
   Exact model over Z: coordinates are integers in a dyadic unit; a weight column is a list
   of numerators over one common positive denominator.  No proofs here. *)
From PNC Require Import Base.Util Gen.InterpSrc.
Local Open Scope Z_scope.

Fixpoint diffs (l : list Z) : list Z :=
  match l with a :: ((b :: _) as t) => (b - a) :: diffs t | _ => [] end.
Definition asc (l : list Z) : bool := forallb (fun d => 0 <? d) (diffs l).
Definition desc (l : list Z) : bool := forallb (fun d => d <? 0) (diffs l).
Fixpoint dot (a b : list Z) : Z :=
  match a, b with x :: a', y :: b' => x * y + dot a' b' | _, _ => 0 end.

(* ---- getinterpweights ------------------------------------------------------------------ *)
(* scipy interp1d(kind='linear', fill_value='extrapolate') applied to the identity matrix:
   for a target x the segment is (k-1, k) with k = searchsorted(xs, x) clipped to 1..n-1, i.e.
   the first segment whose right end is >= x, else the last one; the column of weights is the
   hat function of that segment (negative when extrapolating).  xs ascending, >= 2 points.
   Result: numerators and the common denominator (the segment length). *)
Fixpoint hat (x : Z) (xs : list Z) : list Z * Z :=
  match xs with
  | x0 :: ((x1 :: t') as t) =>
      match t' with
      | [] => ([x1 - x; x - x0], x1 - x0)
      | _ => if x <=? x1 then ((x1 - x) :: (x - x0) :: repeat 0 (length t'), x1 - x0)
             else let (w, d) := hat x t in (0 :: w, d)
      end
  | _ => ([], 0)
  end.

(* one column of getinterpweights(xs, nxs, extrapolate=...) ; None = a column of NaN.
   interp1d sorts a descending xs first.  A single source level: NaN weights from interp1d,
   unless the source has the guard `if np.size(xs) == 1: return np.ones(...)` — which of the
   two the code does is read off the source on every run (Gen.InterpSrc.single_level_ones). *)
Definition impl_weights_gen (one_level_ones : bool) (extrap : bool) (xs : list Z) (x : Z)
  : option (list Z * Z) :=
  match xs with
  | [] => None
  | [_] => if one_level_ones then Some ([1], 1) else None
  | _ =>
    let dsc := desc xs in
    let (w0, d) := hat x (if dsc then rev xs else xs) in
    let w := if dsc then rev w0 else w0 in
    if extrap then Some (w, d)
    else let c := map (Z.max 0) w in Some (c, sumZ c)     (* maximum(0, w); w /= w.sum(0) *)
  end.
Definition impl_weights := impl_weights_gen single_level_ones.

(* application along a dimension: (weights * data[:, None]).sum(0), numerator over the same
   denominator *)
Definition apply_col (wd : list Z * Z) (data : list Z) : Z * Z := (dot (fst wd) data, snd wd).

(* ---- sigma2coeff ------------------------------------------------------------------------- *)
(* fractional (source-edge) index of value v on descending edges fr:
   (layer j, p, d) meaning j + p/d with 0 <= p < d; np.interp clamps outside *)
Fixpoint fidx (v : Z) (k : Z) (fr : list Z) : Z * Z * Z :=
  match fr with
  | f0 :: ((f1 :: _) as t) =>
      if f0 <=? v then (k, 0, 1)
      else if f1 <? v then (k, f0 - v, f0 - f1)
      else fidx v (k + 1) t
  | _ => (k, 0, 1)
  end.

Definition thick (fr : list Z) : list Z := map Z.opp (diffs fr).     (* -diff(vglvls) *)

(* coeff[lay, li] * thickness(lay) for one target layer (b, t) and one source layer:
   for lay in range(floor b, ceil t): tf - bf with bf = max(b - lay, 0), tf = min(t - lay, 1) *)
Definition cnum (b t : Z * Z * Z) (lay D : Z) : Z :=
  let '(jb, pb, _) := b in let '(jt, pt, _) := t in
  let ul := if 0 <? pt then jt + 1 else jt in
  if (jb <=? lay) && (lay <? ul) then
    (if lay =? jt then pt else D) - (if lay =? jb then pb else 0)
  else 0.

Fixpoint zseq (k : Z) (n : nat) : list Z :=
  match n with O => [] | S n' => k :: zseq (k + 1) n' end.

(* rows = source layers, columns = target layers: numerators of coeff over the source layer's
   thickness, i.e. fdp = dp_in * coeff *)
Definition impl_fdp (fr to : list Z) : list (list Z) :=
  let es := map (fun v => fidx v 0 fr) to in
  let bt := combine es (tl es) in
  map (fun ld => map (fun p => cnum (fst p) (snd p) (fst ld) (snd ld)) bt)
      (combine (zseq 0 (length (thick fr))) (thick fr)).

(* what the property demands: the length of the overlap of source layer and target layer *)
Definition layers (es : list Z) : list (Z * Z) := combine es (tl es).   (* (upper, lower) *)
Definition overlap (a b : Z * Z) : Z := Z.max 0 (Z.min (fst a) (fst b) - Z.max (snd a) (snd b)).
Definition spec_fdp (fr to : list Z) : list (list Z) :=
  map (fun a => map (overlap a) (layers to)) (layers fr).

(* column sums of a matrix given as list of rows *)
Fixpoint zipadd (a b : list Z) : list Z :=
  match a, b with x :: a', y :: b' => (x + y) :: zipadd a' b' | _, _ => [] end.
Fixpoint colsums (n : nat) (m : list (list Z)) : list Z :=
  match m with [] => repeat 0 n | r :: m' => zipadd r (colsums n m') end.
Definition scale_rows (v : list Z) (m : list (list Z)) : list (list Z) :=
  map (fun p => map (Z.mul (fst p)) (snd p)) (combine v m).

(* interpSigma('conserve'): nvals[li] = sum_lay data[lay]*fdp[lay,li] / ndp[li]; returned as
   (numerators, denominators ndp) *)
Definition impl_conserve (fdp : list (list Z)) (ncol : nat) (data : list Z) : list Z * list Z :=
  (colsums ncol (scale_rows data fdp), colsums ncol fdp).

(* d at position k, 0 elsewhere (a column of d * identity) *)
Fixpoint unitv (k n : nat) (d : Z) : list Z :=
  match n with
  | O => []
  | S n' => match k with O => d :: repeat 0 n' | S k' => 0 :: unitv k' n' d end
  end.

(* strictly monotonic in either direction; smallest / largest end *)
Definition mono (xs : list Z) : Prop := asc xs = true \/ desc xs = true.
Definition lo_of (xs : list Z) : Z := Z.min (hd 0 xs) (last xs 0).
Definition hi_of (xs : list Z) : Z := Z.max (hd 0 xs) (last xs 0).
