(* CAMx CLOUD / RAIN files at the 4-byte-word level.
   spec side : published layout: a header record  cldhdr (20 characters = 5 words), nxcl, nycl, nzcl ; per time step a record
               hour (HHMM binary32), idate (YYJJJ)  followed, per layer, by one record per field of nx*ny values:
                 before CAMx 4.3 : cloud water, precipitation water, optical depth        (3 fields: CLOUD, PRECIP, COD)
                 since  CAMx 4.3 : cloud water, rain, snow, graupel, optical depth        (5 fields: CLOUD, RAIN, SNOW, GRAUPEL, COD)
               (what harness/camxfmt.py `records` writes for cloud_rain). The file does not say which layout it has.
   impl side : the memory-mapped reader camxfiles/cloud_rain/Memmap.py: offset = first marker + 8; nx, ny, nz from the three
               words before the header's end marker; the LAYOUT IS GUESSED FROM THE FILE SIZE:
                   for nvars in [5, 3, 5]: timesize = nvars * nlays * (nrows * ncols + 2) * 4 + 16
                                           if datasize % timesize == 0: break
               ntimes = datasize // timesize; __init__ reads TFLAG at once, which runs __var_get: the reshape of the whole
               map to (ntimes, words per step) (ValueError unless the sizes fit), TFLAG from words 1, 2 of every step, the
               fields, and the check that the two markers of EVERY record (time records included) agree ("Buffer").
               HAND-MODELLED throughout (struct / numpy calls; outside translate/py2coq.py's subset).
               Headers with a first marker that is not a multiple of 4 or with non-positive counts are answered Err without
               claim (no theorem and no generated case depends on it).
   No proofs here. *)
From PNC Require Import Base.Util Base.Words Gen.Camx Model.Uamiv.
Import Coq.Lists.List. Import ListNotations.
Local Open Scope Z_scope.

Record cstep := CStep { cs_time : word; cs_date : word; cs_lays : list (list (list word)) }.   (* [k][v] -> nx*ny cells *)
Record cloudrain := {
  c_desc : list word;           (* 5 words: 20 characters, four per word *)
  c_nx : Z; c_ny : Z; c_nz : Z;
  c_nvars : Z;                  (* 3 or 5 *)
  c_steps : list cstep
}.

(* ---- spec encoder ------------------------------------------------------------------------------ *)
Definition c_step_records (s : cstep) : list record := [cs_time s; cs_date s] :: concat (cs_lays s).
Definition c_to_records (c : cloudrain) : list record :=
  (c_desc c ++ [c_nx c; c_ny c; c_nz c]) :: concat (map c_step_records (c_steps c)).
Definition c_enc (c : cloudrain) : list word := frame (c_to_records c).

(* ---- spec decoder (record walking; the number of fields per layer is given) ------------------------ *)
Fixpoint c_take_recs (n : nat) (ncell : Z) (rs : list record) : option (list (list word) * list record) :=
  match n with
  | O => Some ([], rs)
  | S n' =>
    match rs with
    | r :: rs' => if Z.of_nat (length r) =? ncell then
                    match c_take_recs n' ncell rs' with Some (l, rest) => Some (r :: l, rest) | None => None end
                  else None
    | [] => None
    end
  end.
Fixpoint c_take_lays (nz nv : nat) (ncell : Z) (rs : list record) : option (list (list (list word)) * list record) :=
  match nz with
  | O => Some ([], rs)
  | S nz' =>
    match c_take_recs nv ncell rs with
    | Some (l, rest) => match c_take_lays nz' nv ncell rest with Some (ls, rest') => Some (l :: ls, rest') | None => None end
    | None => None
    end
  end.
Fixpoint c_take_steps (fuel nz nv : nat) (ncell : Z) (rs : list record) : option (list cstep) :=
  match rs with
  | [] => Some []
  | [t; d] :: rs' =>
    match fuel with
    | O => None
    | S f =>
      match c_take_lays nz nv ncell rs' with
      | Some (ls, rest) => match c_take_steps f nz nv ncell rest with Some sts => Some (CStep t d ls :: sts) | None => None end
      | None => None
      end
    end
  | _ => None
  end.
Definition c_dec (nvars : Z) (ws : list word) : option cloudrain :=
  match unframe_all ws with
  | Some (h :: rs) =>
    if Z.of_nat (length h) =? 8 then
      let nx := nth 5 h 0 in let ny := nth 6 h 0 in let nz := nth 7 h 0 in
      if (0 <? nx) && (0 <? ny) && (0 <? nz) && ((nvars =? 3) || (nvars =? 5)) then
        match c_take_steps (S (length rs)) (Z.to_nat nz) (Z.to_nat nvars) (nx * ny) rs with
        | Some sts => Some {| c_desc := firstn 5 h; c_nx := nx; c_ny := ny; c_nz := nz; c_nvars := nvars; c_steps := sts |}
        | None => None
        end
      else None
    else None
  | _ => None
  end.

(* ---- well-formedness ---------------------------------------------------------------------------- *)
Definition c_wf_step (c : cloudrain) (s : cstep) : bool :=
  len_is (c_nz c) (cs_lays s)
  && forallb (fun l => len_is (c_nvars c) l && forallb (len_is (c_nx c * c_ny c)) l) (cs_lays s).
Definition c_wf (c : cloudrain) : bool :=
  len_is 5 (c_desc c) && (0 <? c_nx c) && (0 <? c_ny c) && (0 <? c_nz c) && ((c_nvars c =? 3) || (c_nvars c =? 5))
  && forallb (c_wf_step c) (c_steps c).

(* sizes in BYTES *)
Definition c_lay_bytes (c : cloudrain) : Z := c_nz c * (c_nx c * c_ny c + 2) * 4.        (* one field of every layer *)
Definition c_timesize (c : cloudrain) (nv : Z) : Z := nv * c_lay_bytes c + 16.
Definition c_step_bytes (c : cloudrain) : Z := c_timesize c (c_nvars c).
Definition c_hdr_bytes : Z := 40.

(* ---- impl: the memory-mapped reader ---------------------------------------------------------------- *)
Record cview := {
  cv_nx : Z; cv_ny : Z; cv_nz : Z; cv_ntimes : Z; cv_nvars : Z;
  cv_stamps : list (Z * Z);
  cv_data : list (list (list (list word)))           (* [t][k][v] -> rows*cols words *)
}.

Definition cr_marks_ok (rws : list (list word)) : bool := forallb (fun r => hd 0 r =? last r 0) rws.
Definition cr_cells (r : list word) : list word := removelast (tl r).

(* one time block: the time record (4 words) then nlays * nvars records of rc + 2 words *)
Definition cr_block (rc nlays nvars : Z) (blk : list word) : option ((Z * Z) * list (list (list word))) :=
  match chunks (Z.to_nat (rc + 2)) (skipn 4 blk) with
  | Some rws =>
    if (getw blk 0 =? getw blk 3) && cr_marks_ok rws then
      Some ((getw blk 1, getw blk 2), group (Z.to_nat nlays) (Z.to_nat nvars) (map cr_cells rws))
    else None
  | None => None
  end.

Definition cr_mm_read (ws : list word) (size : Z) : result cview :=
  if size <? 4 then Err else                                   (* struct.unpack('>i', read(4)) *)
  let m0 := getw ws 0 in
  let offset := m0 + 8 in
  if negb (m0 mod 4 =? 0) || (m0 <? 12) then Err else          (* no claim: the header is 20 characters + 3 integers *)
  if size <? offset + 12 then Err else                         (* struct.unpack(line1fmt, read(offset)); np.fromfile(..., count=1)[0] *)
  if negb ((size - offset) mod 4 =? 0) then Err else           (* memmap(rf, '>f', offset=offset) *)
  let h := offset / 4 in
  let ncols := getw ws (h - 4) in let nrows := getw ws (h - 3) in let nlays := getw ws (h - 2) in
  if (ncols <=? 0) || (nrows <=? 0) || (nlays <=? 0) then Err else
  let datasize := size - offset in
  let lay := nlays * (nrows * ncols + 2) * 4 in
  (* for nvars in [5, 3, 5]: if datasize % timesize == 0: break *)
  let nvars := if datasize mod (5 * lay + 16) =? 0 then 5 else if datasize mod (3 * lay + 16) =? 0 then 3 else 5 in
  let timesize := nvars * lay + 16 in
  let ntimes := datasize / timesize in
  (* __var_get: reshape(times, lays * vars * (rows * cols + 2) + 4); TFLAG[0, 0, :] *)
  if negb (ntimes * timesize =? datasize) || (ntimes <=? 0) then Err else
  match chunks (Z.to_nat (timesize / 4)) (firstn (Z.to_nat (datasize / 4)) (skipn (Z.to_nat h) ws)) with
  | Some blocks =>
    let parts := map (cr_block (nrows * ncols) nlays nvars) blocks in
    if forallb (fun p => match p with Some _ => true | None => false end) parts then
      let ps := flat_map (fun p => match p with Some x => [x] | None => [] end) parts in
      Ok {| cv_nx := ncols; cv_ny := nrows; cv_nz := nlays; cv_ntimes := ntimes; cv_nvars := nvars;
            cv_stamps := map fst ps; cv_data := map snd ps |}
    else Err
  | None => Err
  end.

Definition c_view_of (c : cloudrain) : cview :=
  {| cv_nx := c_nx c; cv_ny := c_ny c; cv_nz := c_nz c; cv_ntimes := Z.of_nat (length (c_steps c)); cv_nvars := c_nvars c;
     cv_stamps := map (fun s => (cs_time s, cs_date s)) (c_steps c); cv_data := map cs_lays (c_steps c) |}.
Definition c_truncate_steps (k : nat) (c : cloudrain) : cloudrain :=
  {| c_desc := c_desc c; c_nx := c_nx c; c_ny := c_ny c; c_nz := c_nz c; c_nvars := c_nvars c; c_steps := firstn k (c_steps c) |}.

(* the size-based guess picks the right layout: always for a 5-field file, for a 3-field file unless its data size is
   also a whole number of 5-field steps *)
Definition c_unambiguous (c : cloudrain) : bool :=
  (c_nvars c =? 5) || negb ((Z.of_nat (length (c_steps c)) * c_timesize c 3) mod c_timesize c 5 =? 0).

(* ---- impl: the writer camxfiles/cloud_rain/Write.py ncf2cloud_rain -------------------------------------- *)
(* header from FILEDESC and the dimensions, per step a time record rebuilt from TFLAG (HHMMSS / 100 as binary32,
   YYYYJJJ modulo its century as int32) and, per layer, one record per field present. HAND-MODELLED; the rebuilt time record
   is taken to be the presented stamp (Corr/C09.v ccheckF pins the written bytes on every generated whole file whose
   presented stamps are time words of the content). *)
Definition c_write (desc : list word) (v : cview) : list word :=
  frame ((desc ++ [cv_nx v; cv_ny v; cv_nz v])
         :: concat (map (fun p : (Z * Z) * list (list (list word)) => [fst (fst p); snd (fst p)] :: concat (snd p))
                        (combine (cv_stamps v) (cv_data v)))).
