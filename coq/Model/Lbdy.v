(* CAMx LATERAL BOUNDARY (BOUNDARY) files at the 4-byte-word level.
   spec side : the published layout (CAMx User's Guide): the four header records of the gridded format, four
               edge-definition records (WEST, EAST, SOUTH, NORTH), then per time step a time record followed, per
               species, by one data record per edge ( ione, name(10), iedge, ((bc(k,i),k=1,nz),i=1,ncell) ) with
               ncell = ny for WEST/EAST and nx for SOUTH/NORTH.  This is what harness/camxfmt.py lb_records writes.
   impl side : the memory-mapped reader camxfiles/lateral_boundary/Memmap.py. It does NOT walk records: it reads
               counts at fixed offsets of the TRANSLATED header dtypes (the lm_ definitions of Gen.Camx), checks only the leading marker
               of the four edge records, and strides through the rest with the translated block sizes.
               Hand-modelled (outside the translator's subset, translate/py2coq.py is read-only):
                 - the nested dtypes spc_lat_fmt / data_block_fmt: itemsize = sum of the (packed) member itemsizes;
                 - numpy.memmap's rules (offset + shape*itemsize <= file size; without shape the remaining bytes
                   must be a whole number of items);
                 - the projection dictionary look-ups {0:1,1:5,2:2,3:6}[iproj] and {90:1,-90:-1}[plat] (KeyError);
                 - `self.SDATE, self.STIME = TFLAG[0,0,:]` raising IndexError on an empty series.
               Headers with nspec < 0, nx <= 0 or ny <= 0 are answered Err without claim (no theorem and no
               generated case depends on it; numpy raises or builds zero-sized sub-arrays there).
   Names are prefixed (lb_/l_/lv_) because Model/Uamiv.v is imported next to this file.
   No proofs here. *)
From PNC Require Import Base.Util Base.Words Gen.Camx Model.Uamiv Model.CamxMet Model.YearEnd.
From Coq Require Import String.
Import Coq.Lists.List. Import ListNotations.
Local Open Scope Z_scope.

(* one list of words per edge, in file order *)
Record quad := Quad { q_w : list word; q_e : list word; q_s : list word; q_n : list word }.

Record lbdy := {
  l_name : list word;              (* 10 words: one character per word, blank padded *)
  l_note : list word;              (* 60 words *)
  l_itzon : word;
  l_dates : list word;             (* ibdate btime iedate etime *)
  l_gpre : list word;              (* plon plat iutm xorg yorg delx dely : 7 words *)
  l_nx : Z; l_ny : Z; l_nz : Z;
  l_gpost : list word;             (* iproj istag tlat1 tlat2 rdum : 5 words *)
  l_spc : list (list word);        (* species names, 10 words each *)
  l_edges : quad;                  (* edge definitions: 4 words (icell, idum, idum, idum) per boundary cell *)
  l_steps : list (list word * list quad)
     (* per step: (ibdate btime iedate etime, per species the four edges' data: ncell*nz words, cell-major) *)
}.

Definition lb_nspec (l : lbdy) : Z := Z.of_nat (length (l_spc l)).
Definition quad_list (q : quad) : list (list word) := [q_w q; q_e q; q_s q; q_n q].

(* ---- spec encoder -------------------------------------------------------------------------- *)
Definition lb_edge_records (nx ny : Z) (e : quad) : list record :=
  [lb_edge_rec 1 ny (q_w e); lb_edge_rec 2 ny (q_e e); lb_edge_rec 3 nx (q_s e); lb_edge_rec 4 nx (q_n e)].
Definition lb_spc_records (nm : list word) (d : quad) : list record :=
  [lb_data_rec nm 1 (q_w d); lb_data_rec nm 2 (q_e d); lb_data_rec nm 3 (q_s d); lb_data_rec nm 4 (q_n d)].
Definition lb_step_records (spc : list (list word)) (st : list word * list quad) : list record :=
  fst st :: concat (map (fun p => lb_spc_records (fst p) (snd p)) (combine spc (snd st))).
Definition lb_header_records (l : lbdy) : list record :=
  [ l_name l ++ l_note l ++ [l_itzon l; lb_nspec l] ++ l_dates l;
    l_gpre l ++ [l_nx l; l_ny l; l_nz l] ++ l_gpost l;
    [1; 1; l_nx l; l_ny l];
    concat (l_spc l) ] ++ lb_edge_records (l_nx l) (l_ny l) (l_edges l).
Definition lb_to_records (l : lbdy) : list record :=
  lb_header_records l ++ concat (map (lb_step_records (l_spc l)) (l_steps l)).
Definition lb_enc (l : lbdy) : list word := frame (lb_to_records l).

(* ---- spec decoder (record walking; shares nothing with the strides of the library reader) ---- *)
(* an edge-definition record  1, iedge, ncell, 4*ncell words *)
Definition take_edge (ie ncell : Z) (r : record) : option (list word) :=
  match r with
  | one :: e :: n :: cells =>
    if (one =? 1) && (e =? ie) && (n =? ncell) && (Z.of_nat (length cells) =? 4 * ncell) then Some cells else None
  | _ => None
  end.
(* a data record  1, name(10), iedge, n words *)
Definition take_data (nm : list word) (ie n : Z) (r : record) : option (list word) :=
  match r with
  | one :: body =>
    if (one =? 1) && zlist_eqb (firstn 10 body) nm && (nth 10 body 0 =? ie)
       && (Z.of_nat (length body) =? 11 + n) then Some (skipn 11 body) else None
  | _ => None
  end.
Definition take_quad (f : Z -> Z -> record -> option (list word)) (nw ns : Z) (rs : list record)
  : option (quad * list record) :=
  match rs with
  | r1 :: r2 :: r3 :: r4 :: rest =>
    match f 1 nw r1, f 2 nw r2, f 3 ns r3, f 4 ns r4 with
    | Some a, Some b, Some c, Some d => Some (Quad a b c d, rest)
    | _, _, _, _ => None
    end
  | _ => None
  end.
Fixpoint lb_take_spcs (nx ny nz : Z) (spc : list (list word)) (rs : list record)
  : option (list quad * list record) :=
  match spc with
  | [] => Some ([], rs)
  | nm :: spc' =>
    match take_quad (take_data nm) (ny * nz) (nx * nz) rs with
    | Some (q, rest) =>
      match lb_take_spcs nx ny nz spc' rest with
      | Some (qs, rest') => Some (q :: qs, rest')
      | None => None
      end
    | None => None
    end
  end.
Fixpoint lb_take_steps (fuel : nat) (nx ny nz : Z) (spc : list (list word)) (rs : list record)
  : option (list (list word * list quad)) :=
  match rs with
  | [] => Some []
  | th :: rs' =>
    match fuel with
    | O => None
    | S f =>
      if Z.of_nat (length th) =? 4 then
        match lb_take_spcs nx ny nz spc rs' with
        | Some (qs, rest) =>
          match lb_take_steps f nx ny nz spc rest with
          | Some sts => Some ((th, qs) :: sts)
          | None => None
          end
        | None => None
        end
      else None
    end
  end.

Definition lb_of_records (rs : list record) : option lbdy :=
  match rs with
  | h1 :: h2 :: h3 :: h4 :: rs4 =>
    let name := firstn 10 h1 in let note := firstn 60 (skipn 10 h1) in
    let itzon := nth 70 h1 0 in let nsp := nth 71 h1 0 in
    let dates := skipn 72 h1 in
    let gpre := firstn 7 h2 in
    let nx := nth 7 h2 0 in let ny := nth 8 h2 0 in let nz := nth 9 h2 0 in
    let gpost := skipn 10 h2 in
    match chunks 10 h4 with
    | Some spc =>
      if (Z.of_nat (length h1) =? 76) && (Z.of_nat (length h2) =? 15)
         && zlist_eqb h3 [1; 1; nx; ny] && (Z.of_nat (length spc) =? nsp) && (0 <? nz) then
        match take_quad take_edge ny nx rs4 with
        | Some (edges, body) =>
          match lb_take_steps (S (length body)) nx ny nz spc body with
          | Some sts => Some {| l_name := name; l_note := note; l_itzon := itzon; l_dates := dates;
                                l_gpre := gpre; l_nx := nx; l_ny := ny; l_nz := nz; l_gpost := gpost;
                                l_spc := spc; l_edges := edges; l_steps := sts |}
          | None => None
          end
        | None => None
        end
      else None
    | None => None
    end
  | _ => None
  end.

Definition lb_dec (ws : list word) : option lbdy :=
  match unframe_all ws with Some rs => lb_of_records rs | None => None end.

(* ---- well-formedness (what a generated file satisfies) ---------------------------------------- *)
(* binary32 patterns of 90.0 and -90.0 *)
Definition w_p90 : Z := 1119092736.
Definition w_m90 : Z := 3266576384.
(* GDTYP = {0:1, 1:5, 2:2, 3:6}[iproj]; for 6 (polar): {90:1, -90:-1}[plat] *)
Definition proj_ok (iproj plat : Z) : bool :=
  ((0 <=? iproj) && (iproj <=? 2)) || ((iproj =? 3) && ((plat =? w_p90) || (plat =? w_m90))).

Definition wf_quad (nw ns : Z) (q : quad) : bool :=
  len_is nw (q_w q) && len_is nw (q_e q) && len_is ns (q_s q) && len_is ns (q_n q).
Definition lb_wf_step (l : lbdy) (st : list word * list quad) : bool :=
  len_is 4 (fst st) && len_is (lb_nspec l) (snd st)
  && forallb (wf_quad (l_ny l * l_nz l) (l_nx l * l_nz l)) (snd st).
Definition lb_wf (l : lbdy) : bool :=
  len_is 10 (l_name l) && len_is 60 (l_note l) && len_is 4 (l_dates l) && len_is 7 (l_gpre l)
  && len_is 5 (l_gpost l) && (0 <? l_nx l) && (0 <? l_ny l) && (0 <? l_nz l) && (0 <? lb_nspec l)
  && proj_ok (nth 0 (l_gpost l) 0) (nth 1 (l_gpre l) 0)
  && forallb (len_is 10) (l_spc l) && wf_quad (4 * l_ny l) (4 * l_nx l) (l_edges l)
  && forallb (lb_wf_step l) (l_steps l).

(* ---- impl: the memory-mapped reader ------------------------------------------------------------ *)
Record lview := {
  lv_nspec : Z; lv_nx : Z; lv_ny : Z; lv_nz : Z; lv_ntimes : Z;    (* VAR/4, COL, ROW, LAY, TSTEP *)
  lv_names : list (list word);
  lv_dates : list (list word);                      (* per block: BDATE BTIME EDATE ETIME words *)
  lv_data : list (list quad)                        (* [t][s] -> (WEST, EAST, SOUTH, NORTH) DATA fields *)
}.

(* the four edge-definition memmaps:  memmap(dtype=__bound_fmt, shape=1, offset) needs offset+itemsize <= size;
   assert SPAD == itemsize - 8;  offset += itemsize.  Returns the offset after the last one. *)
Fixpoint read_edges (ws : list word) (size off : Z) (bdims : list Z) : option Z :=
  match bdims with
  | [] => Some off
  | b :: t =>
    let isz := dtype_itemsize (lm_bound_fmt b) in
    if size <? off + isz then None else
    if getw ws (off / 4 + woff (lm_bound_fmt b) "SPAD") =? isz - 8 then read_edges ws size (off + isz) t
    else None
  end.

(* the DATA field of one edge record of an item (rec_w words starting at word `at_`) *)
Definition edge_data (c : list word) (at_ d0 n : Z) : list word :=
  firstn (Z.to_nat n) (skipn (Z.to_nat (at_ + d0)) c).

(* one species item (spc_lat_fmt = WEST, EAST : spc_we_fmt ; SOUTH, NORTH : spc_sn_fmt, packed) *)
Definition split_lat (nx ny nz : Z) (c : list word) : quad :=
  let we := dtype_itemsize (lm_spc_we_fmt ny nz) / 4 in
  let sn := dtype_itemsize (lm_spc_sn_fmt nx nz) / 4 in
  let dwe := woff (lm_spc_we_fmt ny nz) "DATA" in
  let dsn := woff (lm_spc_sn_fmt nx nz) "DATA" in
  Quad (edge_data c 0 dwe (ny * nz)) (edge_data c we dwe (ny * nz))
       (edge_data c (2 * we) dsn (nx * nz)) (edge_data c (2 * we + sn) dsn (nx * nz)).

(* one time block (data_block_fmt = DATE : date_time_fmt, then one spc_lat_fmt per species) *)
Definition lb_split_block (nspec nx ny nz lat_w : Z) (blk : list word) : option (list word * list quad) :=
  let dt_w := dtype_itemsize lm_date_time_fmt / 4 in
  match chunks (Z.to_nat lat_w) (skipn (Z.to_nat dt_w) blk) with
  | Some items =>
    Some (firstn 4 (skipn (Z.to_nat (woff lm_date_time_fmt "BDATE")) blk), map (split_lat nx ny nz) items)
  | None => None
  end.

Definition lb_mm_body (nspec nx ny nz : Z) (names : list (list word)) (off : Z)
                      (ws : list word) (size : Z) : result lview :=
  (* hand-modelled nested dtypes: packed sums of the translated member dtypes *)
  let lat_item := 2 * dtype_itemsize (lm_spc_we_fmt ny nz) + 2 * dtype_itemsize (lm_spc_sn_fmt nx nz) in
  let blk_item := dtype_itemsize lm_date_time_fmt + nspec * lat_item in
  (* translated: spc_lat_block_size = spc_lat_fmt.itemsize // 4 ; data_block_size ; ntimes (floor divisions) *)
  let lat_sz := lm_spc_lat_block_size lat_item in
  let blk := lm_data_block_size lm_date_time_block_size nspec lat_sz in
  let ntimes := lm_ntimes size off blk in          (* never raises: int(x) == x for a floor *)
  (* numpy.memmap(dtype=data_block_fmt, offset) without shape: the remaining bytes must be a whole number of items *)
  if negb ((size - off) mod blk_item =? 0) then Err else
  let cnt := (size - off) / blk_item in
  (* self.SDATE, self.STIME = TFLAG[0, 0, :] : IndexError on an empty series *)
  if cnt <=? 0 then Err else
  match chunks (Z.to_nat (blk_item / 4)) (firstn (Z.to_nat (cnt * (blk_item / 4))) (skipn (Z.to_nat (off / 4)) ws)) with
  | Some blocks =>
    let parts := map (lb_split_block nspec nx ny nz (lat_item / 4)) blocks in
    if forallb (fun p => match p with Some _ => true | None => false end) parts then
      let ps := flat_map (fun p => match p with Some x => [x] | None => [] end) parts in
      Ok {| lv_nspec := nspec; lv_nx := nx; lv_ny := ny; lv_nz := nz; lv_ntimes := ntimes;
            lv_names := names; lv_dates := map fst ps; lv_data := map snd ps |}
    else Err
  | None => Err
  end.

Definition lb_mm_read (ws : list word) (size : Z) : result lview :=
  let e_sz := dtype_itemsize lm_emiss_hdr_fmt in
  let g_sz := dtype_itemsize lm_grid_hdr_fmt in
  let c_sz := dtype_itemsize lm_cell_hdr_fmt in
  (* each header memmap(shape=1, offset) needs offset + itemsize <= size *)
  if size <? e_sz then Err else
  let nspec := getw ws (woff lm_emiss_hdr_fmt "nspec") in
  if size <? e_sz + g_sz then Err else
  let g0 := e_sz / 4 in
  if negb (proj_ok (getw ws (g0 + woff lm_grid_hdr_fmt "iproj")) (getw ws (g0 + woff lm_grid_hdr_fmt "plat"))) then Err else
  let nx := getw ws (g0 + woff lm_grid_hdr_fmt "nx") in
  let ny := getw ws (g0 + woff lm_grid_hdr_fmt "ny") in
  let nz := Z.max (getw ws (g0 + woff lm_grid_hdr_fmt "nz")) 1 in
  if size <? e_sz + g_sz + c_sz then Err else
  let off3 := e_sz + g_sz + c_sz + 4 in
  if (nspec <? 0) || (size <? off3 + nspec * dtype_itemsize lm_spc_fmt) then Err else
  let names := match chunks 10 (firstn (Z.to_nat (nspec * 10)) (skipn (Z.to_nat (off3 / 4)) ws)) with
               | Some l => l | None => [] end in
  let off4 := off3 + nspec * dtype_itemsize lm_spc_fmt + 4 in
  if (nx <=? 0) || (ny <=? 0) then Err else
  match read_edges ws size off4 [ny; ny; nx; nx] with
  | None => Err
  | Some off5 => lb_mm_body nspec nx ny nz names off5 ws size
  end.

(* what a reader should present for a well-formed file *)
Definition lb_view_of (l : lbdy) : lview :=
  {| lv_nspec := lb_nspec l; lv_nx := l_nx l; lv_ny := l_ny l; lv_nz := l_nz l;
     lv_ntimes := Z.of_nat (length (l_steps l));
     lv_names := l_spc l; lv_dates := map fst (l_steps l); lv_data := map snd (l_steps l) |}.

(* first k steps only *)
Definition lb_truncate_steps (k : nat) (l : lbdy) : lbdy :=
  {| l_name := l_name l; l_note := l_note l; l_itzon := l_itzon l; l_dates := l_dates l;
     l_gpre := l_gpre l; l_nx := l_nx l; l_ny := l_ny l; l_nz := l_nz l; l_gpost := l_gpost l;
     l_spc := l_spc l; l_edges := l_edges l; l_steps := firstn k (l_steps l) |}.

(* ---- sizes (in words) -------------------------------------------------------------------------- *)
Definition lb_hdr_words (l : lbdy) : Z :=
  78 + 17 + 6 + (2 + 10 * lb_nspec l) + 2 * (5 + 4 * l_ny l) + 2 * (5 + 4 * l_nx l).
Definition lb_step_words (l : lbdy) : Z :=
  6 + lb_nspec l * (2 * (14 + l_ny l * l_nz l) + 2 * (14 + l_nx l * l_nz l)).

(* ---- time flags presented by the reader ----------------------------------------------------------
   TFLAG  = ConvertCAMxTime(DATE.BDATE, DATE.BTIME)
   ETFLAG = ConvertCAMxTime(DATE.EDATE, DATE.ETIME)      (as repaired by fe376a5; it used DATE.BTIME before) *)
Definition lb_tflag (v : lview) (bhours : list Z) : list (Z * Z) :=
  convert_camx_time (map (fun d => nth 0 d 0) (lv_dates v)) (firstn (length (lv_dates v)) bhours).
Definition lb_etflag (v : lview) (ehours : list Z) : list (Z * Z) :=
  convert_camx_time (map (fun d => nth 2 d 0) (lv_dates v)) (firstn (length (lv_dates v)) ehours).

(* ---- the writer (lateral_boundary/Write.py ncf2lateral_boundary) -----------------------------------
   It never uses ETFLAG: iedate = ibdate ; etime = btime + 1 ; iedate += etime // 24 ; etime -= (etime // 24) * 24,
   with the day-of-year carry into the next two-digit year (as repaired by a9b6e29): Model/YearEnd.v derive_th_r; the file header takes
   ibdate/btime of the first and iedate/etime of the last time record. When the input file has no _boundary_def
   (an in-memory file) the edge definitions are generated:
   ([0,0,0,0] + [icell,0,0,0] * (nbcell - 2) + [0,0,0,0])[:nbcell * 4] with icell = 2 (WEST, SOUTH), NCOLS-1 (EAST),
   NROWS-1 (NORTH): exactly 4 words per boundary cell, also for a one-cell edge (as repaired by
   fixes/C08-lb-edge-record-one-cell.patch; before, a one-cell edge got 8 cell words under a 28-byte marker). *)
Definition std_edge (nb icell : Z) : list word :=
  firstn (Z.to_nat (nb * 4))
         ([0; 0; 0; 0] ++ concat (repeat [icell; 0; 0; 0] (Z.to_nat (nb - 2))) ++ [0; 0; 0; 0]).
Definition std_edges (nx ny : Z) : quad :=
  Quad (std_edge ny 2) (std_edge ny (nx - 1)) (std_edge nx 2) (std_edge nx (ny - 1)).

Definition lb_derive (l : lbdy) (bhours : list Z) (gen_edges : bool) : lbdy :=
  let sts := map (fun p => (derive_th_r (fst (fst p)) (snd p), snd (fst p))) (combine (l_steps l) bhours) in
  let lastth := last (map fst sts) [0; 0; 0; 0] in
  let firstth := hd [0; 0; 0; 0] (map fst sts) in
  {| l_name := l_name l; l_note := l_note l; l_itzon := l_itzon l;
     l_dates := [nth 0 firstth 0; nth 1 firstth 0; nth 2 lastth 0; nth 3 lastth 0];
     l_gpre := l_gpre l; l_nx := l_nx l; l_ny := l_ny l; l_nz := l_nz l;
     l_gpost := firstn 4 (l_gpost l) ++ [0];          (* grid_hdr['rdum5'] = 0. *)
     l_spc := l_spc l;
     l_edges := if gen_edges then std_edges (l_nx l) (l_ny l) else l_edges l;
     l_steps := sts |}.
