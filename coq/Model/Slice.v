(* C02 — PseudoNetCDFFile.sliceDimensions (core/_files.py) AS REPAIRED by
   fixes/C02-slice-orthogonal-per-axis.patch, C02-zip-keep-masks.patch, C02-zip-with-ints.patch,
   C02-zip-empty-lists.patch.
   Executable model, no proofs.
   Arrays are flat C-order cell lists with explicit shapes (Base/ArrFlat.v); cells are abstract
   (a mask is part of the cell; the repaired code moves cells with numpy.ma throughout).

   spec_* : what the property demands — orthogonal per-axis selection (ints kept as length-1 axes);
            with >= 2 equal-length lists on one variable the pointwise (zipped) selection along
            one new axis placed where the first list axis was.
   impl_* : what the code does —
            newvals = varo[...]; for axi, si in enumerate(sliceo):        one axis at a time,
                newvals = newvals[(slice(None),) * axi + (si,)]            ints as [i] (seq_take)
            newvaro[...] = newvals                broadcasting assignment into the pre-shaped target
            except: newvals.reshape(shape)        C-order reshape fallback
            and the `needsfancy` point loop: ints and list elements as scalars, expand_dims and
            concatenate at pointax = number of sliced axes before the first list. *)
From PNC Require Import Base.Util Base.ArrFlat.

Section Slice.
Context {A : Type}.

(* ---------------------------------------------------------------- specification *)

(* orthogonal selection: axis by axis, every selector lists the source indices it keeps *)
Fixpoint oslice (sh : list nat) (rs : list rsel) (d : list A) : list A :=
  match sh, rs with
  | _ :: sh', r :: rs' => flat_map (fun i => oslice sh' rs' (chunk (prodn sh') i d)) (rindices r)
  | _, _ => d
  end.

Definition spec_shape (rs : list rsel) : list nat := map rcount rs.

(* one resolved selector per axis, every source index inside the axis *)
Fixpoint rs_ok (sh : list nat) (rs : list rsel) : bool :=
  match sh, rs with
  | [], [] => true
  | n :: sh', r :: rs' => rsel_ok n r && rs_ok sh' rs'
  | _, _ => false
  end.
(* "keep everything" *)
Definition full_sel (n : nat) : rsel := RSlice (seq 0 n).
(* C-order position of a multi-index *)
Fixpoint ravel (sh idx : list nat) : nat :=
  match sh, idx with
  | _ :: sh', i :: idx' => i * prodn sh' + ravel sh' idx'
  | _, _ => 0
  end.
(* lexicographic product of per-axis index lists *)
Fixpoint cart (ls : list (list nat)) : list (list nat) :=
  match ls with
  | [] => [[]]
  | l :: t => flat_map (fun i => map (cons i) (cart t)) l
  end.

(* the ii-th point of the zipped lists: every list selector becomes its ii-th element *)
Definition pointify (ii : nat) (rs : list rsel) : list rsel :=
  map (fun r => match r with RList l => RInt (nth ii l 0%nat) | _ => r end) rs.

(* zipped selection with P points: orthogonal on the axes before the first list; at the first
   list axis one new axis of length P; below it, point ii selects element ii of every list and
   the remaining selectors orthogonally (ints there contribute length-1 axes = no cells moved) *)
Fixpoint zslice (P : nat) (sh : list nat) (rs : list rsel) (d : list A) : list A :=
  match sh, rs with
  | _ :: _, RList _ :: _ => flat_map (fun ii => oslice sh (pointify ii rs) d) (seq 0 P)
  | _ :: sh', r :: rs' => flat_map (fun i => zslice P sh' rs' (chunk (prodn sh') i d)) (rindices r)
  | _, _ => d
  end.

(* every list selector has exactly P entries *)
Definition lists_len (P : nat) (rs : list rsel) : bool :=
  forallb (fun r => match r with RList l => Nat.eqb (length l) P | _ => true end) rs.

Fixpoint first_list_pos (rs : list rsel) : nat :=
  match rs with [] => 0 | r :: t => if is_list r then 0 else S (first_list_pos t) end.

Definition zip_shape (P : nat) (rs : list rsel) : list nat :=
  insert_at (first_list_pos rs) P (map rcount (filter (fun r => negb (is_list r)) rs)).

(* ---------------------------------------------------------------- per-axis selection *)

Definition has_list (rs : list rsel) : bool := existsb is_list rs.

(* newvals[(slice(None),) * k + (idxs,)] on an array of shape pre ++ [n] ++ post with
   outer = prodn pre, inner = prodn post: under every outer index the selected sub-blocks *)
Definition take_axis (outer n inner : nat) (idxs : list nat) (d : list A) : list A :=
  flat_map (fun o => flat_map (fun i => chunk inner i (chunk (n * inner) o d)) idxs) (seq 0 outer).

(* the loop over the axes: `outer` is the product of the already selected leading axes *)
Fixpoint seq_take (outer : nat) (sh : list nat) (rs : list rsel) (d : list A) : list A :=
  match sh, rs with
  | n :: sh', r :: rs' =>
      seq_take (outer * rcount r) sh' rs' (take_axis outer n (prodn sh') (rindices r) d)
  | _, _ => d
  end.

(* ---------------------------------------------------------------- assignment into the target *)

Fixpoint compat (ssh tsh : list nat) : bool :=
  match ssh, tsh with
  | [], [] => true
  | s :: ssh', t :: tsh' => (Nat.eqb s t || Nat.eqb s 1) && compat ssh' tsh'
  | _, _ => false
  end.

(* cells of the source broadcast to the target shape (equal ranks, compat holds) *)
Fixpoint bdata (ssh tsh : list nat) (d : list A) : list A :=
  match ssh, tsh with
  | s :: ssh', t :: tsh' =>
      if Nat.eqb s t then flat_map (fun i => bdata ssh' tsh' (chunk (prodn ssh') i d)) (seq 0 s)
      else concat (repeat (bdata ssh' tsh' d) t)
  | _, _ => d
  end.

Definition pad_left (k : nat) (ssh : list nat) : list nat := repeat 1%nat (k - length ssh) ++ ssh.

(* try: target[...] = src  except: target[...] = src.reshape(target.shape) *)
Definition assign (tsh ssh : list nat) (d : list A) : option (list A) :=
  if Nat.leb (length ssh) (length tsh) && compat (pad_left (length tsh) ssh) tsh
  then Some (bdata (pad_left (length tsh) ssh) tsh d)
  else if Nat.eqb (length d) (prodn tsh) then Some d else None.

(* the selected array already has one axis per selector (ints gave length-1 axes) *)
Definition impl_slice_var (sh : list nat) (rs : list rsel) (d : list A) (tsh : list nat) : option (list A) :=
  assign tsh (spec_shape rs) (seq_take 1 sh rs d).

(* ---------------------------------------------------------------- the needsfancy point loop *)

(* pointax: number of sliced axes before the first list *)
Fixpoint slices_before_list (rs : list rsel) : nat :=
  match rs with
  | [] => 0
  | r :: t => if is_list r then 0 else (if is_slice r then 1 else 0) + slices_before_list t
  end.

(* shape of varo[sliceoi] for one point: ints and list elements are scalars (basic indexing),
   only the sliced axes remain *)
Definition point_shape (rs : list rsel) : list nat := map rcount (filter is_slice rs).

(* np.ma.concatenate of P point arrays of shape ps along a new axis inserted at position a
   (expand_dims then concatenate), by recursion on the axis: at axis 0 the points follow each
   other; at a deeper axis the same is done under every leading index *)
Fixpoint concat_rec (a : nat) (ps : list nat) (P : nat) (pts : nat -> list A) : list A :=
  match a, ps with
  | S a', n :: ps' =>
      flat_map (fun j => concat_rec a' ps' P (fun ii => chunk (prodn ps') j (pts ii))) (seq 0 n)
  | _, _ => flat_map pts (seq 0 P)
  end.

Definition impl_zip_var (P : nat) (sh : list nat) (rs : list rsel) (d : list A) (tsh : list nat)
  : option (list A) :=
  let a := slices_before_list rs in
  let ps := point_shape rs in
  if Nat.eqb P 0 then Some []      (* no points: `continue`, the pre-shaped variable is empty *)
  else assign tsh (insert_at a P ps) (concat_rec a ps P (fun ii => oslice sh (pointify ii rs) d)).

(* ---------------------------------------------------------------- whole file *)

Record var := Var { v_dims : list nat; v_data : list A }.
Record file := File { f_dims : list nat; f_vars : list var }.

Definition kwlookup (kws : list (nat * sel)) (k : nat) : option sel :=
  match find (fun p => Nat.eqb (fst p) k) kws with Some p => Some (snd p) | None => None end.
Definition list_lens (kws : list (nat * sel)) : list nat :=
  flat_map (fun p => match snd p with SList l => [length l] | _ => [] end) kws.

(* per-dimension resolved selector; a dimension that is not named keeps everything *)
Definition resolve_dims (dims : list nat) (kws : list (nat * sel)) : option (list rsel) :=
  mapM (fun jn => match kwlookup kws (fst jn) with
                  | Some s => resolve (snd jn) s
                  | None => Some (RSlice (seq 0 (snd jn)))
                  end) (combine (seq 0 (length dims)) dims).

(* skeleton shared by impl and spec: fvar/fzip are the per-variable selections *)
Definition slice_file_with
    (fvar : list nat -> list rsel -> list A -> list nat -> option (list A))
    (fzip : nat -> list nat -> list rsel -> list A -> list nat -> option (list A))
    (f : file) (kws : list (nat * sel)) : option file :=
  let nd := length (f_dims f) in
  if negb (forallb (fun p => Nat.ltb (fst p) nd) kws) then None else       (* KeyError *)
  let ll := list_lens kws in
  let any := Nat.ltb 1 (length ll) in
  let P := hd 0%nat ll in
  if any && negb (forallb (Nat.eqb P) ll) then None else                   (* ValueError *)
  match resolve_dims (f_dims f) kws with
  | None => None                                                            (* IndexError / step 0 *)
  | Some rdims =>
    match mapM (fun v =>
             let rs := map (fun j => nth j rdims (RSlice [])) (v_dims v) in
             let sh := map (fun j => nth j (f_dims f) 0%nat) (v_dims v) in
             if any && Nat.ltb 1 (length (filter is_list rs))
             then option_map (Var (insert_at (first_list_pos rs) nd
                                     (map fst (filter (fun p => negb (is_list (snd p))) (combine (v_dims v) rs)))))
                             (fzip P sh rs (v_data v) (zip_shape P rs))
             else option_map (Var (v_dims v)) (fvar sh rs (v_data v) (spec_shape rs)))
          (f_vars f) with
    | None => None
    | Some vs => Some (File (map rcount rdims ++ (if any then [P] else [])) vs)
    end
  end.

(* well-formed file: variables only name existing dimensions and hold exactly their cells *)
Definition wf_file (f : file) : bool :=
  forallb (fun v => forallb (fun j => Nat.ltb j (length (f_dims f))) (v_dims v)
                    && Nat.eqb (length (v_data v))
                               (prodn (map (fun j => nth j (f_dims f) 0%nat) (v_dims v))))
          (f_vars f).

Definition impl_slice_file := slice_file_with impl_slice_var impl_zip_var.
Definition spec_slice_file :=
  slice_file_with (fun sh rs d _ => Some (oslice sh rs d)) (fun P sh rs d _ => Some (zslice P sh rs d)).

End Slice.

Arguments var : clear implicits.
Arguments file : clear implicits.
Arguments Var {A}.
Arguments File {A}.
