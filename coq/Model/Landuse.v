(* CAMx LANDUSE files at the 4-byte-word level (static files: no time steps).
   spec side : published layouts
                 old style : one record fland(nx, ny, 11), optionally one record topo(nx, ny)
                 new style : an 8-character record 'LUCAT11 ' or 'LUCAT26 ', the record fland(nx, ny, nlu), then up to two
                             optional fields, each an 8-character key record ('LAI     ', 'TOPO    ') and a record of nx*ny values
               The file does not record nx, ny: the caller supplies them.
   impl side : the memory-mapped reader camxfiles/landuse/Memmap.py: OpenRecordFile, read('8s') of the first 8 payload bytes
               (DECODED AS TEXT: UnicodeDecodeError on bytes that are no UTF-8) to sniff the style, the three admissible file
               sizes, a structured dtype over the whole file (markers are NOT checked); and the writer Write.py ncf2landuse
               (variables picked in the order FLAND, LUCAT11, LUCAT26, VAR1, LAI, TOPO). HAND-MODELLED (struct / numpy calls).
               "These 8 bytes decode as UTF-8" is the abstract boolean [dec], carried in every case (computed by bytes.decode()).
               First markers >= 2^31 (negative for the library) and key records that are no UTF-8 are outside the claim.
   No proofs here. *)
From PNC Require Import Base.Util Base.Words Gen.Camx Model.Uamiv.
Import Coq.Lists.List. Import ListNotations.
Local Open Scope Z_scope.

Definition LU_LUCA : word := 1280656193.   (* 'LUCA' *)
Definition LU_T11 : word := 1412509984.    (* 'T11 ' *)
Definition LU_T26 : word := 1412576800.    (* 'T26 ' *)
Definition lu_blank : word := 538976288.   (* '    ' *)
Definition lu_key_FLAND : list word := [1179402574; 1142956064].   (* 'FLAND   ' *)
Definition lu_key_TOPO : list word := [1414484047; lu_blank].
Definition lu_key_LAI : list word := [1279346976; lu_blank].
Definition lu_key_VAR1 : list word := [1447121457; lu_blank].
Definition lucat_key (nland : Z) : list word := [LU_LUCA; if nland =? 26 then LU_T26 else LU_T11].

Record landuse := {
  lu_new : bool; lu_nland : Z; lu_rows : Z; lu_cols : Z;
  lu_fland : list word;                                (* nland * rows * cols values, file order *)
  lu_opts : list (list word * list word)               (* (key, rows * cols values) *)
}.

(* ---- spec codec --------------------------------------------------------------------------------- *)
Definition lu_to_records (c : landuse) : list record :=
  if lu_new c then [lucat_key (lu_nland c); lu_fland c] ++ concat (map (fun o : list word * list word => [fst o; snd o]) (lu_opts c))
  else lu_fland c :: map snd (lu_opts c).
Definition lu_enc (c : landuse) : list word := frame (lu_to_records c).

Definition lu_opt_keys_ok (new : bool) (ks : list (list word)) : bool :=
  if new then
    list_eqb zlist_eqb ks [] || list_eqb zlist_eqb ks [lu_key_LAI] || list_eqb zlist_eqb ks [lu_key_TOPO]
    || list_eqb zlist_eqb ks [lu_key_LAI; lu_key_TOPO]
  else list_eqb zlist_eqb ks [] || list_eqb zlist_eqb ks [lu_key_TOPO].
Definition lu_wf (c : landuse) : bool :=
  (0 <? lu_rows c) && (0 <? lu_cols c)
  && (if lu_new c then (lu_nland c =? 11) || (lu_nland c =? 26) else lu_nland c =? 11)
  && len_is (lu_nland c * (lu_rows c * lu_cols c)) (lu_fland c)
  && lu_opt_keys_ok (lu_new c) (map fst (lu_opts c))
  && forallb (fun o : list word * list word => len_is (lu_rows c * lu_cols c) (snd o)) (lu_opts c).

Fixpoint lu_pairs (rs : list record) : option (list (list word * list word)) :=
  match rs with
  | [] => Some []
  | k :: d :: rest => match lu_pairs rest with Some l => Some ((k, d) :: l) | None => None end
  | _ => None
  end.
Definition lu_dec (rows cols : Z) (ws : list word) : option landuse :=
  match unframe_all ws with
  | Some (r0 :: rest) =>
    let c :=
      if zlist_eqb r0 (lucat_key 11) || zlist_eqb r0 (lucat_key 26) then
        match rest with
        | f :: rest' =>
          match lu_pairs rest' with
          | Some opts => Some {| lu_new := true; lu_nland := if zlist_eqb r0 (lucat_key 26) then 26 else 11;
                                 lu_rows := rows; lu_cols := cols; lu_fland := f; lu_opts := opts |}
          | None => None
          end
        | [] => None
        end
      else Some {| lu_new := false; lu_nland := 11; lu_rows := rows; lu_cols := cols; lu_fland := r0;
                   lu_opts := map (fun d => (lu_key_TOPO, d)) rest |} in
    match c with Some c' => if lu_wf c' then Some c' else None | None => None end
  | _ => None
  end.

(* the first 8 payload bytes of an old-style file must not read 'LUCAT11 ' / 'LUCAT26 ' *)
Definition lu_is_lucat (w1 w2 : word) : bool := (w1 =? LU_LUCA) && ((w2 =? LU_T11) || (w2 =? LU_T26)).
Definition lu_sniff_ok (c : landuse) : bool := lu_new c || negb (lu_is_lucat (nth 0 (lu_fland c) 0) (nth 1 (lu_fland c) 0)).

(* ---- impl: the memory-mapped reader ---------------------------------------------------------------- *)
Record luview := { lv_new : bool; lv_nland : Z; lv_vars : list (list word * list word) }.   (* (variable name as a key, values) *)

(* one element of the structured dtype: new style SPAD1 KEY(2) EPAD1 SPAD2 DATA(n) EPAD2, old style SPAD2 DATA(n) EPAD2 *)
Definition lu_struct (new : bool) (n : Z) (blk : list word) : list word * list word :=
  if new then (firstn 2 (skipn 1 blk), firstn (Z.to_nat n) (skipn 5 blk)) else ([], firstn (Z.to_nat n) (skipn 1 blk)).

Definition lu_mm_read (dec : bool) (rows cols : Z) (ws : list word) (size : Z) : result luview :=
  if size <? 12 then Err else                  (* seek(0) on an empty file; unpack('i'); read('8s'): incomplete reads raise *)
  if negb dec then Err else                    (* unpack_from_file: d.decode() *)
  let offset := getw ws 0 + 8 in               (* next(): the following record's marker is read when it starts inside the file *)
  if (offset <? size) && ((offset <? 0) || (size <? offset + 4)) then Err else
  let w1 := getw ws 1 in let w2 := getw ws 2 in
  let new := lu_is_lucat w1 w2 in
  let nland := if new && (w2 =? LU_T26) then 26 else 11 in
  let rc := rows * cols in
  let pad := if new then 24 else 8 in
  let nf := pad + 4 * (nland * rc) in
  let no := pad + 4 * rc in
  (* __addvars: rflen == nfland, nfland + other, nfland + 2 * other, else IOError *)
  let nrec := if size =? nf then 1 else if size =? nf + no then 2 else if size =? nf + 2 * no then 3 else 0 in
  if nrec =? 0 then Err else
  let fl := lu_struct new (nland * rc) ws in
  let o1 := lu_struct new rc (skipn (Z.to_nat (nf / 4)) ws) in
  let o2 := lu_struct new rc (skipn (Z.to_nat ((nf + no) / 4)) ws) in
  Ok {| lv_new := new; lv_nland := nland;
        lv_vars := if new then firstn (Z.to_nat nrec) [fl; o1; o2]
                   else firstn (Z.to_nat (Z.min nrec 2)) [(lu_key_FLAND, snd fl); (lu_key_TOPO, snd o1)] |}.

Definition lu_view_of (c : landuse) : luview :=
  {| lv_new := lu_new c; lv_nland := lu_nland c;
     lv_vars := (if lu_new c then lucat_key (lu_nland c) else lu_key_FLAND, lu_fland c) :: lu_opts c |}.
Definition lu_truncate (k : nat) (c : landuse) : landuse :=
  {| lu_new := lu_new c; lu_nland := lu_nland c; lu_rows := lu_rows c; lu_cols := lu_cols c; lu_fland := lu_fland c;
     lu_opts := firstn k (lu_opts c) |}.
(* sizes in BYTES *)
Definition lu_pad (c : landuse) : Z := if lu_new c then 24 else 8.
Definition lu_fland_bytes (c : landuse) : Z := lu_pad c + 4 * (lu_nland c * (lu_rows c * lu_cols c)).
Definition lu_opt_bytes (c : landuse) : Z := lu_pad c + 4 * (lu_rows c * lu_cols c).

(* ---- impl: the writer ncf2landuse ---------------------------------------------------------------- *)
(* variables picked in the order FLAND, LUCAT11, LUCAT26, VAR1, LAI, TOPO (58a734f; before it LAI / TOPO came first and the
   written file of a new-style file with optional records was no land-use file: corpus/C08/landuse-writer-record-order.json) *)
Definition lu_key_order : list (list word) := [lu_key_FLAND; lucat_key 11; lucat_key 26; lu_key_VAR1; lu_key_LAI; lu_key_TOPO].
Definition lu_select (order : list (list word)) (vars : list (list word * list word)) : list (list word * list word) :=
  flat_map (fun k => match find (fun kv : list word * list word => zlist_eqb (fst kv) k) vars with Some kv => [kv] | None => [] end) order.
Definition lu_write_with (order : list (list word)) (v : luview) : list word :=
  let sel := lu_select order (lv_vars v) in
  if lv_new v then
    frame (concat (map (fun kv : list word * list word =>
                          [if zlist_eqb (fst kv) lu_key_FLAND then lucat_key (lv_nland v) else fst kv; snd kv]) sel))
  else frame (map snd sel).
Definition lu_write (v : luview) : list word := lu_write_with lu_key_order v.
