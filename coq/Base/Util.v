(* Shared utilities: correspondence reporting, list helpers. Stdlib only. *)
From Coq Require Export List ZArith Bool Lia.
Export ListNotations.

(* One verdict per correspondence case:
   f_ok  : the implementation's observed output equals the model's (faithfulness, F)
   s_ok  : the observed output satisfies the specification (satisfaction, S)
   region: 0 = inside the domain on which the property is proved for the model;
           k>0 = the k-th known-defect region of this property (see known_findings.json) *)
Definition verdict := (bool * bool * nat)%type.

Definition run_cases {C} (chk : C -> verdict) (cs : list C) : list verdict := map chk cs.

Fixpoint sumZ (l : list Z) : Z := match l with [] => 0%Z | x :: t => (x + sumZ t)%Z end.

Fixpoint list_eqb {A} (eqb : A -> A -> bool) (a b : list A) : bool :=
  match a, b with
  | [], [] => true
  | x :: a', y :: b' => eqb x y && list_eqb eqb a' b'
  | _, _ => false
  end.

Lemma list_eqb_eq {A} (eqb : A -> A -> bool)
  (H : forall x y, eqb x y = true <-> x = y) a b :
  list_eqb eqb a b = true <-> a = b.
Proof.
  revert b; induction a as [|x a IH]; intros [|y b]; simpl; split; intros E;
    try reflexivity; try discriminate.
  - apply andb_true_iff in E as [E1 E2]. apply H in E1. apply IH in E2. congruence.
  - injection E as -> ->. apply andb_true_iff; split; [apply H; reflexivity | apply IH; reflexivity].
Qed.

Definition option_eqb {A} (eqb : A -> A -> bool) (a b : option A) : bool :=
  match a, b with Some x, Some y => eqb x y | None, None => true | _, _ => false end.

Definition zlist_eqb := list_eqb Z.eqb.
Definition zll_eqb := list_eqb zlist_eqb.
