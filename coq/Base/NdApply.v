(* NdApply — n-d arrays as (shape, index function) and "apply a 1-D function along axis k"
   (numpy.apply_along_axis / reductions with keepdims=True), for C03 and C06.
   An array is its shape plus a total function from multi-indices to cells; all statements
   are pointwise on in-bounds indices (feq), and [to_flat] materialises the row-major list
   that is exchanged with numpy (ndarray.ravel().tolist()).  Stdlib only. *)
From PNC Require Import Base.Util.
Require Import Permutation.
Set Implicit Arguments.

(* replace the k-th element (no-op when k is out of range) *)
Fixpoint upd {B} (k : nat) (v : B) (l : list B) : list B :=
  match l, k with
  | [], _ => []
  | _ :: t, O => v :: t
  | x :: t, S k' => x :: upd k' v t
  end.

(* multi-index in bounds of a shape (same rank, every component below the length) *)
Fixpoint inb (i s : list nat) : bool :=
  match i, s with
  | [], [] => true
  | x :: i', n :: s' => (x <? n) && inb i' s'
  | _, _ => false
  end.

Fixpoint prodn (s : list nat) : nat := match s with [] => 1 | n :: t => n * prodn t end.

(* all multi-indices of a shape in row-major (C) order *)
Fixpoint indices (s : list nat) : list (list nat) :=
  match s with
  | [] => [[]]
  | n :: t => flat_map (fun x => map (cons x) (indices t)) (seq 0 n)
  end.

(* row-major offset *)
Fixpoint ravel (s i : list nat) : nat :=
  match s, i with
  | _ :: s', x :: i' => x * prodn s' + ravel s' i'
  | _, _ => 0
  end.

Section FArr.
  Variable A : Type.

  Record farr := FA { sh : list nat; at_ : list nat -> A }.

  Definition rank (a : farr) := length (sh a).

  (* pointwise equality on the in-bounds indices *)
  Definition feq (a b : farr) : Prop :=
    sh a = sh b /\ forall i, inb i (sh a) = true -> at_ a i = at_ b i.

  Definition to_flat (a : farr) : list A := map (at_ a) (indices (sh a)).
  Definition of_flat (s : list nat) (data : list A) (d : A) : farr :=
    FA s (fun i => nth (ravel s i) data d).

  (* the 1-D lane through index i along axis k *)
  Definition lane (a : farr) (k : nat) (i : list nat) : list A :=
    map (fun j => at_ a (upd k j i)) (seq 0 (nth k (sh a) 0)).

  Definition origin (a : farr) : list nat := map (fun _ => 0) (sh a).

  (* numpy.apply_along_axis(g, k, a): every lane along axis k is replaced by g(lane); the
     new length of axis k is the length of g on the FIRST lane (as numpy does).  [d] is only
     the out-of-bounds default of nth. *)
  Definition apply_axis (g : list A -> list A) (d : A) (k : nat) (a : farr) : farr :=
    FA (upd k (length (g (lane a k (origin a)))) (sh a))
       (fun i => nth (nth k i 0) (g (lane a k i)) d).

  (* output length of g depends on the input length only *)
  Definition uniform (g : list A -> list A) : Prop :=
    forall l l', length l = length l' -> length (g l) = length (g l').

  (* apply g along the axes ks, first element of ks LAST (fold_right) *)
  Definition apply_axes (g : list A -> list A) (d : A) (ks : list nat) (a : farr) : farr :=
    fold_right (apply_axis g d) a ks.

  (* keepdims reduction with a binary operation and its unit *)
  Definition red (op : A -> A -> A) (e : A) (l : list A) : list A := [fold_right op e l].
End FArr.

Arguments FA {A} _ _.

(* masked cells: None = masked; a reducer skips masked cells = None is the unit *)
Definition olift {V} (f : V -> V -> V) (a b : option V) : option V :=
  match a, b with
  | Some x, Some y => Some (f x y)
  | Some x, None => Some x
  | None, y => y
  end.

Definition ma_red {V} (f : V -> V -> V) : list (option V) -> list (option V) :=
  red (olift f) None.
