(* Decimal digit strings and Python slices of them (for the '%06d' % TSTEP bookkeeping of C12).
   A string of decimal digits is a list of Z in 0..9, most significant first.  Stdlib only. *)
From Coq Require Import List ZArith Bool Lia.
Import ListNotations.
Local Open Scope Z_scope.
Ltac Zify.zify_post_hook ::= Z.to_euclidean_division_equations.

Fixpoint int_acc (acc : Z) (ds : list Z) : Z :=
  match ds with [] => acc | d :: t => int_acc (acc * 10 + d) t end.
(* int('0123') *)
Definition int_of_digits (ds : list Z) : Z := int_acc 0 ds.
Definition is_digit (d : Z) : bool := (0 <=? d) && (d <=? 9).

(* s[a:b] for a Python sequence, a and b optional (possibly negative) ints, step 1 *)
Definition py_bound (n : Z) (x : option Z) (dflt : Z) : Z :=
  match x with None => dflt | Some v => if v <? 0 then Z.max 0 (v + n) else Z.min v n end.
Definition py_slice {A} (ab : option Z * option Z) (l : list A) : list A :=
  let n := Z.of_nat (length l) in
  let st := py_bound n (fst ab) 0 in let sp := py_bound n (snd ab) n in
  firstn (Z.to_nat (sp - st)) (skipn (Z.to_nat st) l).

Lemma int_acc_app : forall a b acc, int_acc acc (a ++ b) = int_acc (int_acc acc a) b.
Proof. induction a as [|x a IH]; intros b acc; simpl; [reflexivity|apply IH]. Qed.

Lemma int_acc_shift : forall ds acc, int_acc acc ds = acc * 10 ^ Z.of_nat (length ds) + int_acc 0 ds.
Proof.
  induction ds as [|d ds IH]; intros acc.
  - simpl. lia.
  - cbn [int_acc length]. rewrite (IH (acc * 10 + d)), (IH (0 * 10 + d)).
    rewrite Nat2Z.inj_succ, Z.pow_succ_r by lia. lia.
Qed.

Lemma int_of_digits_app : forall a b,
  int_of_digits (a ++ b) = int_of_digits a * 10 ^ Z.of_nat (length b) + int_of_digits b.
Proof. intros a b. unfold int_of_digits. rewrite int_acc_app. apply int_acc_shift. Qed.

Lemma tail4 : forall (ds : list Z), (4 <= length ds)%nat ->
  exists pre a b c d, ds = pre ++ [a; b; c; d].
Proof.
  intros ds H. exists (firstn (length ds - 4) ds).
  pose proof (firstn_skipn (length ds - 4) ds) as E.
  assert (L : length (skipn (length ds - 4) ds) = 4%nat) by (rewrite skipn_length; lia).
  destruct (skipn (length ds - 4) ds) as [|a [|b [|c [|d [|e r]]]]]; simpl in L; try lia.
  exists a, b, c, d. symmetry. exact E.
Qed.

Lemma firstn_app_exact {A} (a b : list A) : firstn (length a) (a ++ b) = a.
Proof. rewrite firstn_app, firstn_all, Nat.sub_diag. simpl. apply app_nil_r. Qed.
Lemma skipn_app_exact {A} (a b : list A) : skipn (length a) (a ++ b) = b.
Proof. rewrite skipn_app, skipn_all, Nat.sub_diag. reflexivity. Qed.

(* the three slices [:-4], [-4:-2], [-2:] of a string with at least four characters *)
Lemma slices_of_tail4 {A} (pre : list A) a b c d :
  py_slice (None, Some (-4)) (pre ++ [a; b; c; d]) = pre
  /\ py_slice (Some (-4), Some (-2)) (pre ++ [a; b; c; d]) = [a; b]
  /\ py_slice (Some (-2), None) (pre ++ [a; b; c; d]) = [c; d].
Proof.
  unfold py_slice, py_bound. cbn [fst snd]. rewrite app_length. cbn [length].
  set (n := length pre).
  assert (E1 : (-4 <? 0) = true) by reflexivity. assert (E2 : (-2 <? 0) = true) by reflexivity.
  rewrite E1, E2.
  replace (Z.max 0 (-4 + Z.of_nat (n + 4))) with (Z.of_nat n) by lia.
  replace (Z.max 0 (-2 + Z.of_nat (n + 4))) with (Z.of_nat (n + 2)) by lia.
  replace (Z.to_nat (Z.of_nat n - 0)) with n by lia.
  replace (Z.to_nat (Z.of_nat (n + 2) - Z.of_nat n)) with 2%nat by lia.
  replace (Z.to_nat (Z.of_nat (n + 4) - Z.of_nat (n + 2))) with 2%nat by lia.
  rewrite !Nat2Z.id. change (Z.to_nat 0) with 0%nat. cbn [skipn].
  split; [apply firstn_app_exact|]. split.
  - subst n. rewrite skipn_app_exact. reflexivity.
  - replace (pre ++ [a; b; c; d]) with ((pre ++ [a; b]) ++ [c; d]) by (rewrite <- app_assoc; reflexivity).
    replace (n + 2)%nat with (length (pre ++ [a; b])) by (rewrite app_length; reflexivity).
    rewrite skipn_app_exact. reflexivity.
Qed.

(* int(s[:-4]), int(s[-4:-2]), int(s[-2:]) are the HHH, MM, SS fields of the number the digits spell *)
Theorem hhmmss_of_digit_slices : forall ds, forallb is_digit ds = true -> (4 <= length ds)%nat ->
  let t := int_of_digits ds in
  int_of_digits (py_slice (None, Some (-4)) ds) = t / 10000
  /\ int_of_digits (py_slice (Some (-4), Some (-2)) ds) = t mod 10000 / 100
  /\ int_of_digits (py_slice (Some (-2), None) ds) = t mod 100.
Proof.
  intros ds D L. destruct (tail4 ds L) as [pre [a [b [c [d ->]]]]].
  destruct (slices_of_tail4 pre a b c d) as [S1 [S2 S3]]. rewrite S1, S2, S3.
  cbv zeta. rewrite int_of_digits_app.
  rewrite forallb_app in D. apply andb_true_iff in D as [_ D]. cbn [forallb] in D.
  unfold is_digit in D.
  apply andb_true_iff in D as [Da D]. apply andb_true_iff in D as [Db D].
  apply andb_true_iff in D as [Dc D]. apply andb_true_iff in D as [Dd _].
  apply andb_true_iff in Da as [Da1 Da2]. apply andb_true_iff in Db as [Db1 Db2].
  apply andb_true_iff in Dc as [Dc1 Dc2]. apply andb_true_iff in Dd as [Dd1 Dd2].
  apply Z.leb_le in Da1, Da2, Db1, Db2, Dc1, Dc2, Dd1, Dd2.
  unfold int_of_digits. cbn [int_acc length].
  change (10 ^ Z.of_nat 4) with 10000.
  set (p := int_acc 0 pre). lia.
Qed.
