(* Fortran unformatted sequential records at the 4-byte-word level.
   A file is a list of words (big-endian 32-bit values, as Z). A record with payload r is
   written as  [4*|r|] ++ r ++ [4*|r|]  (leading and trailing byte-count markers).
   Also: fixed-size chunking (what a numpy structured dtype over a buffer does). *)
From PNC Require Import Base.Util.
Local Open Scope Z_scope.

Notation word := Z (only parsing).
Notation record := (list Z) (only parsing).

Definition marker (r : record) : Z := 4 * Z.of_nat (length r).
Definition frame1 (r : record) : list word := marker r :: r ++ [marker r].
Definition frame (rs : list record) : list word := concat (map frame1 rs).

(* Reference decoder: walks the records, checks both markers, accepts only exact tilings.
   fuel: any number > number of records (length of the input always suffices). *)
Fixpoint unframe (fuel : nat) (ws : list word) : option (list record) :=
  match ws with
  | [] => Some []
  | m :: t =>
    match fuel with
    | O => None
    | S f =>
      if (0 <=? m) && (m mod 4 =? 0) then
        let n := Z.to_nat (m / 4) in
        if (n <? length t)%nat then
          match skipn n t with
          | e :: t' => if e =? m then
                         match unframe f t' with Some rs => Some (firstn n t :: rs) | None => None end
                       else None
          | [] => None
          end
        else None
      else None
    end
  end.

Definition unframe_all (ws : list word) : option (list record) := unframe (S (length ws)) ws.

(* ---- chunking ---------------------------------------------------------------------- *)
(* split l into consecutive chunks of n elements; None unless |l| is a multiple of n (n>0) *)
Fixpoint chunks_fuel (fuel : nat) (n : nat) (l : list word) : option (list (list word)) :=
  match l with
  | [] => Some []
  | _ =>
    match fuel with
    | O => None
    | S f => if (n =? 0)%nat then None else
             if (length l <? n)%nat then None else
             match chunks_fuel f n (skipn n l) with
             | Some cs => Some (firstn n l :: cs)
             | None => None
             end
    end
  end.
Definition chunks (n : nat) (l : list word) := chunks_fuel (S (length l)) n l.
