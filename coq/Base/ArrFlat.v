(* Flat (row-major, C order) n-d arrays and Python/numpy selector normalisation.
   Shared by C02 (Model/Slice.v) and C04 (Model/Stack.v).  Definitions only; lemmas are in
   Proofs/ArrFlatProofs.v.  An array is a shape (list nat) plus its cells in C order; cells are an
   abstract type (values are only moved), masked cells are `None` of `option Z` at the use sites. *)
From PNC Require Import Base.Util.

Definition prodn (l : list nat) : nat := fold_right Nat.mul 1%nat l.

(* i-th block of m cells *)
Definition chunk {A} (m i : nat) (d : list A) : list A := firstn m (skipn (i * m) d).

Fixpoint mapM {A B} (f : A -> option B) (l : list A) : option (list B) :=
  match l with
  | [] => Some []
  | x :: t => match f x, mapM f t with Some y, Some r => Some (y :: r) | _, _ => None end
  end.

Definition insert_at {A} (k : nat) (x : A) (l : list A) : list A := firstn k l ++ x :: skipn k l.

(* ---- selectors as the caller writes them (Python ints may be negative) ------------------ *)
Inductive sel :=
| SInt (z : Z)
| SSlice (start stop step : option Z)
| SList (l : list Z).

(* ---- selectors after normalisation against an axis length: explicit source indices ------- *)
Inductive rsel :=
| RInt (i : nat)
| RSlice (l : list nat)
| RList (l : list nat).

Definition rindices (r : rsel) : list nat :=
  match r with RInt i => [i] | RSlice l => l | RList l => l end.
Definition rcount (r : rsel) : nat := length (rindices r).
Definition is_slice (r : rsel) : bool := match r with RSlice _ => true | _ => false end.
Definition is_list (r : rsel) : bool := match r with RList _ => true | _ => false end.
Definition is_int (r : rsel) : bool := match r with RInt _ => true | _ => false end.

Local Open Scope Z_scope.

(* numpy integer index: negative wraps once, otherwise IndexError (None) *)
Definition norm_index (n : nat) (z : Z) : option nat :=
  let n := Z.of_nat n in
  if (0 <=? z) && (z <? n) then Some (Z.to_nat z)
  else if (z <? 0) && (- n <=? z) then Some (Z.to_nat (z + n))
  else None.

(* CPython PySlice_AdjustIndices for one bound *)
Definition adjust (n step v : Z) : Z :=
  if v <? 0 then (if v + n <? 0 then (if step <? 0 then -1 else 0) else v + n)
  else if n <=? v then (if step <? 0 then n - 1 else n)
  else v.

Definition slice_start (n step : Z) (a : option Z) : Z :=
  match a with Some v => adjust n step v | None => if step <? 0 then n - 1 else 0 end.
Definition slice_stop (n step : Z) (b : option Z) : Z :=
  match b with Some v => adjust n step v | None => if step <? 0 then -1 else n end.
Definition slice_len (start stop step : Z) : Z :=
  if step <? 0 then (if stop <? start then (start - stop - 1) / (- step) + 1 else 0)
  else (if start <? stop then (stop - start - 1) / step + 1 else 0).

(* the index sequence range(start, stop, step) of slice(a,b,c).indices(n); step 0 is a ValueError (None) *)
Definition slice_indices (n : nat) (a b c : option Z) : option (list nat) :=
  let step := match c with Some s => s | None => 1 end in
  if step =? 0 then None else
  let nz := Z.of_nat n in
  let start := slice_start nz step a in
  let stop := slice_stop nz step b in
  Some (map (fun k => Z.to_nat (start + Z.of_nat k * step))
            (seq 0 (Z.to_nat (slice_len start stop step)))).

Definition resolve (n : nat) (s : sel) : option rsel :=
  match s with
  | SInt z => option_map RInt (norm_index n z)
  | SSlice a b c => option_map RSlice (slice_indices n a b c)
  | SList l => option_map RList (mapM (norm_index n) l)
  end.

Definition rsel_ok (n : nat) (r : rsel) : bool := forallb (fun i => Nat.ltb i n) (rindices r).
