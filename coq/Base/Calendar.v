(* Calendar arithmetic on Z (shared by C12 / C11).  Stdlib only, no axioms.
   Day numbers are days since 1970-01-01 (proleptic Gregorian); instants are seconds or
   microseconds since 1970-01-01T00:00:00Z, always named.  Definitions first (executable),
   then the proved inverses.

   Independent of the library under verification: written from the calendar rules
   (leap year = divisible by 4 and not by 100, or by 400; month lengths table). *)
From Coq Require Import List ZArith Bool Lia.
Import ListNotations.
Local Open Scope Z_scope.

Ltac Zify.zify_post_hook ::= Z.to_euclidean_division_equations.

(* ------------------------------------------------------------------ years *)
Definition is_leap (y : Z) : bool :=
  ((y mod 4 =? 0) && negb (y mod 100 =? 0)) || (y mod 400 =? 0).
Definition year_len (y : Z) : Z := if is_leap y then 366 else 365.

(* days from 0001-01-01 to Jan 1 of year y (any y in Z, proleptic) *)
Definition days_before_year (y : Z) : Z :=
  let p := y - 1 in 365 * p + p / 4 - p / 100 + p / 400.
(* day number (since 1970-01-01) of Jan 1 of year y *)
Definition jan1 (y : Z) : Z := days_before_year y - 719162.

(* day number -> (year, day-of-year 1..366); 400-year eras of 146097 days *)
Definition yoe_of_doe (doe : Z) : Z := (doe - doe / 1460 + doe / 36524 - doe / 146096) / 365.
Definition dby (yoe : Z) : Z := 365 * yoe + yoe / 4 - yoe / 100 + yoe / 400.
Definition yj_of_days (n : Z) : Z * Z :=
  let N := n + 719162 in
  let era := N / 146097 in
  let doe := N mod 146097 in
  let yoe := yoe_of_doe doe in
  (era * 400 + yoe + 1, doe - dby yoe + 1).
Definition days_of_yj (y j : Z) : Z := jan1 y + j - 1.

(* ------------------------------------------------------------------ months *)
Definition month_lens (leap : bool) : list Z :=
  [31; if leap then 29 else 28; 31; 30; 31; 30; 31; 31; 30; 31; 30; 31].

Fixpoint md_scan (ls : list Z) (m j : Z) : Z * Z :=
  match ls with
  | [] => (m, j)
  | l :: t => if j <=? l then (m, j) else md_scan t (m + 1) (j - l)
  end.
(* day-of-year (1-based) -> (month, day) *)
Definition md_of_doy (leap : bool) (j : Z) : Z * Z := md_scan (month_lens leap) 1 j.

Fixpoint cum_days (ls : list Z) (m : Z) (fuel : nat) : Z :=
  match fuel, ls with
  | S f, l :: t => if m <=? 1 then 0 else l + cum_days t (m - 1) f
  | _, _ => 0
  end.
Definition doy_of_md (leap : bool) (m d : Z) : Z := cum_days (month_lens leap) m 12 + d.
Definition month_len (leap : bool) (m : Z) : Z := nth (Z.to_nat (m - 1)) (month_lens leap) 0.
Definition valid_md (leap : bool) (m d : Z) : bool :=
  (1 <=? m) && (m <=? 12) && (1 <=? d) && (d <=? month_len leap m).

(* ------------------------------------------------------------------ civil dates *)
Definition valid_date (y m d : Z) : bool := valid_md (is_leap y) m d.
Definition days_of_civil (y m d : Z) : Z := jan1 y + doy_of_md (is_leap y) m d - 1.
Definition civil_of_days (n : Z) : Z * Z * Z :=
  let '(y, j) := yj_of_days n in
  let '(m, d) := md_of_doy (is_leap y) j in (y, m, d).

(* fixed-length-year calendars: noleap (leap=false, 365) and all_leap (leap=true, 366);
   day number counted from Jan 1 of year 0 of that calendar *)
Definition fixed_len (leap : bool) : Z := if leap then 366 else 365.
Definition days_of_fixed (leap : bool) (y m d : Z) : Z := y * fixed_len leap + doy_of_md leap m d - 1.
Definition fixed_of_days (leap : bool) (n : Z) : Z * Z * Z :=
  let y := n / fixed_len leap in
  let '(m, d) := md_of_doy leap (n mod fixed_len leap + 1) in (y, m, d).

(* ------------------------------------------------------------------ IOAPI integers *)
Definition yyyyjjj (y j : Z) : Z := y * 1000 + j.
Definition yj_of_yyyyjjj (d : Z) : Z * Z := (d / 1000, d mod 1000).

Definition hhmmss_h (t : Z) : Z := t / 10000.
Definition hhmmss_m (t : Z) : Z := t mod 10000 / 100.
Definition hhmmss_s (t : Z) : Z := t mod 100.
Definition sec_of_hhmmss (t : Z) : Z := hhmmss_h t * 3600 + hhmmss_m t * 60 + hhmmss_s t.
Definition hhmmss_of_hms (h m s : Z) : Z := h * 10000 + m * 100 + s.
(* seconds -> HHMMSS with unbounded hours *)
Definition hhmmss_of_sec (s : Z) : Z := hhmmss_of_hms (s / 3600) (s mod 3600 / 60) (s mod 60).
Definition valid_hhmmss (t : Z) : bool :=
  (0 <=? t) && (hhmmss_h t <? 24) && (hhmmss_m t <? 60) && (hhmmss_s t <? 60).
(* a step (duration) HHMMSS: hours unbounded, minutes and seconds < 60 *)
Definition valid_step (t : Z) : bool := (0 <=? t) && (hhmmss_m t <? 60) && (hhmmss_s t <? 60).
Definition valid_yj (y j : Z) : bool := (1 <=? j) && (j <=? year_len y).

(* instant (seconds since epoch) of an IOAPI date/time pair *)
Definition sec_of_flag (date time : Z) : Z :=
  let '(y, j) := yj_of_yyyyjjj date in days_of_yj y j * 86400 + sec_of_hhmmss time.
(* and back: (YYYYJJJ, HHMMSS) of an instant *)
Definition flag_of_sec (t : Z) : Z * Z :=
  let '(y, j) := yj_of_days (t / 86400) in (yyyyjjj y j, hhmmss_of_sec (t mod 86400)).

(* ------------------------------------------------------------------ bounded universal check *)
Fixpoint all_from (n : nat) (k : Z) (p : Z -> bool) : bool :=
  match n with O => true | S m => p k && all_from m (k + 1) p end.

Lemma all_from_spec : forall n k p, all_from n k p = true ->
  forall j, k <= j < k + Z.of_nat n -> p j = true.
Proof.
  induction n as [|n IH]; intros k p H j Hj; [lia|].
  simpl in H. apply andb_true_iff in H as [H1 H2].
  destruct (Z.eq_dec j k) as [->|Hne]; [exact H1|].
  apply (IH (k + 1) p H2). lia.
Qed.

Lemma all_range : forall lo hi p, all_from (Z.to_nat (hi - lo)) lo p = true ->
  forall j, lo <= j < hi -> p j = true.
Proof. intros lo hi p H j Hj. apply (all_from_spec _ _ _ H). lia. Qed.

(* ================================================================== proofs *)

(* ---- years *)
Lemma jan1_succ : forall y, jan1 (y + 1) = jan1 y + year_len y.
Proof.
  intros y. unfold jan1, days_before_year, year_len, is_leap.
  replace (y + 1 - 1) with y by lia.
  destruct (y mod 4 =? 0) eqn:E4; destruct (y mod 100 =? 0) eqn:E100;
    destruct (y mod 400 =? 0) eqn:E400; cbn [andb orb negb];
    rewrite ?Z.eqb_eq, ?Z.eqb_neq in *; lia.
Qed.

Lemma year_len_pos : forall y, 365 <= year_len y <= 366.
Proof. intros y. unfold year_len. destruct (is_leap y); lia. Qed.

Lemma jan1_mono : forall y y', y < y' -> jan1 (y + 1) <= jan1 y'.
Proof. intros y y' H. unfold jan1, days_before_year. lia. Qed.

(* a day number lies in at most one year *)
Lemma year_unique : forall n y y',
  jan1 y <= n < jan1 (y + 1) -> jan1 y' <= n < jan1 (y' + 1) -> y = y'.
Proof.
  intros n y y' H H'.
  destruct (Z.lt_trichotomy y y') as [L|[E|L]]; [|exact E|].
  - pose proof (jan1_mono _ _ L). lia.
  - pose proof (jan1_mono _ _ L). lia.
Qed.

(* finite sweep over one 400-year era: the year-of-era formula is right for every day *)
Definition era_ok (doe : Z) : bool :=
  let yoe := yoe_of_doe doe in
  (0 <=? yoe) && (yoe <? 400) && (dby yoe <=? doe) && (doe <? dby (yoe + 1)).

Lemma era_sweep : all_from (Z.to_nat (146097 - 0)) 0 era_ok = true.
Proof. vm_compute. reflexivity. Qed.

Lemma era_ok_all : forall doe, 0 <= doe < 146097 ->
  let yoe := yoe_of_doe doe in 0 <= yoe < 400 /\ dby yoe <= doe < dby (yoe + 1).
Proof.
  intros doe H. pose proof (all_range 0 146097 era_ok era_sweep doe H) as E.
  unfold era_ok in E. cbv zeta in *.
  apply andb_true_iff in E as [E E4]. apply andb_true_iff in E as [E E3].
  apply andb_true_iff in E as [E1 E2].
  apply Z.leb_le in E1, E3. apply Z.ltb_lt in E2, E4. lia.
Qed.

Lemma dby_shift : forall era yoe, 0 <= yoe <= 400 ->
  days_before_year (era * 400 + yoe + 1) = era * 146097 + dby yoe.
Proof. intros era yoe H. unfold days_before_year, dby. lia. Qed.

Theorem yj_of_days_spec : forall n, let '(y, j) := yj_of_days n in
  jan1 y <= n < jan1 (y + 1) /\ j = n - jan1 y + 1.
Proof.
  intros n. unfold yj_of_days.
  set (N := n + 719162). set (era := N / 146097). set (doe := N mod 146097).
  assert (Hdoe : 0 <= doe < 146097) by (subst doe; apply Z.mod_pos_bound; lia).
  assert (HN : N = era * 146097 + doe) by (subst era doe; pose proof (Z.div_mod N 146097); lia).
  destruct (era_ok_all doe Hdoe) as [Hy Hd].
  set (yoe := yoe_of_doe doe) in *.
  unfold jan1.
  replace (era * 400 + yoe + 1 + 1) with (era * 400 + (yoe + 1) + 1) by lia.
  rewrite !dby_shift by lia. lia.
Qed.

Theorem days_of_yj_of_days : forall n, let '(y, j) := yj_of_days n in days_of_yj y j = n.
Proof.
  intros n. pose proof (yj_of_days_spec n) as H. destruct (yj_of_days n) as [y j].
  unfold days_of_yj. lia.
Qed.

Theorem yj_of_days_valid : forall n, let '(y, j) := yj_of_days n in valid_yj y j = true.
Proof.
  intros n. pose proof (yj_of_days_spec n) as H. destruct (yj_of_days n) as [y j].
  rewrite jan1_succ in H. unfold valid_yj. apply andb_true_iff. rewrite Z.leb_le, Z.leb_le. lia.
Qed.

Theorem yj_of_days_of_yj : forall y j, valid_yj y j = true -> yj_of_days (days_of_yj y j) = (y, j).
Proof.
  intros y j V. unfold valid_yj in V. apply andb_true_iff in V as [V1 V2].
  rewrite Z.leb_le in *.
  pose proof (yj_of_days_spec (days_of_yj y j)) as H.
  destruct (yj_of_days (days_of_yj y j)) as [y' j'].
  assert (E : y = y').
  { apply (year_unique (days_of_yj y j)); [|tauto].
    rewrite jan1_succ. unfold days_of_yj. lia. }
  subst y'. f_equal. unfold days_of_yj in *. lia.
Qed.

(* ---- months: finite sweeps *)
Definition md_ok (leap : bool) (j : Z) : bool :=
  let '(m, d) := md_of_doy leap j in valid_md leap m d && (doy_of_md leap m d =? j).

Lemma md_sweep : all_from (Z.to_nat (366 - 1)) 1 (md_ok false) = true
              /\ all_from (Z.to_nat (367 - 1)) 1 (md_ok true) = true.
Proof. split; vm_compute; reflexivity. Qed.

Theorem md_of_doy_spec : forall leap j, 1 <= j <= fixed_len leap ->
  let '(m, d) := md_of_doy leap j in valid_md leap m d = true /\ doy_of_md leap m d = j.
Proof.
  intros leap j H. destruct md_sweep as [S0 S1].
  assert (E : md_ok leap j = true).
  { destruct leap; simpl in H.
    - apply (all_range 1 367 _ S1). lia.
    - apply (all_range 1 366 _ S0). lia. }
  unfold md_ok in E. destruct (md_of_doy leap j) as [m d].
  apply andb_true_iff in E as [E1 E2]. rewrite Z.eqb_eq in E2. tauto.
Qed.

Definition dm_ok (leap : bool) (k : Z) : bool :=   (* k encodes (m, d) as (m-1)*32 + d *)
  let m := k / 32 + 1 in let d := k mod 32 in
  negb (valid_md leap m d) ||
  ((1 <=? doy_of_md leap m d) && (doy_of_md leap m d <=? fixed_len leap) &&
   (let '(m', d') := md_of_doy leap (doy_of_md leap m d) in (m' =? m) && (d' =? d))).

Lemma dm_sweep : all_from (Z.to_nat (384 - 0)) 0 (dm_ok false) = true
              /\ all_from (Z.to_nat (384 - 0)) 0 (dm_ok true) = true.
Proof. split; vm_compute; reflexivity. Qed.

Lemma valid_md_bounds : forall leap m d, valid_md leap m d = true -> 1 <= m <= 12 /\ 1 <= d <= 31.
Proof.
  intros leap m d V. unfold valid_md in V. repeat (apply andb_true_iff in V as [V ?]).
  rewrite ?Z.leb_le in *.
  assert (Hm : month_len leap m <= 31).
  { unfold month_len.
    assert (Hc : m = 1 \/ m = 2 \/ m = 3 \/ m = 4 \/ m = 5 \/ m = 6 \/ m = 7 \/ m = 8 \/ m = 9
                 \/ m = 10 \/ m = 11 \/ m = 12) by lia.
    destruct leap; repeat (destruct Hc as [->|Hc]; [vm_compute; discriminate|]); subst; vm_compute; discriminate. }
  lia.
Qed.

Theorem doy_of_md_spec : forall leap m d, valid_md leap m d = true ->
  1 <= doy_of_md leap m d <= fixed_len leap /\ md_of_doy leap (doy_of_md leap m d) = (m, d).
Proof.
  intros leap m d V. pose proof (valid_md_bounds _ _ _ V) as B.
  destruct dm_sweep as [S0 S1].
  assert (E : dm_ok leap ((m - 1) * 32 + d) = true).
  { destruct leap; [apply (all_range 0 384 _ S1)|apply (all_range 0 384 _ S0)]; lia. }
  unfold dm_ok in E.
  replace (((m - 1) * 32 + d) / 32 + 1) with m in E by lia.
  replace (((m - 1) * 32 + d) mod 32) with d in E by lia.
  rewrite V in E. simpl in E.
  destruct (md_of_doy leap (doy_of_md leap m d)) as [m' d'].
  apply andb_true_iff in E as [E E3]. apply andb_true_iff in E as [E1 E2].
  apply andb_true_iff in E3 as [E3 E4].
  apply Z.leb_le in E1, E2. apply Z.eqb_eq in E3, E4. subst. split; [lia|reflexivity].
Qed.

(* ---- civil dates *)
Lemma fixed_len_year : forall y, fixed_len (is_leap y) = year_len y.
Proof. reflexivity. Qed.

Theorem civil_of_days_of_civil : forall y m d, valid_date y m d = true ->
  civil_of_days (days_of_civil y m d) = (y, m, d).
Proof.
  intros y m d V. unfold valid_date in V.
  destruct (doy_of_md_spec _ _ _ V) as [B E].
  unfold civil_of_days, days_of_civil.
  replace (jan1 y + doy_of_md (is_leap y) m d - 1) with (days_of_yj y (doy_of_md (is_leap y) m d))
    by (unfold days_of_yj; lia).
  rewrite yj_of_days_of_yj.
  - rewrite E. reflexivity.
  - unfold valid_yj. rewrite <- fixed_len_year. apply andb_true_iff. rewrite !Z.leb_le. lia.
Qed.

Theorem days_of_civil_of_days : forall n, let '(y, m, d) := civil_of_days n in
  days_of_civil y m d = n /\ valid_date y m d = true.
Proof.
  intros n. unfold civil_of_days.
  pose proof (yj_of_days_spec n) as H. pose proof (yj_of_days_valid n) as V.
  destruct (yj_of_days n) as [y j].
  unfold valid_yj in V. apply andb_true_iff in V as [V1 V2]. rewrite Z.leb_le in *.
  pose proof (md_of_doy_spec (is_leap y) j) as M. rewrite fixed_len_year in M.
  specialize (M (conj V1 V2)).
  destruct (md_of_doy (is_leap y) j) as [m d]. destruct M as [M1 M2].
  unfold days_of_civil, valid_date. rewrite M2. split; [lia|exact M1].
Qed.

(* ---- fixed-length calendars *)
Theorem fixed_of_days_of_fixed : forall leap y m d, valid_md leap m d = true ->
  fixed_of_days leap (days_of_fixed leap y m d) = (y, m, d).
Proof.
  intros leap y m d V. destruct (doy_of_md_spec _ _ _ V) as [B E].
  unfold fixed_of_days, days_of_fixed.
  set (j := doy_of_md leap m d) in *.
  assert (Q : (y * fixed_len leap + j - 1) / fixed_len leap = y
              /\ (y * fixed_len leap + j - 1) mod fixed_len leap + 1 = j).
  { destruct leap; cbn [fixed_len] in *; lia. }
  destruct Q as [Q1 Q2]. rewrite Q1, Q2, E. reflexivity.
Qed.

Theorem days_of_fixed_of_days : forall leap n, let '(y, m, d) := fixed_of_days leap n in
  days_of_fixed leap y m d = n /\ valid_md leap m d = true.
Proof.
  intros leap n. unfold fixed_of_days.
  assert (R : 1 <= n mod fixed_len leap + 1 <= fixed_len leap)
    by (destruct leap; cbn [fixed_len]; lia).
  pose proof (md_of_doy_spec leap _ R) as M.
  destruct (md_of_doy leap (n mod fixed_len leap + 1)) as [m d]. destruct M as [M1 M2].
  unfold days_of_fixed. rewrite M2. split; [|exact M1].
  destruct leap; cbn [fixed_len]; lia.
Qed.

(* ---- IOAPI integers *)
Theorem yj_of_yyyyjjj_of : forall y j, 0 <= j < 1000 -> yj_of_yyyyjjj (yyyyjjj y j) = (y, j).
Proof. intros y j H. unfold yj_of_yyyyjjj, yyyyjjj. f_equal; lia. Qed.

Theorem yyyyjjj_of_yj : forall d, let '(y, j) := yj_of_yyyyjjj d in yyyyjjj y j = d.
Proof. intros d. unfold yj_of_yyyyjjj, yyyyjjj. lia. Qed.

Theorem hms_of_hhmmss : forall h m s, 0 <= m < 100 -> 0 <= s < 100 ->
  let t := hhmmss_of_hms h m s in hhmmss_h t = h /\ hhmmss_m t = m /\ hhmmss_s t = s.
Proof. intros h m s Hm Hs. unfold hhmmss_of_hms, hhmmss_h, hhmmss_m, hhmmss_s. repeat split; lia. Qed.

Theorem sec_of_hhmmss_of_sec : forall s, sec_of_hhmmss (hhmmss_of_sec s) = s.
Proof.
  intros s. unfold hhmmss_of_sec.
  destruct (hms_of_hhmmss (s / 3600) (s mod 3600 / 60) (s mod 60)) as [A [B C]]; try lia.
  unfold sec_of_hhmmss. rewrite A, B, C. lia.
Qed.

Theorem hhmmss_of_sec_of_hhmmss : forall t, hhmmss_m t < 60 -> hhmmss_s t < 60 ->
  hhmmss_of_sec (sec_of_hhmmss t) = t.
Proof.
  intros t Hm Hs. unfold hhmmss_of_sec, sec_of_hhmmss, hhmmss_of_hms, hhmmss_h, hhmmss_m, hhmmss_s in *.
  lia.
Qed.

Theorem valid_hhmmss_sec : forall t, valid_hhmmss t = true -> 0 <= sec_of_hhmmss t < 86400.
Proof.
  intros t V. unfold valid_hhmmss in V. repeat (apply andb_true_iff in V as [V ?]).
  rewrite ?Z.leb_le, ?Z.ltb_lt in *.
  unfold sec_of_hhmmss, hhmmss_h, hhmmss_m, hhmmss_s in *. lia.
Qed.

(* flags <-> instants *)
Theorem flag_of_sec_of_flag : forall y j t, valid_yj y j = true -> valid_hhmmss t = true ->
  flag_of_sec (sec_of_flag (yyyyjjj y j) t) = (yyyyjjj y j, t).
Proof.
  intros y j t Vj Vt. pose proof (valid_hhmmss_sec t Vt) as B.
  assert (Hj : 0 <= j < 1000).
  { unfold valid_yj in Vj. apply andb_true_iff in Vj as [A C]. rewrite Z.leb_le in *.
    pose proof (year_len_pos y). lia. }
  unfold sec_of_flag. rewrite yj_of_yyyyjjj_of by exact Hj.
  unfold flag_of_sec.
  replace ((days_of_yj y j * 86400 + sec_of_hhmmss t) / 86400) with (days_of_yj y j) by lia.
  replace ((days_of_yj y j * 86400 + sec_of_hhmmss t) mod 86400) with (sec_of_hhmmss t) by lia.
  rewrite yj_of_days_of_yj by exact Vj.
  rewrite hhmmss_of_sec_of_hhmmss; [reflexivity| |];
    unfold valid_hhmmss in Vt; repeat (apply andb_true_iff in Vt as [Vt ?]); rewrite ?Z.ltb_lt in *; lia.
Qed.

Theorem sec_of_flag_of_sec : forall t, let '(d, h) := flag_of_sec t in
  sec_of_flag d h = t /\ valid_hhmmss h = true.
Proof.
  intros t. unfold flag_of_sec.
  pose proof (yj_of_days_spec (t / 86400)) as H. pose proof (yj_of_days_valid (t / 86400)) as V.
  destruct (yj_of_days (t / 86400)) as [y j].
  assert (Hj : 0 <= j < 1000).
  { unfold valid_yj in V. apply andb_true_iff in V as [A C]. rewrite Z.leb_le in *.
    pose proof (year_len_pos y). lia. }
  unfold sec_of_flag. rewrite yj_of_yyyyjjj_of by exact Hj.
  rewrite sec_of_hhmmss_of_sec. split.
  - unfold days_of_yj. lia.
  - unfold valid_hhmmss, hhmmss_of_sec, hhmmss_of_hms, hhmmss_h, hhmmss_m, hhmmss_s.
    repeat (apply andb_true_iff; split); rewrite ?Z.leb_le, ?Z.ltb_lt; lia.
Qed.
