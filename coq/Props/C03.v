(* C03 — apply-along-dimension equals the numpy reduction along that axis.
   Property statements only; every proof is `exact <lemma>` or a vm_compute witness.
   Model: Model/Apply.v over Base/NdApply.v.  An array is (shape, index function); "apply g
   along axis k" is DEFINED pointwise: out[i] = g(lane of the input through i along k)[i_k]
   (NdApply.apply_axis), which is the meaning of numpy.apply_along_axis / method(axis=k,
   keepdims=True); that numpy implements this definition is established by the correspondence.
   The same model call impl_apply also denotes (correspondence, Corr/C03.v): the IOAPI wrapper
   ioapi_base.applyAlongDimensions on the data variables, its VGLVLS recomputation (impl_apply on a
   (lay, nv) bounds variable) and the string forms reduce_dim(f, 'dim,func') = impl_apply f [(dim, func)],
   convolve_dim(f, 'dim,mode,w...') = impl_apply f [(dim, FConv mode w)]. *)
From PNC Require Import Base.Util Base.NdApply Model.Apply Proofs.NdApplyProofs Proofs.ApplyProofs Proofs.ApplyIntProofs Proofs.ApplyCompleteProofs Gen.C03Src.
Require Import QArith Permutation.
Local Close Scope Q_scope.
Local Open Scope nat_scope.

(* (1) Commuting reducers.  For EVERY cell type, every associative-commutative operation with a
   unit, every rank and shape: keepdims reductions along a set of distinct axes give the same
   array (on all in-bounds indices) whatever the order of the axes. *)
Theorem C03_reducers_any_order : forall (A : Type) (op : A -> A -> A) (e : A),
  (forall a b c, op a (op b c) = op (op a b) c) -> (forall a b, op a b = op b a) ->
  (forall a, op e a = a) ->
  forall d ks ks' (a : farr A),
  Permutation ks ks' -> NoDup ks -> (forall k, In k ks -> k < rank a) ->
  feq (apply_axes (red op e) d ks a) (apply_axes (red op e) d ks' a).
Proof. exact red_axes_perm. Qed.
Print Assumptions C03_reducers_any_order.

(* (1') the masked-aware form: cells are option V, masked cells (None) are skipped by the
   reducer; holds for sum/prod/min/max over any V whose operation is associative-commutative *)
Theorem C03_masked_reducers_any_order : forall (V : Type) (f : V -> V -> V),
  (forall a b c, f a (f b c) = f (f a b) c) -> (forall a b, f a b = f b a) ->
  forall d ks ks' (a : farr (option V)),
  Permutation ks ks' -> NoDup ks -> (forall k, In k ks -> k < rank a) ->
  feq (apply_axes (ma_red f) d ks a) (apply_axes (ma_red f) d ks' a).
Proof. exact ma_red_axes_perm. Qed.
Print Assumptions C03_masked_reducers_any_order.

(* a masked-aware reduction of a lane is masked exactly when every cell of the lane is *)
Theorem C03_masked_iff_all_masked : forall (V : Type) (f : V -> V -> V) (l : list (option V)),
  fold_right (olift f) None l = None <-> forall c, In c l -> c = None.
Proof. exact ma_fold_all_masked. Qed.
Print Assumptions C03_masked_iff_all_masked.

(* (2) In the executable model of applyAlongDimensions: when every named dimension of a variable
   carries 'sum' (or every one 'prod'), composing the per-axis reductions in any order of the
   named axes gives the same array as the code's order (last axis first). *)
Theorem C03_sum_prod_any_order : forall dfs v fd ks,
  fd = RSum \/ fd = RProd ->
  (forall d fd', In d (vdims v) -> lookup d dfs = Some fd' -> fd' = fd) ->
  length (sh (vdat v)) = length (vdims v) ->
  Permutation (named_axes dfs v) ks ->
  feq (seq_apply dfs v (named_axes dfs v)) (seq_apply dfs v ks).
Proof. exact sum_prod_any_order. Qed.
Print Assumptions C03_sum_prod_any_order.

(* (3) The code never looks at the order in which the dimensions are named (all functions, all
   files): a permuted keyword list gives the identical result. *)
Theorem C03_naming_order_irrelevant : forall f dfs dfs' r,
  Permutation dfs dfs' -> NoDup (map fst dfs) ->
  impl_apply f dfs = Ok r -> impl_apply f dfs' = Ok r.
Proof. exact naming_order_irrelevant. Qed.
Print Assumptions C03_naming_order_irrelevant.

(* (4) Every output variable IS the composition of the per-axis applications over exactly its
   named axes, last axis first (reducers and callables incl. the dict form, masked or not, any
   rank, any dtype: the result variable takes the result's dtype, nothing is cast). *)
Theorem C03_values_axiswise : forall f dfs r v,
  impl_apply f dfs = Ok r -> In v (fvars f) ->
  In (Var (vname v) (vdims v) (seq_apply dfs v (named_axes dfs v))) (fvars r).
Proof. exact all_vars_axiswise. Qed.
Print Assumptions C03_values_axiswise.

(* (5) FULL: every completed call satisfies the property (all files, all dtypes, all functions). *)
Theorem C03_spec : forall f dfs r,
  impl_apply f dfs = Ok r -> spec_file_ok dfs f r = true.
Proof. exact files_satisfy. Qed.
Print Assumptions C03_spec.

(* (6) Variables lacking the named dimensions are unchanged (the very same variable). *)
Theorem C03_unaffected_vars : forall f dfs r v,
  impl_apply f dfs = Ok r -> In v (fvars f) ->
  (forall d, In d (vdims v) -> lookup d dfs = None) ->
  In v (fvars r).
Proof. exact unaffected_vars. Qed.
Print Assumptions C03_unaffected_vars.

(* (7) Dimensions: names and order are kept; a named dimension takes the length of the function's
   output on its coordinate (1 for a named reducer), the others keep their length; and every
   output variable (hence the coordinate variable) has exactly the shape of its new dimensions. *)
Theorem C03_new_dimlens : forall f dfs r d n,
  impl_apply f dfs = Ok r -> NoDup (map fst dfs) -> lookup d (fdims f) = Some n ->
  map fst (fdims r) = map fst (fdims f) /\
  lookup d (fdims r) =
    Some (match lookup d dfs with
          | Some fd => match newlen fd (coord_lane f d n) with Ok m => m | Err _ => n end
          | None => n
          end).
Proof. exact new_dimlens. Qed.
Print Assumptions C03_new_dimlens.

Theorem C03_reducer_len_one : forall fd l, In fd [RSum; RProd; RMin; RMax; RMean] -> newlen fd l = Ok 1.
Proof. exact newlen_reducer. Qed.
Print Assumptions C03_reducer_len_one.

Theorem C03_result_wellformed : forall f dfs r,
  impl_apply f dfs = Ok r -> forall v', In v' (fvars r) -> wf_var r v' = true.
Proof. exact result_wellformed. Qed.
Print Assumptions C03_result_wellformed.

(* (8) Regression of the repaired defect C03-apply-result-dtype: x = [0,1] with x='mean' is 1/2
   (it used to be stored truncated to 0 in an integer variable). *)
Definition wit_file : file :=
  File [(0, 2)] [Var 0 [0] (of_flat [2] [Some (0 # 1)%Q; Some (1 # 1)%Q] None)].
Example C03_mean_not_truncated :
  wf_file wit_file = true /\
  match impl_apply wit_file [(0, RMean)] with
  | Ok r => cells_close (concat (map (fun v => to_flat (vdat v)) (fvars r))) [Some (1 # 2)%Q]
  | Err _ => false
  end = true.
Proof. vm_compute. split; reflexivity. Qed.

(* (9) Value class of integer variables (numpy keeps an integer dtype exactly for these functions;
   the dtype itself is checked by the correspondence oracle): an integer-valued lane / variable
   stays integer-valued under sum, prod, min, max, diff, sub-sampling and convolution with an
   integer kernel, all ranks, masked or not ... *)
Theorem C03_integer_lanes_stay_integer : forall fd l,
  int_preserving fd -> Forall cell_int l -> Forall cell_int (run fd l).
Proof. exact run_int. Qed.
Print Assumptions C03_integer_lanes_stay_integer.

Theorem C03_integer_vars_stay_integer : forall f dfs r v,
  impl_apply f dfs = Ok r -> In v (fvars f) -> arr_int (vdat v) ->
  (forall d fd, In d (vdims v) -> lookup d dfs = Some fd -> int_preserving fd) ->
  exists v', In v' (fvars r) /\ vname v' = vname v /\ vdims v' = vdims v /\ arr_int (vdat v').
Proof. exact integer_vars_stay_integer. Qed.
Print Assumptions C03_integer_vars_stay_integer.

(* ... whereas mean is fractional in general: the mean of the integers [0,1] is 1/2, which is not
   an integer (this is why the result variable must take the result's dtype) *)
Theorem C03_mean_fractional :
  run RMean [Some (0 # 1)%Q; Some (1 # 1)%Q] = [Some (1 # 2)%Q] /\ ~ q_int (1 # 2)%Q.
Proof. split; [vm_compute; reflexivity | exact half_not_int]. Qed.
Print Assumptions C03_mean_fractional.

(* Non-vacuity: a 2x3 float variable (one masked cell) and a variable without the dimension;
   'sum' along the middle... here along axis 1 of A; B untouched; the result is Ok, satisfies the
   property and differs from the input. *)
Definition ex_file : file :=
  File [(0, 2); (1, 3)]
       [Var 5 [0; 1] (of_flat [2; 3] [Some (1#1)%Q; None; Some (3#2)%Q; Some (2#1)%Q; Some (5#1)%Q; Some (-1#1)%Q] None);
        Var 6 [0] (of_flat [2] [Some (7#1)%Q; Some (8#1)%Q] None)].
Example C03_hyp_inhabited :
  wf_file ex_file = true /\
  match impl_apply ex_file [(1, RSum)] with
  | Ok r => spec_file_ok [(1, RSum)] ex_file r
            && list_eqb Nat.eqb (map snd (fdims r)) [2; 1]
            && cells_close (concat (map (fun v => to_flat (vdat v)) (fvars r)))
                           [Some (5#2)%Q; Some (6#1)%Q; Some (7#1)%Q; Some (8#1)%Q]
  | Err _ => false
  end = true.
Proof. vm_compute. split; reflexivity. Qed.

Example C03_any_order_inhabited :
  let a := of_flat [2; 2] [Some 1%Z; Some 2%Z; None; Some 4%Z] None in
  to_flat (apply_axes (ma_red Z.add) None [0; 1] a) = [Some 7%Z]
  /\ to_flat (apply_axes (ma_red Z.add) None [1; 0] a) = [Some 7%Z].
Proof. vm_compute. split; reflexivity. Qed.

(* (10) tie T.  Gen/C03Src.v src_apply is re-read from core/_files.py applyAlongDimensions,
   cmaqfiles/_ioapi.py ioapi_base.applyAlongDimensions and core/_functions.py reduce_dim / convolve_dim on
   every run: the statements the model transcribes (enumerate, REVERSED axis loop, name test, keepdims
   reducer call, apply_along_axis with the opts dictionary, result dtype, assignment, the three new-length
   probes, 1-D coordinate rule, dimension copy, the IOAPI VGLVLS recomputation, the string forms) are the
   ones in the source, and the variable loop computed from the source record is the model's. *)
Theorem C03_source_is_model :
  src_apply = model_apply /\ forall dfs v, generic_vals src_apply dfs v = impl_vals dfs v.
Proof. split; [vm_compute; reflexivity | intros; reflexivity]. Qed.
Print Assumptions C03_source_is_model.

(* (11) An in-domain call completes: for every well-formed file (each variable has the shape of its
   dimensions, any rank, any number of variables) and every set of named dimensions that exist, each
   with a usable function (lane_ok), applyAlongDimensions raises nothing: the length probes succeed
   and every variable's result has exactly the shape of the new dimensions, so no assignment fails.
   Named reducers are always usable; a length-uniform callable (diff, sub-sampling are proved uniform)
   is usable when the coordinate lane has the dimension's length. *)
Theorem C03_completes : forall f dfs,
  wf_file f = true -> NoDup (map fst dfs) ->
  (forall d fd, In (d, fd) dfs -> exists n, lookup d (fdims f) = Some n /\ lane_ok f d n fd) ->
  exists r, impl_apply f dfs = Ok r.
Proof. exact apply_completes. Qed.
Print Assumptions C03_completes.

Theorem C03_reducers_usable : forall f d n fd,
  In fd [RSum; RProd; RMin; RMax; RMean] -> lane_ok f d n fd.
Proof. exact lane_ok_reducer. Qed.
Print Assumptions C03_reducers_usable.

Theorem C03_callables_usable : forall f d n fd,
  In fd [FDiff] \/ (exists s, fd = FSub (S s)) \/ (exists m k, fd = FConv m k) ->
  uniform (run fd) -> length (coord_lane f d n) = n -> lane_ok f d n fd.
Proof. exact lane_ok_callable. Qed.
Print Assumptions C03_callables_usable.

Theorem C03_diff_sub_uniform : uniform (run FDiff) /\ forall s, uniform (run (FSub s)).
Proof. exact (conj uniform_diff uniform_sub). Qed.
Print Assumptions C03_diff_sub_uniform.

(* non-vacuity of (11): ex_file with 'sum' on dimension 1 and numpy.diff on dimension 0 *)
Example C03_completes_inhabited :
  wf_file ex_file = true /\ NoDup (map fst [(1, RSum); (0, FDiff)])
  /\ (forall d fd, In (d, fd) [(1, RSum); (0, FDiff)] -> exists n, lookup d (fdims ex_file) = Some n /\ lane_ok ex_file d n fd).
Proof.
  split; [vm_compute; reflexivity|]. split; [repeat constructor; simpl; intuition discriminate|].
  intros d fd [E|[E|[]]]; injection E as <- <-.
  - exists 3. split; [reflexivity|]. apply lane_ok_reducer. simpl; auto.
  - exists 2. split; [reflexivity|]. apply lane_ok_callable; [left; simpl; auto | apply uniform_diff | vm_compute; reflexivity].
Qed.
