(* C20 — ARL packed-bit packing error is bounded and unpack inverts pack.
   Property statements only; every proof is `exact <lemma>` or a vm_compute witness.
   Model: Model/Arl.v (exact arithmetic; h = half the quantum 2^(NEXP-7) in the caller's unit). *)
From PNC Require Import Base.Util Model.Arl Proofs.ArlProofs Model.ArlFile Proofs.ArlFileProofs Proofs.ArlReadProofs.
Local Open Scope Z_scope.

(* Whenever every scan-order neighbour difference of the field is at most 127 quanta
   (RMAX <= 127 q), pack followed by unpack is within HALF a quantum of every element,
   no code leaves 0..255 (no byte wrap-around), and the decoder reproduces the encoder's
   running reconstruction exactly. All shapes with >= 2 columns, all h > 0. *)
Theorem C20_error_bound_half : forall h rows,
  0 < h -> rect rows = true -> rmax rows <= 254 * h ->
  within h rows (roundtrip h rows) = true
  /\ bytes_ok (raw_codes h rows) = true
  /\ roundtrip h rows = enc_recon h rows.
Proof. exact roundtrip_half. Qed.
Print Assumptions C20_error_bound_half.

(* hence the stated bound (one quantum), first element exact, no wrap, for ANY packer's exponent
   (any h) as long as the largest difference is within 127 quanta *)
Theorem C20_spec_in_range : forall h rows,
  0 < h -> rect rows = true -> rmax rows <= 254 * h -> spec_ok h rows = true.
Proof. exact spec_partial. Qed.
Print Assumptions C20_spec_in_range.

(* The first element is reproduced exactly and coded 127 for EVERY field (no range hypothesis). *)
Theorem C20_first_exact : forall h rows,
  0 < h -> rect rows = true ->
  hdZ (first_row (enc_recon h rows)) = hdZ (first_row rows)
  /\ hdZ (first_row (raw_codes h rows)) = 127.
Proof. exact first_exact. Qed.
Print Assumptions C20_first_exact.

(* Decoder = encoder's running value on the unwrapped codes, for every input whatsoever:
   same summation order, so the identity also holds bit-for-bit in binary32. *)
Theorem C20_decoder_mirrors_encoder : forall h rows,
  unpack_rows h (hdZ (first_row rows)) (raw_codes h rows) = enc_recon h rows.
Proof. exact unpack_raw_mirror. Qed.
Print Assumptions C20_decoder_mirrors_encoder.

(* The exponent rule NEXP = floor(log2 RMAX) + 1 only guarantees RMAX < 128 q, not <= 127 q *)
Theorem C20_exponent_covers : forall r, 0 < r -> 2 ^ Z.log2 r <= r < 2 ^ (Z.log2 r + 1).
Proof. exact exponent_covers. Qed.
Print Assumptions C20_exponent_covers.

(* Why pack2d needed the repair (and what files packed by other tools with the original rule can
   contain): with RMAX in (127q,128q), which is all that rule guarantees, the packer's own round
   trip can be off by more than a quantum, and a code can leave 0..255.  These are facts about the
   ORIGINAL rule; the library's rule is nexp_rule_fixed (C20_spec_fixed_exponent below). *)
Theorem C20_original_rule_overflows :
  (exists h rows, 0 < h /\ rect rows = true /\ rmax rows < 256 * h /\ bytes_ok (raw_codes h rows) = true
                  /\ within (2 * h) rows (roundtrip h rows) = false)
  /\ (exists h rows, 0 < h /\ rect rows = true /\ rmax rows < 256 * h /\ bytes_ok (raw_codes h rows) = false).
Proof.
  split; [exists 50, [[0; 50; -12749; 50]]|exists 50, [[0; 12799; 49; -12750]]]; vm_compute; repeat split; reflexivity.
Qed.
Print Assumptions C20_original_rule_overflows.

(* Decoding is independent of the exponent rule: whatever h the packing tool used, if no code
   wrapped, unpack of the stored bytes returns exactly that packer's running reconstruction
   (files written by other tools decode as before the repair; `unpack` is unchanged). *)
Theorem C20_foreign_decode : forall h rows,
  bytes_ok (raw_codes h rows) = true -> roundtrip h rows = enc_recon h rows.
Proof. exact foreign_decode. Qed.
Print Assumptions C20_foreign_decode.

(* Non-vacuity: the hypotheses of the bound are met by a non-trivial field, and the bound
   there is attained with non-zero error. *)
Example C20_hyp_inhabited :
  0 < 8 /\ rect [[3; 40; -1000]; [77; 2000; 1999]] = true
  /\ rmax [[3; 40; -1000]; [77; 2000; 1999]] <= 254 * 8
  /\ roundtrip 8 [[3; 40; -1000]; [77; 2000; 1999]] <> [[3; 40; -1000]; [77; 2000; 1999]].
Proof. vm_compute. repeat split; try reflexivity; discriminate. Qed.

(* MAIN THEOREM (pack2d since /repo fa89813: NEXP one higher
   when RMAX still exceeds 127 quanta): the rule keeps RMAX within 127 quanta for EVERY field, hence
   the full statement (one quantum, even half a quantum; first element exact; no wrap) for every
   field shape.  256 * h = 2^NEXP says that h is the half quantum of that exponent in the unit. *)
Theorem C20_fixed_exponent_covers : forall r, 0 < r -> 128 * r <= 127 * 2 ^ nexp_rule_fixed r.
Proof. exact fixed_rule_covers. Qed.
Print Assumptions C20_fixed_exponent_covers.
Theorem C20_spec_fixed_exponent : forall h rows,
  0 < h -> rect rows = true ->
  (rmax rows = 0 \/ (0 < rmax rows /\ 256 * h = 2 ^ nexp_rule_fixed (rmax rows))) ->
  spec_ok h rows = true /\ within h rows (roundtrip h rows) = true.
Proof. exact spec_fixed_exponent. Qed.
Print Assumptions C20_spec_fixed_exponent.
(* the two former counterexamples (corpus cases) are inside the rule's guarantee *)
Example C20_fixed_exponent_on_witnesses :
  256 * 4 = 2 ^ nexp_rule_fixed (rmax [[0; 463; 974; 463]]) /\ spec_ok 4 [[0; 463; 974; 463]] = true
  /\ 256 * 4 = 2 ^ nexp_rule_fixed (rmax [[0; 511; 1; -510]]) /\ spec_ok 4 [[0; 511; 1; -510]] = true.
Proof. vm_compute. repeat split; reflexivity. Qed.

(* =========================== file layer (Model/ArlFile.v) ================================= *)
From Coq Require String.
Import String.StringSyntax.
Delimit Scope string_scope with string.
Local Open Scope list_scope.
Local Open Scope Z_scope.

(* (a) The reference decoder inverts the reference encoder for EVERY well-formed content:
   any number of periods, levels, variables per level, any grid, any padding bytes. *)
Theorem C20_file_dec_enc : forall ps, forallb wf_period ps = true -> dec (enc ps) = Some ps.
Proof. exact dec_enc. Qed.
Print Assumptions C20_file_dec_enc.

(* (b) Layout.  In the encoding of a uniform well-formed content the bytes at
   spec_offset (t, level, variable) = t * period length + record length * (1 + records before)
   are exactly that variable's record (label + packed bytes) ... *)
Theorem C20_file_record_at_offset : forall p0 ps t li vi,
  forallb wf_period (p0 :: ps) = true -> forallb (same_layout p0) ps = true ->
  (t < length (p0 :: ps))%nat ->
  let p := nth t (p0 :: ps) p0 in
  (li < length (p_levels p))%nat ->
  (vi < length (l_vars (nth li (p_levels p) (Lvl [] []))))%nat ->
  slice (spec_offset p0 t li vi) (recl p0) (enc (p0 :: ps))
  = enc_rec (p_time p) (p_grid p) (Z.of_nat li)
      (nth vi (l_vars (nth li (p_levels p) (Lvl [] []))) (Var [] 0 0 [] [] [])).
Proof. exact record_at_spec_offset. Qed.
Print Assumptions C20_file_record_at_offset.

(* ... and the offset the library computes (numpy structured-dtype arithmetic over the
   translated thdtype / vhdtype sizes) is that position, for all level/variable tables. *)
Theorem C20_file_lib_offset : forall p0 t li vi,
  lib_offset gen_sizes (ncell p0) (lenh p0) (nrecs (p_levels p0)) t
    (rec_index (p_levels p0) li vi - 1) = spec_offset p0 t li vi.
Proof. intros. rewrite gen_sizes_std. apply lib_offset_is_spec_offset. Qed.
Print Assumptions C20_file_lib_offset.

(* (c) Every field of a spec-encoded file, decoded and unpacked, is within one quantum of the
   field that was packed, first element exact, whenever the field is in the proved range of
   C20_spec_in_range (RMAX <= 127 quanta); the (127q,128q] region stays refuted above. *)
Theorem C20_file_field_bound_partial : forall ps p l v h rows,
  forallb wf_period ps = true -> In p ps -> In l (p_levels p) -> In v (l_vars l) ->
  0 < h -> rect rows = true -> rmax rows <= 254 * h ->
  Forall (fun r => lenZ r = p_nx p) rows ->
  v_data v = concat (pack_bytes h rows) ->
  dec (enc ps) = Some ps
  /\ let got := unpack_rows h (hdZ (first_row rows)) (rows_of (p_nx p) (v_data v)) in
     within (2 * h) rows got = true /\ hdZ (first_row got) = hdZ (first_row rows)
     /\ lenZ (v_data v) = ncell p.
Proof. exact file_field_bound. Qed.
Print Assumptions C20_file_field_bound_partial.

(* The library's blank-terminated table parser (readvardef) returns the encoded table when
   the table is followed by blanks only or by nothing (the repaired reader hands it exactly the table). *)
Theorem C20_file_readvardef : forall nc ls pad fuel,
  forallb (wf_lvl nc) ls = true ->
  forallb (fun l => float_ok (l_text l) && negb (blank (l_text l))) ls = true ->
  blank pad = true -> (length ls <= fuel)%nat ->
  readvardef fuel (enc_table ls ++ pad) = Some (map lent ls).
Proof. exact readvardef_enc. Qed.
Print Assumptions C20_file_readvardef.

(* The model of the (repaired) library reader returns the ideal view of the content on the
   encoding of EVERY well-formed content with the same layout and keys in every period, a grid of
   at least 2 x 2 cells, level heights float() accepts, and no key shared between the surface and
   the upper levels: variable list, level list, times and, per variable / time / level, EXP, VAR1
   and the packed bytes.  _partial because of the last hypothesis (refuted below, region 6). *)
Theorem C20_file_reader_partial : forall p0 rest,
  forallb wf_period (p0 :: rest) = true -> forallb (same_layout p0) rest = true ->
  forallb (same_keys p0) rest = true ->
  lib_grid_ok p0 = true -> lvl_texts_ok p0 = true -> keys_disjoint p0 = true -> p_levels p0 <> [] ->
  impl_read gen_sizes (enc (p0 :: rest)) = spec_view (p0 :: rest).
Proof. intros. rewrite gen_sizes_std. now apply impl_read_spec. Qed.
Print Assumptions C20_file_reader_partial.

(* Grid sizes of 1000 and more: the I3 fields NX, NY hold the size modulo 1000 and the two
   characters of the grid id hold the thousands as letters CHAR(64 + n/1000); the pair round-trips
   for every size 0..26999 ('@'..'Z'), and any ordinary grid id (bytes up to '@') serves sizes below
   1000.  enc / dec / impl_read use exactly this rule (C20_file_dec_enc and C20_file_reader_partial
   cover such grids: wf_period allows NX, NY up to 26999 and demands the matching letters). *)
Theorem C20_file_grid_size_roundtrip : forall n g,
  0 <= n <= 26999 -> (g = 64 + n / 1000 \/ (n < 1000 /\ g <= 64)) ->
  length (fmtI 3 (n mod 1000)) = 3%nat
  /\ (do z <- parseI (fmtI 3 (n mod 1000)); Some (z + grid_thousands g)) = Some n
  /\ 64 <= 64 + n / 1000 <= 90.
Proof. exact grid_size_roundtrip. Qed.
Print Assumptions C20_file_grid_size_roundtrip.
(* Times: a time stamp written as the format prescribes (five I2 fields) is decoded by the reader's
   rule (blank -> '0', two digits per field) to the year, month, day and hour that were written;
   with C20_file_reader_partial (lb_times = the stamps of the content) the times read back are the
   times encoded.  The century pivot of strptime('%y') is outside the model. *)
Theorem C20_file_times : forall yy mm dd hh ff,
  0 <= yy <= 99 -> 0 <= mm <= 99 -> 0 <= dd <= 99 -> 0 <= hh <= 99 ->
  time_fields (fmtI 2 yy ++ fmtI 2 mm ++ fmtI 2 dd ++ fmtI 2 hh ++ ff) = [yy; mm; dd; hh].
Proof. exact time_fields_fmt. Qed.
Print Assumptions C20_file_times.

(* Tie T: statements over coq/Gen/Arl.v (regenerated from _arl.py on every run). *)
Theorem C20_gen_sizes : gen_sizes = std_sizes.
Proof. exact gen_sizes_std. Qed.
Print Assumptions C20_gen_sizes.
Theorem C20_gen_label_fields :
  map (fun f => snd (fst f) * snd f) G.arl_vhdtype = [10; 2; 2; 4; 4; 14; 14]
  /\ map (fun f => snd (fst f) * snd f) G.arl_thdtype
     = [10; 2; 2; 4; 4; 14; 14] ++ [4; 3; 2] ++ repeat 7 12 ++ [3; 3; 3; 2; 4]
  /\ G.arl_timedtype_order = ["timehead"; "vardef"; "hdr"; "surface"; "layers"]%string.
Proof. exact gen_label_fields. Qed.
Print Assumptions C20_gen_label_fields.
Theorem C20_gen_lenh : forall (sfc lay : lvl_t) (nupper : nat),
  G.arl_LENH (G.arl_srflen (nvars sfc)) (G.arl_laylen (nvars lay) (Z.of_nat nupper + 1))
  = 108 + table_len (sfc :: repeat lay nupper).
Proof. exact gen_lenh. Qed.
Print Assumptions C20_gen_lenh.
Theorem C20_gen_record_length : forall nx ny hlen,
  let nc := G.arl_ncell nx ny in
  let hdr := G.arl_hdrlen nc hlen (G.dtype_itemsize G.arl_thdtype) in
  G.dtype_itemsize G.arl_thdtype + G.arl_vardeflen hlen + hdr = 50 + nx * ny
  /\ G.dtype_itemsize (G.arl_lay1dtype ny nx) = 50 + nx * ny
  /\ hdr = nx * ny - hlen                       (* the filler is the real padding *)
  /\ G.arl_vardeflen hlen = hlen - 108 /\ G.arl_inq_vheaderlen hlen = hlen - 108
  /\ G.dtype_itemsize G.arl_thdtype = 50 + 108.
Proof. exact gen_record_length. Qed.
Print Assumptions C20_gen_record_length.
Theorem C20_gen_table_widths :
  G.arl_readvardef_slices = [(None, Some 6); (Some 6, Some 8); (Some 8, None); (None, Some 4); (Some 4, Some 7); (Some 8, None)]
  /\ G.arl_writevardef_widths = [6; 2; 4; 3; 1] /\ G.arl_writevardef_extra = 108
  /\ G.arl_w_label_widths = [2; 4; 14; 14]
  /\ (forall li, G.arl_w_level li = li + 1)
  /\ (forall s, G.arl_ksum s = s mod 255)
  /\ (forall e, G.arl_pack_shift e = 7 - e /\ G.arl_unpack_shift e = 7 - e)
  /\ (forall g, G.arl_gridx_off g = Z.max 0 ((g - 64) * 1000) /\ G.arl_gridy_off g = Z.max 0 ((g - 64) * 1000)).
Proof. exact gen_table_widths. Qed.
Print Assumptions C20_gen_table_widths.

Theorem C20_gen_bump :
  G.arl_bump_limit = 127 /\ (forall e, G.arl_bump_shift e = 7 - e /\ G.arl_bump_nexp e = e + 1)
  /\ forall r, nexp_rule_fixed r =
       let e := Z.log2 r + 1 in if G.arl_bump_limit * 2 ^ e <? 2 ^ 7 * r then G.arl_bump_nexp e else e.
Proof. exact gen_bump. Qed.
Print Assumptions C20_gen_bump.

(* ---- witnesses: one period "95 1 1 0 0", constant fields (all codes 127, NEXP = 1) -------- *)
Definition w_time : list Z := [57; 53; 32; 49; 32; 49; 32; 48; 32; 48].
Definition w_fixed : list Z :=
  [84; 69; 83; 84; 32; 32; 48; 32; 48; 32; 32; 57; 48; 46; 48; 48; 32; 32; 32; 48; 46; 48; 48; 32; 32; 32; 49; 46; 48; 48;
   32; 32; 32; 49; 46; 48; 48; 32; 32; 32; 48; 46; 48; 48; 32; 32; 32; 48; 46; 48; 48; 32; 32; 32; 48; 46; 48; 48; 32; 32;
   32; 49; 46; 48; 48; 32; 32; 32; 49; 46; 48; 48; 32; 32; 52; 48; 46; 48; 48; 45; 49; 48; 48; 46; 48; 48; 32; 32; 32; 48;
   46; 48; 48].
Definition w_prec : list Z := [32; 55; 46; 56; 55; 52; 48; 49; 53; 55; 69; 45; 48; 51].
Definition w_v0 : list Z := [32; 48; 46; 48; 48; 48; 48; 48; 48; 48; 69; 43; 48; 48].
Definition w_v5 : list Z := [32; 53; 46; 48; 48; 48; 48; 48; 48; 48; 69; 43; 48; 48].
Definition w_sfc : list Z := [32; 32; 32; 48; 46; 48].        (* "   0.0" *)
Definition w_1000 : list Z := [49; 48; 48; 48; 46; 48].       (* "1000.0" *)
Definition k_PRSS : list Z := [80; 82; 83; 83].
Definition k_TEMP : list Z := [84; 69; 77; 80].
Definition w_var (key : list Z) (v1 : list Z) (nc : Z) : var_t :=
  Var key ((127 * nc) mod 255) 1 w_prec v1 (repeat 127 (Z.to_nat nc)).
Definition w_period nx ny (ls : list lvl_t) : period_t :=
  Period w_time [57; 57] w_fixed nx ny [32; 50] (repeat 32 (Z.to_nat (nx * ny - 108 - table_len ls))) ls.

(* Region 6: the same key at the surface and at an upper level: the library returns the
   surface variable under both names, the upper-level field cannot be read back. *)
Definition wit_dupkey :=
  [w_period 4 62 [Lvl w_sfc [w_var k_TEMP w_v0 248]; Lvl w_1000 [w_var k_TEMP w_v5 248]]].
Theorem C20_file_shared_key_refuted : exists ps,
  forallb wf_period ps = true /\ forallb lib_grid_ok ps = true /\ forallb lvl_texts_ok ps = true
  /\ forallb keys_disjoint ps = false
  /\ impl_read std_sizes (enc ps) <> None /\ impl_read std_sizes (enc ps) <> spec_view ps.
Proof. exists wit_dupkey. vm_compute. repeat split; try reflexivity; discriminate. Qed.
Print Assumptions C20_file_shared_key_refuted.

(* The writer (writearlpackedbit since /repo 6a4afc6; impl_write = pack every field with the
   exponent pack2d chooses, lay the records out as the format prescribes): for EVERY in-memory file
   (any number of periods, levels, variables, any grid up to 26999 x 26999 that holds the header,
   sizes of 1000 and more with the thousands letters in the grid id; the same variables
   in every period and no key both 3-D and 4-D, which is what one dictionary of variables gives)
   the reference decoder returns the content, the reader model returns the ideal view of it, and
   EVERY field comes back within half a quantum, first element exact, no code outside 0..255. *)
Theorem C20_file_write_read : forall w p0 rest,
  wf_winput w = true -> write_content w = p0 :: rest ->
  forallb (same_layout p0) rest = true -> forallb (same_keys p0) rest = true ->
  lib_grid_ok p0 = true -> lvl_texts_ok p0 = true -> keys_disjoint p0 = true -> p_levels p0 <> [] ->
  impl_write w = Some (impl_write_fixed w)
  /\ dec (impl_write_fixed w) = Some (write_content w)
  /\ impl_read gen_sizes (impl_write_fixed w) = spec_view (write_content w)
  /\ forall p l f, In p (wi_periods w) -> In l (wp_levels p) -> In f (snd l) ->
       let got := unpack_rows (wf_h f) (hdZ (first_row (wf_rows f))) (rows_of (wi_nx w) (v_data (write_var f))) in
       within (wf_h f) (wf_rows f) got = true /\ hdZ (first_row got) = hdZ (first_row (wf_rows f))
       /\ bytes_ok (raw_codes (wf_h f) (wf_rows f)) = true.
Proof. intros w p0 rest; intros. split; [reflexivity|]. now apply (write_read w p0 rest). Qed.
Print Assumptions C20_file_write_read.
Definition ex_win : winput :=
  WInput [57; 57] w_fixed 2 62 [32; 50]
    [WPeriod w_time [(w_sfc, [WField k_PRSS 4 11 w_prec w_v0 (repeat [0; 40] 61 ++ [[3; -1000]])])]].
Example C20_file_write_read_inhabited :
  wf_winput ex_win = true /\ forallb lib_grid_ok (write_content ex_win) = true
  /\ forallb lvl_texts_ok (write_content ex_win) = true /\ forallb keys_disjoint (write_content ex_win) = true
  /\ same_keys (hd (w_period 0 0 []) (write_content ex_win)) (hd (w_period 0 0 []) (write_content ex_win)) = true
  /\ impl_read std_sizes (impl_write_fixed ex_win) = spec_view (write_content ex_win)
  /\ spec_view (write_content ex_win) <> None.
Proof. vm_compute. repeat split; try reflexivity; discriminate. Qed.

(* Non-vacuity of the file theorems: a 2-period, 2-level content with different variables at
   the surface is well formed, uniform, inside the library's domain, and the library model
   returns the ideal view on its encoding. *)
Definition ex_file :=
  [w_period 4 70 [Lvl w_sfc [w_var k_PRSS w_v0 280; w_var [84; 48; 50; 77] w_v5 280]; Lvl w_1000 [w_var k_TEMP w_v5 280]];
   w_period 4 70 [Lvl w_sfc [w_var k_PRSS w_v5 280; w_var [84; 48; 50; 77] w_v0 280]; Lvl w_1000 [w_var k_TEMP w_v0 280]]].
(* the smallest grids: 2 x 62 cells = LENH, no padding at all (the former regions 3 and 5) *)
Definition ex_small := [w_period 2 62 [Lvl w_sfc [w_var k_PRSS w_v0 124]]].
Example C20_file_small_grid :
  forallb wf_period ex_small = true /\ forallb lib_grid_ok ex_small = true /\ forallb lvl_texts_ok ex_small = true
  /\ forallb keys_disjoint ex_small = true /\ impl_read std_sizes (enc ex_small) = spec_view ex_small
  /\ spec_view ex_small <> None /\ dec (enc ex_small) = Some ex_small.
Proof. vm_compute. repeat split; try reflexivity; discriminate. Qed.
Example C20_file_hyp_inhabited :
  forallb wf_period ex_file = true /\ forallb (same_layout (hd (w_period 0 0 []) ex_file)) (tl ex_file) = true
  /\ forallb (same_keys (hd (w_period 0 0 []) ex_file)) (tl ex_file) = true
  /\ forallb lib_grid_ok ex_file = true /\ forallb lvl_texts_ok ex_file = true /\ forallb keys_disjoint ex_file = true
  /\ impl_read std_sizes (enc ex_file) = spec_view ex_file /\ spec_view ex_file <> None.
Proof. vm_compute. repeat split; try reflexivity; discriminate. Qed.

(* a 1003 x 2 grid ("A@") and a 2 x 2005 grid ("@B"): well formed, decoded, read by the reader model *)
Definition ex_large := [Period w_time [65; 64] w_fixed 1003 2 [32; 50] (repeat 32 (2006 - 124)) [Lvl w_sfc [w_var k_PRSS w_v0 2006]]].
Definition ex_large2 := [Period w_time [64; 66] w_fixed 2 2005 [32; 50] (repeat 32 (4010 - 124)) [Lvl w_sfc [w_var k_PRSS w_v0 4010]]].
Definition ex_win_large : winput :=
  WInput [65; 64] w_fixed 1003 2 [32; 50]
    [WPeriod w_time [(w_sfc, [WField k_PRSS 1 1 w_prec w_v0 (repeat (repeat 0 1003) 2)])]].
Example C20_file_large_grid :
  wf_winput ex_win_large = true
  /\ impl_read std_sizes (impl_write_fixed ex_win_large) = spec_view (write_content ex_win_large)
  /\ forallb wf_period ex_large = true /\ dec (enc ex_large) = Some ex_large
  /\ impl_read std_sizes (enc ex_large) = spec_view ex_large /\ spec_view ex_large <> None
  /\ forallb wf_period ex_large2 = true /\ impl_read std_sizes (enc ex_large2) = spec_view ex_large2.
Proof. vm_compute. repeat split; try reflexivity; discriminate. Qed.

