(* C20 — ARL packed-bit packing error is bounded and unpack inverts pack.
   Property statements only; every proof is `exact <lemma>` or a vm_compute witness.
   Model: Model/Arl.v (exact arithmetic; h = half the quantum 2^(NEXP-7) in the caller's unit). *)
From PNC Require Import Base.Util Model.Arl Proofs.ArlProofs.
Local Open Scope Z_scope.

(* Whenever every scan-order neighbour difference of the field is at most 127 quanta
   (RMAX <= 127 q), pack followed by unpack is within HALF a quantum of every element,
   no code leaves 0..255 (no byte wrap-around), and the decoder reproduces the encoder's
   running reconstruction exactly. All shapes with >= 2 columns, all h > 0. *)
Theorem C20_error_bound_half : forall h rows,
  0 < h -> rect rows = true -> rmax rows <= 254 * h ->
  within h rows (roundtrip h rows) = true
  /\ bytes_ok (raw_codes h rows) = true
  /\ roundtrip h rows = enc_recon h rows.
Proof. exact roundtrip_half. Qed.
Print Assumptions C20_error_bound_half.

(* hence the stated bound (one quantum), first element exact, no wrap *)
Theorem C20_spec_partial : forall h rows,
  0 < h -> rect rows = true -> rmax rows <= 254 * h -> spec_ok h rows = true.
Proof. exact spec_partial. Qed.
Print Assumptions C20_spec_partial.

(* The first element is reproduced exactly and coded 127 for EVERY field (no range hypothesis). *)
Theorem C20_first_exact : forall h rows,
  0 < h -> rect rows = true ->
  hdZ (first_row (enc_recon h rows)) = hdZ (first_row rows)
  /\ hdZ (first_row (raw_codes h rows)) = 127.
Proof. exact first_exact. Qed.
Print Assumptions C20_first_exact.

(* Decoder = encoder's running value on the unwrapped codes, for every input whatsoever:
   same summation order, so the identity also holds bit-for-bit in binary32. *)
Theorem C20_decoder_mirrors_encoder : forall h rows,
  unpack_rows h (hdZ (first_row rows)) (raw_codes h rows) = enc_recon h rows.
Proof. exact unpack_raw_mirror. Qed.
Print Assumptions C20_decoder_mirrors_encoder.

(* The exponent rule NEXP = floor(log2 RMAX) + 1 only guarantees RMAX < 128 q, not <= 127 q *)
Theorem C20_exponent_covers : forall r, 0 < r -> 2 ^ Z.log2 r <= r < 2 ^ (Z.log2 r + 1).
Proof. exact exponent_covers. Qed.
Print Assumptions C20_exponent_covers.

(* FULL statement (for every field whose largest neighbour difference is below 128 quanta,
   i.e. every field under the exponent rule) is FALSE of the faithful model: *)
Theorem C20_error_bound_q_refuted : exists h rows,
  0 < h /\ rect rows = true /\ rmax rows < 256 * h /\ bytes_ok (raw_codes h rows) = true
  /\ within (2 * h) rows (roundtrip h rows) = false.
Proof. exists 50, [[0; 50; -12749; 50]]. vm_compute. repeat split; reflexivity. Qed.
Print Assumptions C20_error_bound_q_refuted.

Theorem C20_no_wraparound_refuted : exists h rows,
  0 < h /\ rect rows = true /\ rmax rows < 256 * h /\ bytes_ok (raw_codes h rows) = false
  /\ within (2 * h) rows (roundtrip h rows) = false.
Proof. exists 50, [[0; 12799; 49; -12750]]. vm_compute. repeat split; reflexivity. Qed.
Print Assumptions C20_no_wraparound_refuted.

(* Non-vacuity: the hypotheses of the bound are met by a non-trivial field, and the bound
   there is attained with non-zero error. *)
Example C20_hyp_inhabited :
  0 < 8 /\ rect [[3; 40; -1000]; [77; 2000; 1999]] = true
  /\ rmax [[3; 40; -1000]; [77; 2000; 1999]] <= 254 * 8
  /\ roundtrip 8 [[3; 40; -1000]; [77; 2000; 1999]] <> [[3; 40; -1000]; [77; 2000; 1999]].
Proof. vm_compute. repeat split; try reflexivity; discriminate. Qed.
