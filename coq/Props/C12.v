(* C12 — decoded times are the true instants for every supported encoding.
   Property statements only; every proof is `exact <lemma>` or a vm_compute witness.
   Model: Model/Times.v (getTimes and its inverses, exact arithmetic) on Base/Calendar.v.
   Instants are microseconds since 1970-01-01T00:00:00Z; a datetime is [y; mo; d; h; mi; s; us] (UTC);
   CF values are in 1/64 of the unit. *)
From Coq Require Import QArith.
From PNC Require Import Base.Util Base.Calendar Base.DecDigits Model.Times Proofs.TimesProofs Gen.Times Proofs.TimesGenProofs.
Local Open Scope Z_scope.

(* ---- the calendar itself: civil date <-> day number are mutual inverses, for ALL years *)
Theorem C12_civil_of_days_of_civil : forall y m d, valid_date y m d = true ->
  civil_of_days (days_of_civil y m d) = (y, m, d).
Proof. exact civil_of_days_of_civil. Qed.
Print Assumptions C12_civil_of_days_of_civil.

Theorem C12_days_of_civil_of_days : forall n, let '(y, m, d) := civil_of_days n in
  days_of_civil y m d = n /\ valid_date y m d = true.
Proof. exact days_of_civil_of_days. Qed.
Print Assumptions C12_days_of_civil_of_days.

(* YYYYJJJ/HHMMSS <-> seconds are mutual inverses on valid flags (leap days, year ends included) *)
Theorem C12_flag_of_sec_of_flag : forall y j t, valid_yj y j = true -> valid_hhmmss t = true ->
  flag_of_sec (sec_of_flag (yyyyjjj y j) t) = (yyyyjjj y j, t).
Proof. exact flag_of_sec_of_flag. Qed.
Print Assumptions C12_flag_of_sec_of_flag.

(* every decoded datetime denotes exactly the instant it was decoded from *)
Theorem C12_datetime_denotes_instant : forall ts out,
  decode_all ts = Some out -> all_some (map us_of_dt out) = Some ts.
Proof. exact decode_all_sound. Qed.
Print Assumptions C12_datetime_denotes_instant.

(* ---- CF 'unit since ref', standard calendars: whenever decoding returns, the datetimes are
   ref + value * unit, for every unit, every accepted reference spelling (zone offsets included),
   every series length *)
Theorem C12_cf_standard_correct : forall u r vals out,
  impl_cf_std u r vals = Some out ->
  exists ts, spec_cf_std_us u r vals = Some ts /\ all_some (map us_of_dt out) = Some ts.
Proof. exact cf_std_correct. Qed.
Print Assumptions C12_cf_standard_correct.

(* ---- TFLAG: every valid YYYYJJJ/HHMMSS row decodes, and to its instant; any number of rows *)
Theorem C12_tflag_correct : forall flags tstep, forallb valid_flag flags = true ->
  exists out, impl_tflag flags tstep false = Some out
              /\ all_some (map us_of_dt out) = Some (map spec_flag_us flags).
Proof. exact tflag_correct. Qed.
Print Assumptions C12_tflag_correct.

(* bounds=True: the extra edge is the last instant plus TSTEP *)
Theorem C12_tflag_bounds_correct : forall flags st out,
  forallb valid_flag flags = true -> valid_step st = true ->
  impl_tflag flags (Some st) true = Some out ->
  all_some (map us_of_dt out)
  = Some (map spec_flag_us flags ++ [lastZ (map spec_flag_us flags) + sec_of_hhmmss st * us_sec]).
Proof. exact tflag_bounds_correct. Qed.
Print Assumptions C12_tflag_bounds_correct.

(* ---- SDATE/STIME/TSTEP: start + i * step for every i, any length, bounds or not *)
Theorem C12_sdate_tstep_correct : forall sdate stime tstep n b,
  valid_sdate sdate stime tstep = true ->
  impl_sdate sdate stime tstep n b
  = decode_all (spec_sdate_us sdate stime tstep (if b then S n else n)).
Proof. exact sdate_correct. Qed.
Print Assumptions C12_sdate_tstep_correct.

(* ---- updatetflag (strftime %Y%j / %H%M%S): the row written for an instant encodes that instant *)
Theorem C12_updatetflag_roundtrip : forall s,
  spec_flag_us (flag_of_sec s) = s * us_sec /\ valid_hhmmss (snd (flag_of_sec s)) = true.
Proof. exact flag_of_us_roundtrip. Qed.
Print Assumptions C12_updatetflag_roundtrip.

(* ---- CF time variable synthesised from TFLAG decodes to the same datetimes as the flags *)
Theorem C12_synth_matches_flags : forall sdate flags tstep,
  forallb valid_flag flags = true -> flags <> [] ->
  exists ts, impl_synth_flags sdate flags = Some ts
             /\ impl_decode_seconds ts = impl_tflag flags tstep false.
Proof. exact synth_flags_matches. Qed.
Print Assumptions C12_synth_matches_flags.

(* ... and from SDATE/STIME/TSTEP attributes, for EVERY valid step incl. >= 100 hours
   (repaired code, fixes/C12-add-time-variable-tstep.patch) *)
Theorem C12_synth_matches_attrs : forall sdate stime tstep n,
  valid_sdate sdate stime tstep = true -> (1 <= n)%nat ->
  exists ts, impl_synth_attrs sdate stime tstep n = Some ts
             /\ impl_decode_seconds ts = impl_sdate sdate stime tstep n false.
Proof. exact synth_attrs_matches. Qed.
Print Assumptions C12_synth_matches_attrs.

(* the synthesised time_bounds end one step after the last instant *)
Theorem C12_synth_bounds_edge : forall tstep ts, valid_step tstep = true -> ts <> [] ->
  impl_synth_edges tstep ts = ts ++ [lastZ ts + sec_of_hhmmss tstep].
Proof. exact synth_edges_valid. Qed.
Print Assumptions C12_synth_bounds_edge.

(* ---- inverse mappings on a CF time variable *)
(* date2num(getTimes()) = stored values for EVERY accepted reference spelling, unit and series
   (repaired code, fixes/C12-date2num-refdate.patch: both directions use _parse_ref_date) *)
Theorem C12_date2num_roundtrip : forall u r vals out,
  impl_cf_std u r vals = Some out -> impl_date2num u r out = Some vals.
Proof. exact date2num_roundtrip. Qed.
Print Assumptions C12_date2num_roundtrip.

(* time2idx(getTimes()) = 0..n-1 for every strictly ascending time coordinate *)
Theorem C12_time2idx_identity : forall xs, strictly_asc xs = true ->
  impl_time2idx xs xs = Some (iota 0 (length xs)).
Proof. exact time2idx_identity. Qed.
Print Assumptions C12_time2idx_identity.

(* ---- 365_day / 366_day calendars (branch repaired by fixes/C12-fixed-calendars.patch), full strength:
   both calendars, every unit, every reference date, time of day and zone, every series length.
   Whenever decoding returns, every row denotes ref + value * unit IN THE FILE'S CALENDAR and is a date a
   datetime can hold (Feb 29 of a common year makes the call raise instead of returning a shifted date) *)
Theorem C12_cf_fixed_calendar : forall leap u r vals out,
  impl_cf_fixed leap u r vals = Some out ->
  exists p k, impl_parse r = Some p /\ fx_unit_us64 leap u = Some k
    /\ all_some (map (fixed_us_of_fields leap) out) = Some (map (fun n => fixed_ref_us leap p + n * k) vals)
    /\ forallb row_ok out = true.
Proof. exact cf_fixed_correct. Qed.
Print Assumptions C12_cf_fixed_calendar.

(* the civil fields of the fixed-length calendars denote their instant (day count <-> (y, m, d) inverse) *)
Theorem C12_fixed_fields_denote_instant : forall leap t,
  fixed_us_of_fields leap (fixed_fields leap t) = Some t.
Proof. exact fixed_us_of_fixed_fields. Qed.
Print Assumptions C12_fixed_fields_denote_instant.

(* for the CF units (days, hours, minutes, seconds, weeks) the result is the specification ... *)
Theorem C12_cf_fixed_matches_spec : forall leap u r vals out,
  match u with UYears => False | _ => True end ->
  impl_cf_fixed leap u r vals = Some out -> spec_cf_fixed leap u r vals = Some out.
Proof. exact cf_fixed_spec. Qed.
Print Assumptions C12_cf_fixed_matches_spec.

(* ... and decoding does return whenever every true date is one a datetime can hold *)
Theorem C12_cf_fixed_returns : forall leap u r vals sp,
  spec_cf_fixed leap u r vals = Some sp -> forallb row_ok sp = true ->
  impl_cf_fixed leap u r vals = Some sp.
Proof. exact cf_fixed_total. Qed.
Print Assumptions C12_cf_fixed_returns.

(* ---- extension round: more inverse mappings and bounds *)
(* date2num(getTimes()) = stored values in the 365/366-day calendars too *)
Theorem C12_date2num_fixed_roundtrip : forall leap u r vals out,
  match u with UYears => False | _ => True end ->
  impl_cf_fixed leap u r vals = Some out -> impl_date2num_fixed leap u r out = Some vals.
Proof. exact date2num_fixed_roundtrip. Qed.
Print Assumptions C12_date2num_fixed_roundtrip.

(* time2idx(getTimes()) through date2num returns 0..n-1 for every ascending series *)
Theorem C12_time2idx_of_getTimes : forall u r vals out,
  impl_cf_std u r vals = Some out -> strictly_asc vals = true ->
  exists nums, impl_date2num u r out = Some nums
               /\ impl_time2idx vals nums = Some (iota 0 (length vals)).
Proof. exact time2idx_of_getTimes. Qed.
Print Assumptions C12_time2idx_of_getTimes.

(* updatetflag then getTimes: the TFLAG rows written for any whole-second instants a datetime can hold
   decode to exactly those instants (any number of rows) *)
Theorem C12_updatetflag_then_decode : forall secs tstep,
  forallb (fun s => in_range (s * us_sec)) secs = true ->
  impl_tflag (map flag_of_sec secs) tstep false = decode_all (map (fun s => s * us_sec) secs).
Proof. exact updatetflag_then_decode. Qed.
Print Assumptions C12_updatetflag_then_decode.

(* bounds=True without a time_bounds variable: for an evenly spaced series of any length >= 2 the edges are the
   midpoints x_i - s/2 and the last value + s/2 *)
Theorem C12_bounds_midpoints : forall x0 s m,
  let n := S (S m) in
  impl_bounds_vals BMid (map (fun i => x0 + i * s) (iota 0 n))
  = Some (map (fun i => x0 + i * s - s / 2) (iota 0 n) ++ [x0 + (Z.of_nat n - 1) * s + s / 2]).
Proof. exact bounds_mid_uniform. Qed.
Print Assumptions C12_bounds_midpoints.

(* ---- tie T: definitions regenerated from /repo's source on every run (coq/Gen/Times.v) *)
(* the TFLAG branch of getTimes splits the integers as the specification does *)
Theorem C12_gen_tflag_fields : forall d t,
  (tf_yyyy d, tf_jjj d) = yj_of_yyyyjjj d
  /\ tf_hours t = hhmmss_h t /\ tf_minutes t = hhmmss_m t /\ tf_seconds t = hhmmss_s t.
Proof. exact gen_tflag_fields. Qed.
Print Assumptions C12_gen_tflag_fields.

(* its float expression jjj + (h + m/60. + s/3600.)/24. - 1, read exactly, is the whole number of seconds *)
Theorem C12_gen_tflag_days_exact : forall j h m s,
  ((tf_days j h m s + inject_Z (tf_dayoffset 0)) * inject_Z 86400 ==
   inject_Z ((j - 1) * 86400 + h * 3600 + m * 60 + s))%Q.
Proof. exact gen_tflag_days_exact. Qed.
Print Assumptions C12_gen_tflag_days_exact.

(* and the hand model's instant of a row is that expression on Jan 1 of the year *)
Theorem C12_gen_tflag_instant : forall d t us,
  d <> -635 -> impl_flag_us d t = Some us ->
  (inject_Z us ==
   (inject_Z (jan1 (tf_yyyy d) * 86400)
    + (tf_days (tf_jjj d) (tf_hours t) (tf_minutes t) (tf_seconds t) + inject_Z (tf_dayoffset 0)) * inject_Z 86400)
   * inject_Z us_sec)%Q.
Proof. exact gen_tflag_instant. Qed.
Print Assumptions C12_gen_tflag_instant.

Theorem C12_gen_bounds_step : forall t, tb_seconds (tb_sh t) (tb_sm t) (tb_ss t) = sec_of_hhmmss t.
Proof. exact gen_bounds_step. Qed.
Print Assumptions C12_gen_bounds_step.

Theorem C12_gen_usday : fx_usday = us_day.
Proof. exact gen_usday. Qed.
Print Assumptions C12_gen_usday.

(* the digit slices getTimes takes of '%06d' % TSTEP give the model's step, for every digit string of
   at least sd_pad characters (hours may have any number of digits) *)
Theorem C12_gen_sdate_step : forall ds, forallb is_digit ds = true -> sd_pad <= Z.of_nat (length ds) ->
  let '(h, m, s) := split3 sd_slices ds in
  h * 3600 + m * 60 + s = impl_tstep_sec (int_of_digits ds).
Proof. exact gen_sdate_step. Qed.
Print Assumptions C12_gen_sdate_step.

(* the same for add_time_variable's tmp[...] slices and its 3600/60/1 weights *)
Theorem C12_gen_synth_step : forall ds, forallb is_digit ds = true -> tv_pad <= Z.of_nat (length ds) ->
  let '(h, m, s) := split3 tv_slices ds in
  tv_tmpseconds h m s = impl_tmpseconds (int_of_digits ds).
Proof. exact gen_synth_step. Qed.
Print Assumptions C12_gen_synth_step.

(* ---- non-vacuity *)
Example C12_cf_standard_inhabited :
  exists out, impl_cf_std UHours (Ref SpHMS_tz 2000 2 28 23 30 0 (-360)) [0; 96; 876000 * 64] = Some out
              /\ out = [[2000; 2; 29; 5; 30; 0; 0]; [2000; 2; 29; 7; 0; 0; 0]; [2100; 2; 4; 5; 30; 0; 0]].
Proof. eexists. vm_compute. split; reflexivity. Qed.

Example C12_tflag_inhabited :
  forallb valid_flag [(2000366, 235959); (2001001, 5959); (2004060, 0)] = true
  /\ impl_tflag [(2000366, 235959); (2001001, 5959); (2004060, 0)] None false
     = Some [[2000; 12; 31; 23; 59; 59; 0]; [2001; 1; 1; 0; 59; 59; 0]; [2004; 2; 29; 0; 0; 0; 0]].
Proof. vm_compute. split; reflexivity. Qed.

Example C12_sdate_inhabited :
  valid_sdate 1999365 230000 250000 = true
  /\ impl_sdate 1999365 230000 250000 2 true
     = Some [[1999; 12; 31; 23; 0; 0; 0]; [2000; 1; 2; 0; 0; 0; 0]; [2000; 1; 3; 1; 0; 0; 0]].
Proof. vm_compute. split; reflexivity. Qed.

(* the four former defect inputs now decode to the true dates: time of day kept, 'seconds' are seconds,
   a reference that is not Jan 1, all_leap around Feb 29 of a common year (raises instead of shifting) *)
Example C12_fixed_inhabited :
  impl_cf_fixed false UHours (Ref SpD 2000 1 1 0 0 0 0) [0; 64; 1600]
    = Some [[2000; 1; 1; 0; 0; 0; 0]; [2000; 1; 1; 1; 0; 0; 0]; [2000; 1; 2; 1; 0; 0; 0]]
  /\ impl_cf_fixed false USeconds (Ref SpD 2000 1 1 0 0 0 0) [5529600] = Some [[2000; 1; 2; 0; 0; 0; 0]]
  /\ impl_cf_fixed true UDays (Ref SpD 1999 3 1 0 0 0 0) [0] = Some [[1999; 3; 1; 0; 0; 0; 0]]
  /\ impl_cf_fixed true UDays (Ref SpD 2001 1 1 0 0 0 0) [3712; 3840]
      = Some [[2001; 2; 28; 0; 0; 0; 0]; [2001; 3; 1; 0; 0; 0; 0]]
  /\ impl_cf_fixed true UDays (Ref SpD 2001 1 1 0 0 0 0) [3776; 3840] = None
  /\ spec_cf_fixed true UDays (Ref SpD 2001 1 1 0 0 0 0) [3776; 3840]
      = Some [[2001; 2; 29; 0; 0; 0; 0]; [2001; 3; 1; 0; 0; 0; 0]].
Proof. vm_compute. repeat split; reflexivity. Qed.

Example C12_time2idx_inhabited :
  strictly_asc [-64; 0; 96; 6400] = true /\ impl_time2idx [-64; 0; 96; 6400] [0; 97; 3000] = Some [1; 2; 2].
Proof. vm_compute. split; reflexivity. Qed.

Example C12_synth_long_step_inhabited :
  valid_sdate 1999365 230000 1000000 = true
  /\ impl_synth_attrs 1999365 230000 1000000 2 = Some [946681200; 947041200]
  /\ impl_decode_seconds [946681200; 947041200] = impl_sdate 1999365 230000 1000000 2 false.
Proof. vm_compute. repeat split; reflexivity. Qed.

Example C12_date2num_hour_only_inhabited :
  impl_cf_std UHours (Ref SpH_tz 2000 3 1 19 0 0 60) [0; 96] = Some [[2000; 3; 1; 18; 0; 0; 0]; [2000; 3; 1; 19; 30; 0; 0]]
  /\ impl_date2num UHours (Ref SpH_tz 2000 3 1 19 0 0 60) [[2000; 3; 1; 18; 0; 0; 0]; [2000; 3; 1; 19; 30; 0; 0]] = Some [0; 96].
Proof. vm_compute. split; reflexivity. Qed.

Example C12_gen_digits_inhabited :
  forallb is_digit [1; 0; 0; 0; 0; 0; 0] = true /\ split3 sd_slices [1; 0; 0; 0; 0; 0; 0] = (100, 0, 0)
  /\ split3 tv_slices [0; 1; 3; 0; 0; 5] = (1, 30, 5) /\ impl_tstep_sec 13005 = 5405.
Proof. vm_compute. repeat split; reflexivity. Qed.

Example C12_bounds_midpoints_inhabited :
  impl_bounds_vals BMid [64; 192; 320] = Some [0; 128; 256; 384].
Proof. vm_compute. reflexivity. Qed.

