(* C08 — CAMx binary write/read round trip and idempotent rewrite. Statements only. *)
From PNC Require Import Base.Util Base.Words Gen.Camx Model.Uamiv Proofs.WordsProofs Proofs.UamivProofs Proofs.CamxDateProofs.
Import Coq.Lists.List. Import ListNotations.
Local Open Scope Z_scope.

(* read(write(f)): the reader model on the encoding of any well-formed content presents exactly that
   content: identical data words for every species/layer/step, identical time-header words, grid counts
   and species order. (The library writer is tied to `enc` by the correspondence: byte equality.) *)
Theorem C08_read_write : forall u, wf u = true -> u_steps u <> [] ->
  mm_read (enc u) (4 * Z.of_nat (length (enc u))) = Ok (view_of u).
Proof. exact mm_read_enc. Qed.
Print Assumptions C08_read_write.

(* write(read(write f)) is byte-identical to write f: decoding loses nothing *)
Theorem C08_rewrite_idempotent : forall u, wf u = true ->
  match dec (enc u) with Some u' => enc u' = enc u | None => False end.
Proof. exact rewrite_idempotent. Qed.
Print Assumptions C08_rewrite_idempotent.

(* time flags: the reader's date/time conversion equals the specification for whole hours *)
Theorem C08_time_flags : forall dates hours, Forall (fun t => 0 <= t <= 23) hours ->
  convert_camx_time dates hours = spec_camx_time dates hours.
Proof. exact convert_is_spec. Qed.
Print Assumptions C08_time_flags.

(* dates: the writer's two-digit-year expression (translated: date_s % (date_s // 100000 * 100000))
   followed by the reader's century rule is the identity on 1970001 .. 2069366 *)
Theorem C08_date_roundtrip : forall d, 1970001 <= d <= 2069366 -> conv_date (uw_date2 d) = d.
Proof. exact date_roundtrip. Qed.
Print Assumptions C08_date_roundtrip.

(* the hour field: HHMMSS / 10000 (written as float hours) -> scaled back by the reader *)
Theorem C08_hour_roundtrip : forall hs, Forall (fun t => 0 <= t <= 23) hs ->
  scale_times 8 (map (fun hhmmss => hhmmss / 10000) (map (fun h => h * 10000) hs)) = map (fun h => h * 10000) hs.
Proof. exact hour_roundtrip. Qed.
Print Assumptions C08_hour_roundtrip.

Example C08_century_crossing :
  convert_camx_time [99365; 99365; 1] [22; 23; 0] = [(1999365, 220000); (1999365, 230000); (2000001, 0)].
Proof. vm_compute. reflexivity. Qed.
