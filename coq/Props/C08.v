(* C08 — CAMx binary write/read round trip and idempotent rewrite. Statements only. *)
From PNC Require Import Base.Util Base.Words Gen.Camx Model.Uamiv Proofs.WordsProofs Proofs.UamivProofs Proofs.CamxDateProofs.
Import Coq.Lists.List. Import ListNotations.
Local Open Scope Z_scope.

(* read(write(f)): the reader model on the encoding of any well-formed content presents exactly that
   content: identical data words for every species/layer/step, identical time-header words, grid counts
   and species order. (The library writer is tied to `enc` by the correspondence: byte equality.) *)
Theorem C08_read_write : forall u, wf u = true -> u_steps u <> [] ->
  mm_read (enc u) (4 * Z.of_nat (length (enc u))) = Ok (view_of u).
Proof. exact mm_read_enc. Qed.
Print Assumptions C08_read_write.

(* write(read(write f)) is byte-identical to write f: decoding loses nothing *)
Theorem C08_rewrite_idempotent : forall u, wf u = true ->
  match dec (enc u) with Some u' => enc u' = enc u | None => False end.
Proof. exact rewrite_idempotent. Qed.
Print Assumptions C08_rewrite_idempotent.

(* time flags: the reader's date/time conversion equals the specification for whole hours *)
Theorem C08_time_flags : forall dates hours, Forall (fun t => 0 <= t <= 23) hours ->
  convert_camx_time dates hours = spec_camx_time dates hours.
Proof. exact convert_is_spec. Qed.
Print Assumptions C08_time_flags.

(* dates: the writer's two-digit-year expression (translated: date_s % (date_s // 100000 * 100000))
   followed by the reader's century rule is the identity on 1970001 .. 2069366 *)
Theorem C08_date_roundtrip : forall d, 1970001 <= d <= 2069366 -> conv_date (uw_date2 d) = d.
Proof. exact date_roundtrip. Qed.
Print Assumptions C08_date_roundtrip.

(* the hour field: HHMMSS / 10000 (written as float hours) -> scaled back by the reader *)
Theorem C08_hour_roundtrip : forall hs, Forall (fun t => 0 <= t <= 23) hs ->
  scale_times 8 (map (fun hhmmss => hhmmss / 10000) (map (fun h => h * 10000) hs)) = map (fun h => h * 10000) hs.
Proof. exact hour_roundtrip. Qed.
Print Assumptions C08_hour_roundtrip.

Example C08_century_crossing :
  convert_camx_time [99365; 99365; 1] [22; 23; 0] = [(1999365, 220000); (1999365, 230000); (2000001, 0)].
Proof. vm_compute. reflexivity. Qed.

(* ======================================================================================================
   CAMx LATERAL BOUNDARY files (Model/Lbdy.v, reader model from the translated lateral_boundary/Memmap.py)
   ====================================================================================================== *)
From PNC Require Import Model.YearEnd Model.Lbdy Proofs.LbdyProofs.

(* read(write(f)): the reader model on the encoding of any well-formed lateral-boundary content presents exactly
   that content: identical boundary values for every species/edge/step, identical time-header words, grid counts
   and species order. (The library writer is tied to `lb_enc` by the correspondence: byte equality.) *)
Theorem C08_lbdy_read_write : forall l, lb_wf l = true -> l_steps l <> [] ->
  lb_mm_read (lb_enc l) (4 * Z.of_nat (length (lb_enc l))) = Ok (lb_view_of l).
Proof. exact lb_mm_read_enc. Qed.
Print Assumptions C08_lbdy_read_write.

(* write(read(write f)) is byte-identical to write f: decoding loses nothing *)
Theorem C08_lbdy_rewrite_idempotent : forall l, lb_wf l = true ->
  match lb_dec (lb_enc l) with Some l' => lb_enc l' = lb_enc l | None => False end.
Proof. exact lb_rewrite_idempotent. Qed.
Print Assumptions C08_lbdy_rewrite_idempotent.

(* begin time flags: what the reader model builds from the presented time headers equals the specification *)
Theorem C08_lbdy_begin_flags : forall l bh, Forall (fun t => 0 <= t <= 23) bh -> length bh = length (l_steps l) ->
  lb_tflag (lb_view_of l) bh = spec_camx_time (map (fun st => nth 0 (fst st) 0) (l_steps l)) bh.
Proof. exact lb_tflag_spec. Qed.
Print Assumptions C08_lbdy_begin_flags.

(* end time flags (reader as repaired by fe376a5: ETFLAG from EDATE, ETIME): equal to the specification *)
Theorem C08_lbdy_end_flags : forall l eh, Forall (fun t => 0 <= t <= 23) eh -> length eh = length (l_steps l) ->
  lb_etflag (lb_view_of l) eh = spec_camx_time (map (fun st => nth 2 (fst st) 0) (l_steps l)) eh.
Proof. exact lb_etflag_spec. Qed.
Print Assumptions C08_lbdy_end_flags.

(* a concrete one-step file 04100 05:00-06:00 (the former witness of the repaired ETFLAG defect) *)
Definition C08_lbdy_witness : lbdy :=
  {| l_name := repeat 65 10; l_note := repeat 66 60; l_itzon := 0;
     l_dates := [4100; hour_word 5; 4100; hour_word 6];
     l_gpre := repeat 0 7; l_nx := 2; l_ny := 2; l_nz := 1; l_gpost := [0; 0; 0; 0; 0];
     l_spc := [repeat 80 10]; l_edges := std_edges 2 2;
     l_steps := [([4100; hour_word 5; 4100; hour_word 6], [Quad [11; 12] [13; 14] [15; 16] [17; 18]])] |}.

(* the writer's own end-date derivation at a year end (as repaired by a9b6e29): a file read from a step
   70365 23:00 - 71001 00:00 and written again decodes to the same content (before the repair the end date came out as
   70366: former finding C08/C09-lb-enddate-year-rollover, now a corpus case) *)
Definition C08_lbdy_year_end_witness : lbdy :=
  {| l_name := repeat 65 10; l_note := repeat 66 60; l_itzon := 0;
     l_dates := [70365; hour_word 23; 71001; hour_word 0];
     l_gpre := repeat 0 7; l_nx := 2; l_ny := 2; l_nz := 1; l_gpost := [0; 0; 0; 0; 0];
     l_spc := [repeat 80 10]; l_edges := std_edges 2 2;
     l_steps := [([70365; hour_word 23; 71001; hour_word 0], [Quad [11; 12] [13; 14] [15; 16] [17; 18]])] |}.
Example C08_lbdy_year_end_rewrite :
  lb_wf C08_lbdy_year_end_witness = true /\
  lb_dec (lb_enc (lb_derive C08_lbdy_year_end_witness [23] false)) = Some C08_lbdy_year_end_witness.
Proof. vm_compute. split; reflexivity. Qed.

Example C08_lbdy_hyp_inhabited :
  lb_wf C08_lbdy_witness = true /\ l_steps C08_lbdy_witness <> [] /\
  lb_dec (lb_enc (lb_derive C08_lbdy_witness [5] true)) = Some C08_lbdy_witness /\
  lb_etflag (lb_view_of C08_lbdy_witness) [6] = [(2004100, 60000)].
Proof. vm_compute. repeat split; try reflexivity. discriminate. Qed.

(* ======================================================================================================
   CAMx one3d family (one3d / humidity / vertical_diffusivity), Model/One3d.v
   ====================================================================================================== *)
From PNC Require Import Model.One3d Proofs.One3dProofs.

(* read(write(f)) for files with two or more steps (the writer ncf2one3d is tied to o_enc by the correspondence) *)
Theorem C08_one3d_read_write : forall c, o_wf c = true -> o_readable c = true ->
  o_mm_read (o_ny c) (o_nx c) (o_enc c) (4 * Z.of_nat (length (o_enc c))) = Ok (o_view_of c).
Proof. exact o_mm_read_enc. Qed.
Print Assumptions C08_one3d_read_write.

Theorem C08_one3d_rewrite_idempotent : forall c, o_wf c = true ->
  match o_dec (o_nx c) (o_ny c) (o_nz c) (o_enc c) with Some c' => o_enc c' = o_enc c | None => False end.
Proof. exact o_rewrite_idempotent. Qed.
Print Assumptions C08_one3d_rewrite_idempotent.

(* time flags: ConvertCAMxTime on (YYJJJ, HHMM of whole hours) equals the specification (YYYYJJJ, HHMMSS) *)
Theorem C08_one3d_time_flags : forall dates hs, Forall (fun h => 0 <= h <= 23) hs ->
  o_tflag dates (map (fun h => h * 100) hs) = o_spec_tflag dates (map (fun h => h * 100) hs).
Proof. exact o_tflag_spec. Qed.
Print Assumptions C08_one3d_time_flags.

Example C08_one3d_flags_inhabited :
  o_tflag [99365; 99365; 1] [2200; 2300; 0] = [(1999365, 220000); (1999365, 230000); (2000001, 0)].
Proof. vm_compute. reflexivity. Qed.

(* ======================================================================================================
   CAMx TEMPERATURE and HEIGHT/PRESSURE files, Model/TempHp.v
   ====================================================================================================== *)
From PNC Require Import Model.TempHp Proofs.TempHpProofs.

Theorem C08_temperature_read_write : forall c, t_wf c = true -> t_readable c = true ->
  t_mm_read (t_ny c) (t_nx c) (t_enc c) (4 * Z.of_nat (length (t_enc c))) = Ok (t_view_of c).
Proof. exact t_mm_read_enc. Qed.
Print Assumptions C08_temperature_read_write.

Theorem C08_temperature_rewrite_idempotent : forall c, t_wf c = true ->
  match t_dec (t_nx c) (t_ny c) (t_nz c) (t_enc c) with Some c' => t_enc c' = t_enc c | None => False end.
Proof. exact t_rewrite_idempotent. Qed.
Print Assumptions C08_temperature_rewrite_idempotent.

Theorem C08_heightpres_read_write : forall c, h_wf c = true -> h_readable c = true ->
  h_mm_read (h_ny c) (h_nx c) (h_enc c) (4 * Z.of_nat (length (h_enc c))) = Ok (h_view_of c).
Proof. exact h_mm_read_enc. Qed.
Print Assumptions C08_heightpres_read_write.

Theorem C08_heightpres_rewrite_idempotent : forall c, h_wf c = true ->
  match h_dec (h_nx c) (h_ny c) (h_nz c) (h_enc c) with Some c' => h_enc c' = h_enc c | None => False end.
Proof. exact h_rewrite_idempotent. Qed.
Print Assumptions C08_heightpres_rewrite_idempotent.

(* ======================================================================================================
   The writers' end-date derivation (uamiv without ETFLAG, lateral_boundary always), Model/YearEnd.v,
   as repaired by 4389526 and a9b6e29
   ====================================================================================================== *)
From PNC Require Import Model.YearEnd Proofs.YearEndProofs.

(* the derived end date/hour (day-of-year carry into the next two-digit year) IS the specification at every valid date and
   hour, year ends and leap years included *)
Theorem C08_end_date_is_spec : forall bd bh, valid_yyjjj bd = true -> 0 <= bh <= 23 ->
  derive_end_r bd bh = spec_end bd bh.
Proof. exact derive_end_r_is_spec. Qed.
Print Assumptions C08_end_date_is_spec.

(* ... so a time header consistent with its begin hour is reproduced word for word by the writers *)
Theorem C08_end_date_reproduces_header : forall bd b bh, valid_yyjjj bd = true -> 0 <= bh <= 23 ->
  let e := spec_end bd bh in
  let th := [bd; b; fst e; hour_word (snd e)] in
  derive_th_r th bh = th.
Proof. exact derive_th_r_fixpoint. Qed.
Print Assumptions C08_end_date_reproduces_header.

Example C08_year_end_inhabited :
  valid_yyjjj 99365 = true /\ derive_end_r 99365 23 = (1, 0) /\ derive_end_r 4366 23 = (5001, 0) /\
  derive_end_r 4059 23 = (4060, 0) /\ derive_end_r 99365 22 = (99365, 23).
Proof. vm_compute. repeat split; reflexivity. Qed.

(* ======================================================================================================
   CAMx WIND files, Model/Wind.v
   ====================================================================================================== *)
From PNC Require Import Model.Wind Proofs.WindProofs.

Theorem C08_wind_read_write : forall c, w_wf c = true -> w_steps c <> [] -> 2 <= w_nx c * w_ny c ->
  w_mm_read (w_ny c) (w_nx c) (w_enc c) (4 * Z.of_nat (length (w_enc c))) = WOk (w_view_of c).
Proof. exact w_mm_read_enc. Qed.
Print Assumptions C08_wind_read_write.

Theorem C08_wind_rewrite_idempotent : forall c, w_wf c = true ->
  match w_dec (w_nx c) (w_ny c) (w_nz c) (w_stag c) (w_dummy c) (w_enc c) with Some c' => w_enc c' = w_enc c | None => False end.
Proof. exact w_rewrite_idempotent. Qed.
Print Assumptions C08_wind_rewrite_idempotent.

(* ======================================================================================================
   CAMx cloud/rain files (Model/CloudRain.v): read, write, read
   ====================================================================================================== *)
From PNC Require Import Model.CloudRain Proofs.CloudRainProofs.

(* reading a file whose size is unambiguous and writing what was presented (ncf2cloud_rain, hand-modelled as c_write)
   reproduces the file word for word, and the written file decodes to the content *)
Theorem C08_cloudrain_read_write : forall c, c_wf c = true -> c_steps c <> [] -> c_unambiguous c = true ->
  exists v, cr_mm_read (c_enc c) (4 * Z.of_nat (length (c_enc c))) = Ok v /\ c_write (c_desc c) v = c_enc c /\
            c_dec (c_nvars c) (c_write (c_desc c) v) = Some c.
Proof. exact cr_read_write. Qed.
Print Assumptions C08_cloudrain_read_write.

(* ======================================================================================================
   CAMx land-use files (Model/Landuse.v): read, write
   ====================================================================================================== *)
From PNC Require Import Model.Landuse Proofs.LanduseProofs.

(* reading a file and writing what was presented (ncf2landuse, hand-modelled as lu_write) reproduces EVERY well-formed file
   word for word, and the written file decodes to the content. (Before 58a734f the optional records of a new-style file were
   written first: former finding landuse-writer-record-order, now corpus/C08/landuse-writer-record-order.json.) *)
Theorem C08_landuse_read_write : forall c, lu_wf c = true -> lu_sniff_ok c = true ->
  exists v, lu_mm_read true (lu_rows c) (lu_cols c) (lu_enc c) (4 * Z.of_nat (length (lu_enc c))) = Ok v /\
            lu_write v = lu_enc c /\ lu_dec (lu_rows c) (lu_cols c) (lu_write v) = Some c.
Proof. exact lu_read_write. Qed.
Print Assumptions C08_landuse_read_write.

Definition C08_landuse_new : landuse :=
  {| lu_new := true; lu_nland := 11; lu_rows := 1; lu_cols := 2; lu_fland := map Z.of_nat (seq 100 22);
     lu_opts := [(lu_key_LAI, [1; 2]); (lu_key_TOPO, [3; 4])] |}.
Example C08_landuse_hyp_inhabited :
  lu_wf C08_landuse_new = true /\ lu_sniff_ok C08_landuse_new = true /\
  lu_write (lu_view_of C08_landuse_new) = lu_enc C08_landuse_new /\ length (lu_enc C08_landuse_new) = 44%nat.
Proof. vm_compute. repeat split. Qed.
