(* C19 — ICARTT (ffi1001) write/read round trip.  Property statements only; every proof is
   `exact <lemma>` or a vm_compute witness.  Model: Model/Icartt.v (character-level text, the
   line-number state machine of ffi1001.__init__, exact decimals for '%.6e'). *)
From Coq Require Import String.
From PNC Require Import Base.Util Model.Icartt Proofs.IcarttProofs.
Local Open Scope string_scope.
Local Open Scope list_scope.
Local Open Scope Z_scope.

(* ---- header arithmetic: count = attributes + variables + 15 ---------------------------------- *)

(* Lines 2..12 are interpreted by position alone, whatever has been read before. *)
Theorem C19_line_classes_head : forall n nm nsc ndep nattr li,
  0 <= nm -> 0 <= nsc -> 15 <= n -> 2 <= li <= 12 ->
  classify n nm nsc li = layout ndep nattr li.
Proof. exact classify_head. Qed.
Print Assumptions C19_line_classes_head.

(* For EVERY number of dependent variables and attributes: with the declared count
   attributes + variables + 15, the reader's if/elif chain interprets every header line after the
   missing-code line as exactly what the writer put there (descriptions, the two counters, the
   user comments, the names line). *)
Theorem C19_line_classes : forall ndep nattr li,
  0 <= ndep -> 0 <= nattr -> 12 < li <= nattr + ndep + 15 ->
  classify (nattr + ndep + 15) ndep 0 li = layout ndep nattr li.
Proof. exact classify_tail. Qed.
Print Assumptions C19_line_classes.

(* Declared = actual: if no printed header field contains a newline, the output is exactly N - 1
   header lines, the last being the names line, followed by the data rows; N = attrs + vars + 15.
   All files, any number of variables / attributes / records. *)
Theorem C19_header_count_exact : forall f n ls ind sd,
  impl_write f = Some (n, ls) ->
  indep_name f = Some ind -> get_attr (s2z "SDATE") (f_attrs f) = Some sd ->
  forallb no_nl (hdr_strings f ind sd) = true ->
  exists rows, ls = map PT (hdr_strings f ind sd) ++ map PR rows
    /\ Z.of_nat (length (hdr_strings f ind sd)) + 1 = n
    /\ n = Z.of_nat (length (myattrs f)) + Z.of_nat (length (depvars ind f)) + 15
    /\ last (hdr_strings f ind sd) [] = join sep (ind :: map v_name (depvars ind f)).
Proof. exact header_count_exact. Qed.
Print Assumptions C19_header_count_exact.

(* A count that is one short (a newline inside an attribute value) turns the last attribute line
   into the names line. *)
Theorem C19_count_off_by_one : forall ndep nattr, 0 <= ndep -> 1 <= nattr ->
  classify (nattr + ndep + 15) ndep 0 (nattr + ndep + 15) = K_names
  /\ classify (nattr + ndep + 15) ndep 0 (nattr + ndep + 14) = K_user
  /\ classify (nattr + ndep + 14) ndep 0 (nattr + ndep + 14) = K_names.
Proof. exact classify_off_by_one. Qed.
Print Assumptions C19_count_off_by_one.

(* FULL statement "the output re-opens for any set of header attributes" is false of the faithful
   model: a value with a newline makes the output unreadable
   (the names line becomes a data row of NaN, which the time conversion rejects). *)
Theorem C19_header_count_refuted : exists f,
  in_quant f = true /\ region_of f = 2%nat /\ impl_roundtrip f = None.
Proof. exists w_newline. vm_compute. repeat split; reflexivity. Qed.
Print Assumptions C19_header_count_refuted.

(* ---- single header lines: print then parse, for all contents ------------------------------- *)

Theorem C19_desc_line : forall name u,
  has_char cCOMMA name = false -> stripped name = true ->
  has_char cCOMMA u = false -> stripped u = true ->
  parse_desc (join sep [name; u]) = (name, u).
Proof. exact parse_desc_print. Qed.
Print Assumptions C19_desc_line.

(* names and order, any number of variables *)
Theorem C19_names_line : forall names,
  names <> [] -> forallb word_tok names = true ->
  forallb (fun s => negb (has_char cSLASH s)) names = true ->
  parse_names (join sep names) = names.
Proof. exact parse_names_print. Qed.
Print Assumptions C19_names_line.

Theorem C19_user_line : forall k v,
  has_char cCOLON k = false -> stripped k = true ->
  parse_user (k ++ [cCOLON; cSP] ++ v) = (k, strip v).
Proof. exact parse_user_print. Qed.
Print Assumptions C19_user_line.

(* ---- values: seven significant digits ------------------------------------------------------ *)

(* '%.6e' of any exact value x = m * 10^e: the printed decimal r is exact when x has at most 7
   digits, otherwise within half a unit of the 7th digit; all magnitudes, signs, zero. *)
Theorem C19_values_seven_digits : forall x,
  let r := fmt6e x in
  (de r <= de x -> dm r = dm x * 10 ^ (de x - de r))
  /\ (de x < de r -> 2 * Z.abs (dm r * 10 ^ (de r - de x) - dm x) <= 10 ^ (de r - de x)).
Proof. exact fmt6e_error. Qed.
Print Assumptions C19_values_seven_digits.

Theorem C19_values_canonical : forall x, canon7 (fmt6e x) = true.
Proof. exact fmt6e_canon. Qed.
Print Assumptions C19_values_canonical.

(* ---- masks --------------------------------------------------------------------------------- *)

(* One cell through writer and reader: if the masked array's fill value prints as the code the
   reader will compare with, and the cell's own value does not print like the code, the mask is
   kept and the value is the 7-digit rendering. *)
Theorem C19_cell_roundtrip_partial : forall code fill c,
  dec_eqb (fmt6e fill) code = true ->
  (forall d, c = Some d -> dec_eqb (fmt6e d) code = false) ->
  cell_rt code fill c = spec_cell c.
Proof. exact cell_rt_spec. Qed.
Print Assumptions C19_cell_roundtrip_partial.

(* "any missing-value codes" is false: a code with more than seven digits loses every mask *)
Theorem C19_mask_long_code_refuted : exists f,
  in_quant f = true /\ region_of f = 3%nat /\ rt_ok f = false.
Proof. exists w_longcode. vm_compute. repeat split; reflexivity. Qed.
Print Assumptions C19_mask_long_code_refuted.

(* a masked variable whose fill_value differs from its missing_value attribute loses its mask *)
Theorem C19_mask_fill_refuted : exists f,
  in_quant f = true /\ region_of f = 3%nat /\ rt_ok f = false.
Proof. exists w_fill. vm_compute. repeat split; reflexivity. Qed.
Print Assumptions C19_mask_fill_refuted.

(* "any finite values" is false: an unmasked value that prints like the code comes back masked *)
Theorem C19_value_collision_refuted : exists f,
  in_quant f = true /\ region_of f = 4%nat /\ rt_ok f = false.
Proof. exists w_collide. vm_compute. repeat split; reflexivity. Qed.
Print Assumptions C19_value_collision_refuted.

(* ---- units / codes of the independent variable, tokens ------------------------------------- *)

Theorem C19_indep_meta_refuted : exists f r,
  in_quant f = true /\ region_of f = 1%nat /\ impl_roundtrip f = Some r /\ rt_ok f = false
  /\ map r_units (firstn 1 (r_vars r)) = [s2z "t"] /\ map r_code_s (firstn 1 (r_vars r)) = [s2z "-9999"].
Proof. exists w_indep. eexists. vm_compute. repeat split; reflexivity. Qed.
Print Assumptions C19_indep_meta_refuted.

Theorem C19_lod_flag_refuted : exists f,
  in_quant f = true /\ region_of f = 6%nat /\ impl_roundtrip f = None.
Proof. exists w_lod. vm_compute. repeat split; reflexivity. Qed.
Print Assumptions C19_lod_flag_refuted.

Theorem C19_name_slash_refuted : exists f,
  in_quant f = true /\ region_of f = 7%nat /\ rt_ok f = false.
Proof. exists w_slash. vm_compute. repeat split; reflexivity. Qed.
Print Assumptions C19_name_slash_refuted.

Theorem C19_unit_comma_refuted : exists f,
  in_quant f = true /\ region_of f = 7%nat /\ rt_ok f = false.
Proof. exists w_unit_comma. vm_compute. repeat split; reflexivity. Qed.
Print Assumptions C19_unit_comma_refuted.

(* ---- auto-detection ------------------------------------------------------------------------ *)

Theorem C19_autodetect_partial : forall ls l,
  find is_level_line (firstn 99 ls) = None -> nth_error ls 26 = Some l ->
  zip_all_eq l100_names (pline_words l) = false -> impl_detect ls = R_ffi1001.
Proof. exact detect_long. Qed.
Print Assumptions C19_autodetect_partial.

(* every output with fewer than 28 lines is claimed by the l100 reader *)
Theorem C19_autodetect_short : forall ls,
  find is_level_line (firstn 99 ls) = None -> (length ls < 27)%nat -> impl_detect ls = R_l100.
Proof. exact detect_short. Qed.
Print Assumptions C19_autodetect_short.

Theorem C19_autodetect_refuted : exists f,
  in_quant f = true /\ region_of f = 5%nat /\ rt_ok f = true /\ detect_ok f = false.
Proof. exists w_short. vm_compute. repeat split; reflexivity. Qed.
Print Assumptions C19_autodetect_refuted.

Theorem C19_autodetect_level_refuted : exists f,
  in_quant f = true /\ region_of f = 5%nat /\ rt_ok f = true /\ detect_ok f = false /\ 28 <= total_lines f.
Proof. exists w_level. vm_compute. repeat split; try reflexivity. discriminate. Qed.
Print Assumptions C19_autodetect_level_refuted.

(* ---- second cycle -------------------------------------------------------------------------- *)

Theorem C19_print_idempotent : forall x, fmt6e (fmt6e x) = fmt6e x.
Proof. exact fmt6e_idem. Qed.
Print Assumptions C19_print_idempotent.

(* a cell that went through one cycle is unchanged by the next (value and mask), for every code
   that is itself a 7-digit decimal *)
Theorem C19_second_cycle_cell_partial : forall code c, canon7 code = true ->
  let back := fun x => match x with CV d => Some d | _ => None end in
  forall fill, cell_rt code fill c = CM \/ (exists d, cell_rt code fill c = CV d) ->
  cell_rt code code (back (cell_rt code fill c)) = cell_rt code fill c.
Proof. exact cell_second. Qed.
Print Assumptions C19_second_cycle_cell_partial.

(* UNPROVED (DESIGN 8.1 rung 3): the composition over whole files,
     forall f, dom f = true -> rt_ok f = true /\ second_ok f = true /\ detect_ok f = true,
   i.e. run_header executed symbolically over the writer's output for arbitrary numbers of variables
   and attributes.  Proved instead: the line classification for all counts (C19_line_classes, C19_line_classes_head), the
   exact header count (C19_header_count_exact), each line parser (C19_desc_line, C19_names_line,
   C19_user_line), each cell (C19_cell_roundtrip_partial, C19_second_cycle_cell_partial); the composition
   is evaluated by vm_compute on the file below and compared with the library on every generated case. *)
Example C19_domain_inhabited :
  dom w_good = true /\ rt_ok w_good = true /\ second_ok w_good = true /\ detect_ok w_good = true
  /\ impl_roundtrip w_good <> None.
Proof. vm_compute. repeat split; try reflexivity; discriminate. Qed.
