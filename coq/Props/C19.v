(* C19 — ICARTT (ffi1001) write/read round trip.  Property statements only; every proof is
   `exact <lemma>` or a vm_compute witness.  Model: Model/Icartt.v (character-level text, the
   line-number state machine of ffi1001.__init__, exact decimals for '%.6e'). *)
From Coq Require Import String.
From PNC Require Import Base.Util Model.Icartt Proofs.IcarttProofs Proofs.IcarttClosureProofs.
Local Open Scope string_scope.
Local Open Scope list_scope.
Local Open Scope Z_scope.

(* ---- header arithmetic: count = attributes + variables + 15 ---------------------------------- *)

(* Lines 2..12 are interpreted by position alone, whatever has been read before. *)
Theorem C19_line_classes_head : forall n nm nsc ndep nattr li,
  0 <= nm -> 0 <= nsc -> 15 <= n -> 2 <= li <= 12 ->
  classify n nm nsc li = layout ndep nattr li.
Proof. exact classify_head. Qed.
Print Assumptions C19_line_classes_head.

(* For EVERY number of dependent variables and attributes: with the declared count
   attributes + variables + 15, the reader's if/elif chain interprets every header line after the
   missing-code line as exactly what the writer put there (descriptions, the two counters, the
   user comments, the names line). *)
Theorem C19_line_classes : forall ndep nattr li,
  0 <= ndep -> 0 <= nattr -> 12 < li <= nattr + ndep + 15 ->
  classify (nattr + ndep + 15) ndep 0 li = layout ndep nattr li.
Proof. exact classify_tail. Qed.
Print Assumptions C19_line_classes.

(* TIE T: the model's line classification IS the source's if/elif chain over the line-number expressions
   (PI_LINE .. MISSING_LINE, LAST_VAR_DESC_LINE, SPECIAL_COMMENT_COUNT_LINE, LAST_SPECIAL_COMMENT_LINE,
   USER_COMMENT_COUNT_LINE) regenerated from icarttfiles/ffi1001.py on every run (coq/Gen/IcarttSrc.v); the
   writer's declared count is the source's expression len(myattrs) + len(depvarkeys) + 15. *)
Theorem C19_classify_is_source : forall n nm nsc li, classify n nm nsc li = classify_src n nm nsc li.
Proof. exact classify_is_source. Qed.
Print Assumptions C19_classify_is_source.

Theorem C19_header_count_is_source : forall f ind,
  header_count f ind = PNC.Gen.IcarttSrc.header_count_expr (Z.of_nat (length (myattrs f))) (Z.of_nat (length (depvars ind f)))
  /\ PNC.Gen.IcarttSrc.format_number = 1001.
Proof. exact header_count_is_source. Qed.
Print Assumptions C19_header_count_is_source.

(* Declared = actual, for ANY attribute values (the repaired writer prints them on one line): if no
   other printed field (fixed lines, names, units, codes, attribute keys) contains a newline, the output
   is exactly N - 1 header lines, the last being the names line, followed by the data rows;
   N = attrs + vars + 15.  All files, any number of variables / attributes / records. *)
Theorem C19_header_count_exact : forall f n ls ind sd,
  impl_write f = Some (n, ls) ->
  indep_name f = Some ind -> get_attr (s2z "SDATE") (f_attrs f) = Some sd ->
  forallb no_nl (hdr_other f ind sd) = true ->
  exists rows, ls = map PT (hdr_strings f ind sd) ++ map PR rows
    /\ Z.of_nat (length (hdr_strings f ind sd)) + 1 = n
    /\ n = Z.of_nat (length (myattrs f)) + Z.of_nat (length (depvars ind f)) + 15
    /\ last (hdr_strings f ind sd) [] = join sep (ind :: map v_name (depvars ind f)).
Proof. exact header_count_exact. Qed.
Print Assumptions C19_header_count_exact.

(* Why the count matters: a count that is one short turns the last attribute line into the names line. *)
Theorem C19_count_off_by_one : forall ndep nattr, 0 <= ndep -> 1 <= nattr ->
  classify (nattr + ndep + 15) ndep 0 (nattr + ndep + 15) = K_names
  /\ classify (nattr + ndep + 15) ndep 0 (nattr + ndep + 14) = K_user
  /\ classify (nattr + ndep + 14) ndep 0 (nattr + ndep + 14) = K_names.
Proof. exact classify_off_by_one. Qed.
Print Assumptions C19_count_off_by_one.

(* an attribute value never contributes a line break *)
Theorem C19_attr_value_one_line : forall v, no_nl (one_line v) = true.
Proof. exact one_line_no_nl. Qed.
Print Assumptions C19_attr_value_one_line.

(* ---- single header lines: print then parse, for all contents ------------------------------- *)

Theorem C19_desc_line : forall name u,
  has_char cCOMMA name = false -> stripped name = true ->
  has_char cCOMMA u = false -> stripped u = true ->
  parse_desc (join sep [name; u]) = (name, u).
Proof. exact parse_desc_print. Qed.
Print Assumptions C19_desc_line.

(* names and order, any number of variables *)
Theorem C19_names_line : forall names,
  names <> [] -> forallb word_tok names = true ->
  forallb (fun s => negb (has_char cSLASH s)) names = true ->
  parse_names (join sep names) = names.
Proof. exact parse_names_print. Qed.
Print Assumptions C19_names_line.

(* missing codes (and scale factors), any number of variables: every token and its value come back, so
   len(missing) = number of dependent variables - the quantity that positions every later header line *)
Theorem C19_codes_line : forall toks a,
  forallb clean_code (a :: toks) = true ->
  eval_list (join sep (a :: toks)) = Some (map (fun t => (t, code_of t)) (a :: toks)).
Proof. exact eval_list_print. Qed.
Print Assumptions C19_codes_line.

Theorem C19_codes_count : forall toks a,
  forallb clean_code (a :: toks) = true ->
  exists ms, eval_list (join sep (a :: toks)) = Some ms /\ length ms = length (a :: toks).
Proof. exact eval_list_length. Qed.
Print Assumptions C19_codes_count.

Theorem C19_user_line : forall k v,
  has_char cCOLON k = false -> stripped k = true ->
  parse_user (k ++ [cCOLON; cSP] ++ v) = (k, strip v).
Proof. exact parse_user_print. Qed.
Print Assumptions C19_user_line.

(* ---- values: seven significant digits ------------------------------------------------------ *)

(* '%.6e' of any exact value x = m * 10^e: the printed decimal r is exact when x has at most 7
   digits, otherwise within half a unit of the 7th digit; all magnitudes, signs, zero. *)
Theorem C19_values_seven_digits : forall x,
  let r := fmt6e x in
  (de r <= de x -> dm r = dm x * 10 ^ (de x - de r))
  /\ (de x < de r -> 2 * Z.abs (dm r * 10 ^ (de r - de x) - dm x) <= 10 ^ (de r - de x)).
Proof. exact fmt6e_error. Qed.
Print Assumptions C19_values_seven_digits.

Theorem C19_values_canonical : forall x, canon7 (fmt6e x) = true.
Proof. exact fmt6e_canon. Qed.
Print Assumptions C19_values_canonical.

(* ---- masks --------------------------------------------------------------------------------- *)

(* One cell through writer and reader.  The repaired writer fills masked cells with the variable's
   missing code, whatever the array's own fill_value: if that code is itself a 7-digit decimal and the
   cell's value does not print like the code, the mask is kept and the value is the 7-digit rendering. *)
Theorem C19_cell_roundtrip_partial : forall code c,
  canon7 code = true ->
  (forall d, c = Some d -> dec_eqb (fmt6e d) code = false) ->
  cell_rt code code c = spec_cell c.
Proof. exact cell_rt_canon. Qed.
Print Assumptions C19_cell_roundtrip_partial.

(* "any missing-value codes" is false: a code with more than seven digits loses every mask *)
Theorem C19_mask_long_code_refuted : exists f,
  in_quant f = true /\ region_of f = 2%nat /\ rt_ok f = false.
Proof. exists w_longcode. vm_compute. repeat split; reflexivity. Qed.
Print Assumptions C19_mask_long_code_refuted.

(* "any finite values" is false: an unmasked value that prints like the code comes back masked *)
Theorem C19_value_collision_refuted : exists f,
  in_quant f = true /\ region_of f = 3%nat /\ rt_ok f = false.
Proof. exists w_collide. vm_compute. repeat split; reflexivity. Qed.
Print Assumptions C19_value_collision_refuted.

(* ---- units / codes of the independent variable, tokens ------------------------------------- *)

(* the units of the independent variable survive (line 9 now carries them); its missing code cannot:
   the ICARTT header has no place for it and the reader substitutes the first dependent variable's *)
Theorem C19_indep_code_refuted : exists f r,
  in_quant f = true /\ region_of f = 1%nat /\ impl_roundtrip f = Some r /\ rt_ok f = false
  /\ map r_units (firstn 1 (r_vars r)) = [s2z "s"] /\ map r_code_s (firstn 1 (r_vars r)) = [s2z "-9999"].
Proof. exists w_indep. eexists. vm_compute. repeat split; reflexivity. Qed.
Print Assumptions C19_indep_code_refuted.

Theorem C19_name_slash_refuted : exists f,
  in_quant f = true /\ region_of f = 4%nat /\ rt_ok f = false.
Proof. exists w_slash. vm_compute. repeat split; reflexivity. Qed.
Print Assumptions C19_name_slash_refuted.

Theorem C19_unit_comma_refuted : exists f,
  in_quant f = true /\ region_of f = 4%nat /\ rt_ok f = false.
Proof. exists w_unit_comma. vm_compute. repeat split; reflexivity. Qed.
Print Assumptions C19_unit_comma_refuted.

(* ---- auto-detection ------------------------------------------------------------------------ *)

(* The l100 reader (asked first) claims a file only if one of its first 100 lines carries the eight
   L100 column names as its first eight tokens; otherwise ffi1001 is selected - for every length. *)
Theorem C19_autodetect : forall ls,
  forallb (fun l => negb (claims l)) (firstn 99 ls) = true -> impl_detect ls = R_ffi1001.
Proof. exact detect_ffi. Qed.
Print Assumptions C19_autodetect.

Theorem C19_few_tokens_not_claimed : forall l, (length (pline_words l) < 8)%nat -> claims l = false.
Proof. exact few_tokens_not_claimed. Qed.
Print Assumptions C19_few_tokens_not_claimed.

(* ---- second cycle -------------------------------------------------------------------------- *)

Theorem C19_print_idempotent : forall x, fmt6e (fmt6e x) = fmt6e x.
Proof. exact fmt6e_idem. Qed.
Print Assumptions C19_print_idempotent.

(* a cell that went through one cycle is unchanged by the next (value and mask), for every code
   that is itself a 7-digit decimal *)
Theorem C19_second_cycle_cell_partial : forall code w c, canon7 code = true ->
  let back := fun x => match x with CV d => Some d | _ => None end in
  cell_rt code code (back (cell_rt code w c)) = cell_rt code w c.
Proof. exact cell_second. Qed.
Print Assumptions C19_second_cycle_cell_partial.

(* ---- whole files: the header loop ------------------------------------------------------------ *)

(* '%d' never contains a line break (the two counter lines are single lines for every count) *)
Theorem C19_count_lines_one_line : forall z, no_nl (zstr z) = true.
Proof. exact no_nl_zstr. Qed.
Print Assumptions C19_count_lines_one_line.

(* The reader's state machine on ANY header of the ICARTT layout, for any number of description and
   comment lines: with the declared count comments + descriptions + 15, as many description lines as
   missing codes, special-comment count 0 and no comment line starting with a blank, the loop consumes
   exactly the header and ends with the names of the names line, the codes of the missing line and the
   units of line 9 and of the description lines. *)
Theorem C19_header_state_machine : forall n l2 l3 l4 l5 l6 l7 l8 l9 l10 l11 l12 dl us l13 l14 al lnames scs mss v0 vs rest,
  n = Z.of_nat (length al) + Z.of_nat (length dl) + 15 ->
  eval_list l11 = Some scs -> eval_list l12 = Some mss -> length mss = length dl ->
  Forall2 (fun line u => snd (parse_desc line) = u) dl us ->
  parse_int l13 = Some 0 -> forallb not_continuation al = true ->
  parse_names lnames = v0 :: vs ->
  exists A last,
  run_header n 2 (11 + (length dl + (2 + (length al + 1))))
    (map PT ([l2; l3; l4; l5; l6; l7; l8; l9; l10; l11; l12] ++ dl ++ [l13; l14] ++ al ++ [lnames]) ++ rest) (s0_of n)
  = Some (St (map snd scs) mss (line9_unit l9 :: us) 0 last A (Some (v0 :: vs)), rest).
Proof. exact header_run. Qed.
Print Assumptions C19_header_state_machine.

(* WHOLE FILES (read_write_meta): for every file that satisfies the boolean hypotheses header_ok (>= 1
   dependent variable, codes that parse, names / units without comma and padding, no attribute line
   starting with a blank) and whose non-attribute fields have no line break, reading what the writer
   wrote runs the header loop to exactly the first data row and hands the data stage (read_data) the
   variable names in order, every missing-code token and value, the units of every dependent variable
   and of line 9, one scale per dependent variable - any number of variables, attributes, records. *)
Theorem C19_read_write_meta_partial : forall f n ls ind sd iv,
  impl_write f = Some (n, ls) ->
  indep_name f = Some ind -> get_attr (s2z "SDATE") (f_attrs f) = Some sd -> find_var ind f = Some iv ->
  forallb no_nl (hdr_other f ind sd) = true ->
  header_ok f ind = true ->
  exists s,
    impl_roundtrip f = read_data n s (map PR (wrows f ind iv))
    /\ s_vars s = Some (ind :: map v_name (depvars ind f))
    /\ s_miss s = map (fun t => (t, code_of t)) (map code_str (depvars ind f))
    /\ s_units s = line9_unit (indep_line f ind) :: map units_str (depvars ind f)
    /\ s_scales s = map (fun _ => D 1 0) (depvars ind f)
    /\ s_nsc s = 0.
Proof. exact roundtrip_through_header. Qed.
Print Assumptions C19_read_write_meta_partial.

(* THE DATA STAGE (genfromtxt / reshape / per-variable masking / variables dictionary / time test) for ANY
   number of rows and columns: rows as wide as the names line, distinct names, enough scales / codes /
   units, a first column that is a valid time => one variable per name, in order, with the i-th unit, the
   i-th code (the first code twice: the independent variable gets the first dependent code) and the i-th
   column masked against that code. *)
Theorem C19_data_stage : forall n s nm0 nms (rows : list (list dec)) r0 rt,
  s_vars s = Some (nm0 :: nms) -> uniq (nm0 :: nms) = true ->
  rows = r0 :: rt -> Forall (fun r => length r = length (nm0 :: nms)) rows ->
  (length (nm0 :: nms) <= S (length (s_scales s)))%nat ->
  (length (nm0 :: nms) <= length (firstn 1 (s_miss s) ++ s_miss s))%nat ->
  (length (nm0 :: nms) <= length (s_units s))%nat ->
  forallb t_ok (map CV (column 0 rows)) = true ->
  read_data n s (map PR rows)
  = Some (RFile n (s_attrs s)
            (exp_vars (nm0 :: nms) 0 (D 1 0 :: s_scales s) (firstn 1 (s_miss s) ++ s_miss s) (s_units s) (map (map CV) rows))).
Proof. exact read_data_rows. Qed.
Print Assumptions C19_data_stage.

(* the i-th column of the written table is the i-th variable's (code-filled) cell list, any shape *)
Theorem C19_written_columns : forall n cols i,
  Forall (fun c => length c = n) cols -> (i < length cols)%nat ->
  column i (transpose_rows n cols) = nth i cols [].
Proof. exact column_transpose. Qed.
Print Assumptions C19_written_columns.

(* WHOLE FILES, header AND data: for every file satisfying the boolean side conditions header_ok and
   data_ok (>= 1 record, equal lengths, distinct names, time-like independent values) the reader applied
   to the writer's output succeeds and returns exactly expected_vars f - names and order, units, codes,
   and every cell '%.6e'-rendered and masked against its code - for any number of variables, attributes
   and records.  (_partial: the side conditions; and expected_vars still carries the independent-code
   substitution, see C19_indep_code_refuted.) *)
Theorem C19_roundtrip_whole_partial : forall f n ls ind sd iv,
  impl_write f = Some (n, ls) ->
  indep_name f = Some ind -> get_attr (s2z "SDATE") (f_attrs f) = Some sd -> find_var ind f = Some iv ->
  forallb no_nl (hdr_other f ind sd) = true ->
  header_ok f ind = true -> data_ok f ind iv = true ->
  exists A, impl_roundtrip f = Some (RFile n A (expected_vars f ind iv)).
Proof. exact roundtrip_whole. Qed.
Print Assumptions C19_roundtrip_whole_partial.

(* line 9 "name, units" gives the independent variable's units back *)
Theorem C19_line9_units : forall ind u,
  stripped (join sep [ind; u]) = true -> has_char cCOMMA ind = false ->
  has_char cCOMMA u = false -> stripped u = true ->
  line9_unit (join sep [ind; u]) = u.
Proof. exact line9_print. Qed.
Print Assumptions C19_line9_units.

(* (i) what the reader returns for the writer's output IS what the property demands: expected_vars f =
   spec_roundtrip f (names and order, every variable's own units and code, masked cells masked, values
   to seven digits), under the boolean condition spec_ok (line 9 carries the independent variable's units,
   its code is the first dependent code, every variable has units, every masked cell prints as its code
   and no unmasked cell does) - any number of variables and records. *)
Theorem C19_expected_is_spec : forall f ind iv,
  indep_name f = Some ind -> find_var ind f = Some iv ->
  header_ok f ind = true -> data_ok f ind iv = true -> spec_ok f ind iv = true ->
  spec_roundtrip f = Some (expected_vars f ind iv).
Proof. exact expected_is_spec. Qed.
Print Assumptions C19_expected_is_spec.

(* THE ROUND TRIP ON WHOLE FILES against the specification: write then read succeeds and returns exactly
   spec_roundtrip f, for every file satisfying the boolean side conditions. *)
Theorem C19_roundtrip_whole : forall f n ls ind sd iv,
  impl_write f = Some (n, ls) ->
  indep_name f = Some ind -> get_attr (s2z "SDATE") (f_attrs f) = Some sd -> find_var ind f = Some iv ->
  forallb no_nl (hdr_other f ind sd) = true ->
  header_ok f ind = true -> data_ok f ind iv = true -> spec_ok f ind iv = true ->
  exists A sp, impl_roundtrip f = Some (RFile n A sp) /\ spec_roundtrip f = Some sp.
Proof. exact roundtrip_whole_spec. Qed.
Print Assumptions C19_roundtrip_whole.

(* reading is a fixed point of the specification: the file that was read back demands itself *)
Theorem C19_spec_fixed_point : forall f ind iv sp A,
  indep_name f = Some ind -> find_var ind f = Some iv ->
  uniq (ind :: map v_name (depvars ind f)) = true ->
  spec_roundtrip f = Some sp ->
  indep_name (to_file (RFile 0 A sp)) = Some ind ->
  spec_roundtrip (to_file (RFile 0 A sp)) = Some sp.
Proof. exact spec_to_file. Qed.
Print Assumptions C19_spec_fixed_point.

(* (ii) SECOND CYCLE ON WHOLE FILES: write . read . write . read = write . read on the variables (names,
   order, units, codes, masks, values), when the file f and the file read back from it both satisfy the
   boolean side conditions. *)
Theorem C19_second_cycle_whole_given_both : forall f n ls ind sd iv r1 n2 ls2 sd2 iv2,
  impl_write f = Some (n, ls) ->
  indep_name f = Some ind -> get_attr (s2z "SDATE") (f_attrs f) = Some sd -> find_var ind f = Some iv ->
  forallb no_nl (hdr_other f ind sd) = true ->
  header_ok f ind = true -> data_ok f ind iv = true -> spec_ok f ind iv = true ->
  impl_roundtrip f = Some r1 ->
  let f2 := to_file r1 in
  impl_write f2 = Some (n2, ls2) ->
  indep_name f2 = Some ind -> get_attr (s2z "SDATE") (f_attrs f2) = Some sd2 -> find_var ind f2 = Some iv2 ->
  forallb no_nl (hdr_other f2 ind sd2) = true ->
  header_ok f2 ind = true -> data_ok f2 ind iv2 = true -> spec_ok f2 ind iv2 = true ->
  exists r2, impl_second f = Some r2 /\ r_vars r2 = r_vars r1 /\ spec_roundtrip f = Some (r_vars r1).
Proof. exact second_cycle_whole. Qed.
Print Assumptions C19_second_cycle_whole_given_both.

(* VARIABLE PART OF THE CLOSURE: the file that is read back (refile A f ind iv = to_file of the result,
   whatever its attribute list A) satisfies every variable-dependent side condition the original satisfied:
   names / units / codes clean, equal lengths, distinct names, time-like first column, spec_ok, no line break
   in the variable-dependent header strings.  (fmt6e idempotence + the shape of the specification.) *)
Theorem C19_side_conditions_closed_vars : forall A f ind iv,
  find_var ind f = Some iv -> vars_ok f ind iv = true ->
  find_var ind (refile A f ind iv) = Some (revar iv) /\ vars_ok (refile A f ind iv) ind (revar iv) = true.
Proof. exact side_conditions_closed_vars. Qed.
Print Assumptions C19_side_conditions_closed_vars.

(* the file read back is refile A f ind iv *)
Theorem C19_read_back_file : forall f ind iv sp n A,
  indep_name f = Some ind -> find_var ind f = Some iv -> spec_roundtrip f = Some sp ->
  to_file (RFile n A sp) = refile A f ind iv.
Proof. exact to_file_refile. Qed.
Print Assumptions C19_read_back_file.

(* SECOND CYCLE ON WHOLE FILES, hypotheses on f plus only four ATTRIBUTE facts about the file read back
   (INDEPENDENT_VARIABLE and SDATE present; the fixed attribute lines and the comment keys free of line
   breaks; no comment line starting with a blank): write . read . write . read = write . read. *)
Theorem C19_second_cycle_whole_attrs : forall f n ls ind sd iv r1 sd2,
  impl_write f = Some (n, ls) ->
  indep_name f = Some ind -> get_attr (s2z "SDATE") (f_attrs f) = Some sd -> find_var ind f = Some iv ->
  forallb no_nl (hdr_other f ind sd) = true ->
  header_ok f ind = true -> data_ok f ind iv = true -> spec_ok f ind iv = true ->
  impl_roundtrip f = Some r1 ->
  let f2 := to_file r1 in
  indep_name f2 = Some ind -> get_attr (s2z "SDATE") (f_attrs f2) = Some sd2 ->
  forallb no_nl (hdr_attrs f2 sd2) = true -> attr_lines_ok f2 = true ->
  exists r2, impl_second f = Some r2 /\ r_vars r2 = r_vars r1 /\ spec_roundtrip f = Some (r_vars r1).
Proof. exact second_cycle_whole_attrs. Qed.
Print Assumptions C19_second_cycle_whole_attrs.

(* ATTRIBUTE PART OF THE CLOSURE: the attribute list the reader builds satisfies an invariant through
   the whole header loop (every key and value is a strip / join of strips of a header line or a constant:
   no line break, no key starting with a blank; INDEPENDENT_VARIABLE and SDATE are set on lines 9 and 7
   and never overwritten because comment keys differ from them), hence the four attribute facts of the
   file read back.  Extra boolean conditions on f: comment keys colon-free and stripped (attr_keys_ok),
   line 9 starts with the independent variable's name (line9_name_ok). *)
Theorem C19_side_conditions_closed_attrs : forall f n ls ind sd iv r1,
  impl_write f = Some (n, ls) ->
  indep_name f = Some ind -> get_attr (s2z "SDATE") (f_attrs f) = Some sd -> find_var ind f = Some iv ->
  forallb no_nl (hdr_other f ind sd) = true ->
  header_ok f ind = true -> attr_keys_ok f = true -> line9_name_ok f ind = true ->
  impl_roundtrip f = Some r1 ->
  let f2 := to_file r1 in
  indep_name f2 = Some ind /\ get_attr (s2z "SDATE") (f_attrs f2) = Some (s2z "-")
  /\ forallb no_nl (hdr_attrs f2 (s2z "-")) = true /\ attr_lines_ok f2 = true.
Proof. exact side_conditions_closed_attrs. Qed.
Print Assumptions C19_side_conditions_closed_attrs.

(* THE CLOSURE: every side condition of the file read back follows from the side conditions of f *)
Theorem C19_side_conditions_closed : forall f n ls ind sd iv r1,
  impl_write f = Some (n, ls) ->
  indep_name f = Some ind -> get_attr (s2z "SDATE") (f_attrs f) = Some sd -> find_var ind f = Some iv ->
  forallb no_nl (hdr_other f ind sd) = true ->
  header_ok f ind = true -> data_ok f ind iv = true -> spec_ok f ind iv = true ->
  attr_keys_ok f = true -> line9_name_ok f ind = true ->
  impl_roundtrip f = Some r1 ->
  let f2 := to_file r1 in
  exists iv2 n2 ls2,
    impl_write f2 = Some (n2, ls2) /\ indep_name f2 = Some ind
    /\ get_attr (s2z "SDATE") (f_attrs f2) = Some (s2z "-") /\ find_var ind f2 = Some iv2
    /\ forallb no_nl (hdr_other f2 ind (s2z "-")) = true
    /\ header_ok f2 ind = true /\ data_ok f2 ind iv2 = true /\ spec_ok f2 ind iv2 = true.
Proof. exact side_conditions_closed. Qed.
Print Assumptions C19_side_conditions_closed.

(* SECOND CYCLE ON WHOLE FILES, hypotheses on f ONLY: write . read . write . read = write . read on the
   variables (names, order, units, codes, masks, values), and that common result is spec_roundtrip f -
   for any number of variables, attributes and records. *)
Theorem C19_second_cycle_whole : forall f n ls ind sd iv r1,
  impl_write f = Some (n, ls) ->
  indep_name f = Some ind -> get_attr (s2z "SDATE") (f_attrs f) = Some sd -> find_var ind f = Some iv ->
  forallb no_nl (hdr_other f ind sd) = true ->
  header_ok f ind = true -> data_ok f ind iv = true -> spec_ok f ind iv = true ->
  attr_keys_ok f = true -> line9_name_ok f ind = true ->
  impl_roundtrip f = Some r1 ->
  exists r2, impl_second f = Some r2 /\ r_vars r2 = r_vars r1 /\ spec_roundtrip f = Some (r_vars r1).
Proof. exact second_cycle_whole_f. Qed.
Print Assumptions C19_second_cycle_whole.

(* Nothing of the whole-file composition is left unproved.  What the whole-file theorems still assume are
   the boolean side conditions on f (header_ok, data_ok, spec_ok, attr_keys_ok, line9_name_ok, no line break
   in the non-attribute fields): they delimit the proved domain, hold on the files below (vm_compute) and are
   the complement of the known-finding regions plus the malformed stream. *)
Example C19_header_hypotheses_inhabited :
  header_ok w_good (s2z "t") = true /\ forallb no_nl (hdr_other w_good (s2z "t") (s2z "2020, 01, 02")) = true
  /\ line9_unit (indep_line w_good (s2z "t")) = s2z "t"
  /\ data_ok w_good (s2z "t") (tvar "t" "-9999" 16) = true
  /\ option_map r_vars (impl_roundtrip w_good) = Some (expected_vars w_good (s2z "t") (tvar "t" "-9999" 16)).
Proof. vm_compute. repeat split; reflexivity. Qed.

Example C19_domain_inhabited :
  dom w_good = true /\ rt_ok w_good = true /\ second_ok w_good = true /\ detect_ok w_good = true
  /\ impl_roundtrip w_good <> None.
Proof. vm_compute. repeat split; try reflexivity; discriminate. Qed.

(* the repaired cases: newline in an attribute value, LLOD_FLAG alone, fill_value <> missing_value,
   a 19-line output, an independent variable called Level - all inside the domain now *)
Example C19_repaired_cases :
  forallb (fun f => dom f && rt_ok f && second_ok f && detect_ok f) [w_newline; w_lod; w_fill; w_short; w_level] = true.
Proof. vm_compute. reflexivity. Qed.

(* non-vacuity of C19_roundtrip_whole and C19_second_cycle_whole: all side conditions hold for w_good and
   for the file read back from it *)
Definition side_ok (f : file) : bool :=
  match indep_name f, get_attr (s2z "SDATE") (f_attrs f) with
  | Some ind, Some sd =>
      match find_var ind f, impl_write f with
      | Some iv, Some _ => forallb no_nl (hdr_other f ind sd) && header_ok f ind && data_ok f ind iv && spec_ok f ind iv
      | _, _ => false
      end
  | _, _ => false
  end.
Example C19_whole_file_hypotheses_inhabited :
  side_ok w_good = true
  /\ match impl_roundtrip w_good with Some r1 => side_ok (to_file r1) | None => false end = true
  /\ indep_name w_good = Some (s2z "t")
  /\ match impl_roundtrip w_good with Some r1 => indep_name (to_file r1) | None => None end = Some (s2z "t")
  /\ vars_ok w_good (s2z "t") (tvar "t" "-9999" 16) = true
  /\ attr_keys_ok w_good = true /\ line9_name_ok w_good (s2z "t") = true
  /\ match impl_roundtrip w_good with
     | Some r1 => forallb no_nl (hdr_attrs (to_file r1) (s2z "-")) && attr_lines_ok (to_file r1)
     | None => false
     end = true.
Proof. vm_compute. repeat split; reflexivity. Qed.
