(* C19 — placeholder while the model is being tied to the library; statements follow. *)
From PNC Require Import Base.Util Model.Icartt.
Local Open Scope Z_scope.
