(* C02 — dimension slicing selects exactly the requested hyperslab.
   Property statements only; every proof is `exact <lemma>` or a vm_compute witness.
   The model describes sliceDimensions AS REPAIRED by fixes/C02-slice-orthogonal-per-axis.patch,
   fixes/C02-zip-keep-masks.patch, fixes/C02-zip-with-ints.patch and fixes/C02-zip-empty-lists.patch
   (the former _refuted theorems — int+list separated by a slice axis, zipped lists with ints, lost
   masks, empty zipped lists — are gone; their witnesses live on in corpus/C02/).
   Model: Model/Slice.v over Base/ArrFlat.v (flat C-order arrays, abstract cells: a mask is part of
   the cell, so "masks carried over" is the statement at A := value * masked). *)
From PNC Require Import Base.Util Base.ArrFlat Model.Slice Proofs.ArrFlatProofs Proofs.SliceProofs
                        Gen.SliceDimSrc Proofs.SliceDimProofs.
From Coq Require Import Permutation.

(* ---- selector normalisation (Python ints / slices / lists -> source indices) ------------- *)

(* every selector that the model resolves (negative ints wrapped once, slices with any
   start/stop/step incl. None, negative, oversized, empty, reversed; lists with repeats)
   only names source indices inside the axis *)
Theorem C02_selectors_in_range : forall n s r, resolve n s = Some r -> rsel_ok n r = true.
Proof. exact resolve_ok. Qed.
Print Assumptions C02_selectors_in_range.

Theorem C02_slice_indices_in_range : forall n a b c l,
  slice_indices n a b c = Some l -> Forall (fun i => i < n) l.
Proof. exact slice_indices_range. Qed.
Print Assumptions C02_slice_indices_in_range.

(* ---- what the specification means ---------------------------------------------------------- *)

(* the orthogonal selection lists, in C order of the per-axis index lists, exactly the cells at
   the selected index tuples (all ranks, all shapes, all selectors) *)
Theorem C02_spec_elements : forall (A : Type) sh rs (d : list A),
  length rs = length sh ->
  oslice sh rs d = flat_map (fun idx => oslice sh (map RInt idx) d) (cart (map rindices rs)).
Proof. intros A. exact oslice_cart. Qed.
Print Assumptions C02_spec_elements.

Theorem C02_spec_single_cell : forall (A : Type) sh idx (d : list A) x,
  rs_ok sh (map RInt idx) = true -> length d = prodn sh ->
  oslice sh (map RInt idx) d = [nth (ravel sh idx) d x] /\ ravel sh idx < prodn sh.
Proof. intros A. exact oslice_point. Qed.
Print Assumptions C02_spec_single_cell.

(* result size = product of per-axis counts; an int selector counts 1 (kept as a length-1 axis) *)
Theorem C02_spec_shape : forall (A : Type) sh rs (d : list A),
  rs_ok sh rs = true -> length d = prodn sh ->
  length (oslice sh rs d) = prodn (spec_shape rs) /\ length (spec_shape rs) = length sh.
Proof. intros A sh rs d H1 H2. split; [exact (oslice_length sh rs d H1 H2)|exact (spec_shape_length sh rs H1)]. Qed.
Print Assumptions C02_spec_shape.

(* a variable none of whose dimensions is selected is returned unchanged *)
Theorem C02_unselected_variable_identical : forall (A : Type) sh (d : list A),
  length d = prodn sh -> oslice sh (map full_sel sh) d = d.
Proof. intros A. exact oslice_full. Qed.
Print Assumptions C02_unselected_variable_identical.

(* ---- what the code does ------------------------------------------------------------------- *)

(* the broadcast-or-reshape assignment never moves a cell when source and target sizes agree *)
Theorem C02_assignment_keeps_cell_order : forall (A : Type) tsh ssh (d : list A),
  length d = prodn ssh -> prodn ssh = prodn tsh -> assign tsh ssh d = Some d.
Proof. intros A. exact assign_same_cells. Qed.
Print Assumptions C02_assignment_keeps_cell_order.

(* the loop that applies the selectors one axis at a time, started after `outer` leading cells
   blocks, is the orthogonal selection under every block (the induction invariant of the loop) *)
Theorem C02_per_axis_loop : forall (A : Type) sh outer rs (d : list A),
  rs_ok sh rs = true -> length d = outer * prodn sh ->
  seq_take outer sh rs d = flat_map (fun o => oslice sh rs (chunk (prodn sh) o d)) (seq 0 outer).
Proof. intros A. exact seq_take_oslice. Qed.
Print Assumptions C02_per_axis_loop.

(* FULL STRENGTH: for every rank, shape, cell type (so: data and masks) and every in-range
   selector tuple — ints, slices, lists in ANY arrangement, no adjacency hypothesis — the code
   path (per-axis selection, pre-shaped target, broadcast or reshape) is the orthogonal selection,
   ints kept as length-1 axes *)
Theorem C02_slice_var : forall (A : Type) sh rs (d : list A),
  rs_ok sh rs = true -> length d = prodn sh ->
  impl_slice_var sh rs d (spec_shape rs) = Some (oslice sh rs d).
Proof. intros A. exact slice_var. Qed.
Print Assumptions C02_slice_var.

(* FULL STRENGTH: >= 1 list on the variable (the code takes this path with >= 2), all lists of
   length P (P = 0 included), the first list at ANY axis, int selectors anywhere, any cells (masked
   or not): the
   point loop equals the pointwise selection along one new axis placed where the first list axis
   was, orthogonal elsewhere *)
Theorem C02_zip_var : forall (A : Type) P sh rs (d : list A),
  rs_ok sh rs = true -> length d = prodn sh -> lists_len P rs = true -> has_list rs = true ->
  impl_zip_var P sh rs d (zip_shape P rs) = Some (zslice P sh rs d).
Proof. intros A. exact zip_var. Qed.
Print Assumptions C02_zip_var.

(* size of the zipped selection: P points times the sliced axes; ints and lists contribute 1 *)
Theorem C02_zip_spec_size : forall (A : Type) P sh rs (d : list A),
  rs_ok sh rs = true -> length d = prodn sh -> lists_len P rs = true -> has_list rs = true ->
  length (zslice P sh rs d) = P * prodn (point_shape rs).
Proof. intros A. exact zslice_length. Qed.
Print Assumptions C02_zip_spec_size.

(* FULL STRENGTH, WHOLE FILE: for every well-formed file (any number of dimensions and variables,
   any dimension subsets/orders per variable, any cells) and EVERY keyword list in any order —
   malformed ones included, where both sides are the error outcome — the model of the repaired
   sliceDimensions equals the specification: new dimension lengths, per-variable orthogonal
   selection, zipped selection with the POINTS dimension for variables holding >= 2 of the lists,
   variables without selected dimensions unchanged *)
Theorem C02_slice_file : forall (A : Type) (f : file A) kws,
  wf_file f = true -> impl_slice_file f kws = spec_slice_file f kws.
Proof. intros A. exact slice_file. Qed.
Print Assumptions C02_slice_file.

(* the zipped specification element-wise: with `pre` the (list-free) selectors before the first
   list, it enumerates the index tuples of `pre` in C order, under each the P points in order, and
   for each point the orthogonal selection with every list replaced by its ii-th element *)
Theorem C02_zip_spec_elements : forall (A : Type) P pre sh rest (d : list A),
  forallb (fun r => negb (is_list r)) pre = true ->
  (exists l rest', rest = RList l :: rest') ->
  length (pre ++ rest) = length sh ->
  zslice P sh (pre ++ rest) d
  = flat_map (fun idx =>
      flat_map (fun ii => oslice sh (map RInt idx ++ pointify ii rest) d) (seq 0 P))
      (cart (map rindices pre)).
Proof. intros A. exact zslice_elements. Qed.
Print Assumptions C02_zip_spec_elements.

(* "in any keyword order": permuting the (distinct) keywords changes nothing, error outcomes
   included — for the model of the code and for the specification *)
Theorem C02_keyword_order : forall (A : Type) (f : file A) kws kws',
  Permutation kws kws' -> NoDup (map fst kws) ->
  impl_slice_file f kws = impl_slice_file f kws' /\ spec_slice_file f kws = spec_slice_file f kws'.
Proof.
  intros A f kws kws' H1 H2. split; [exact (slice_file_kw_order _ _ f kws kws' H1 H2)|
                                      exact (slice_file_kw_order _ _ f kws kws' H1 H2)].
Qed.
Print Assumptions C02_keyword_order.

(* ---- string form slice_dim: generated argument bookkeeping (tie T, Gen/SliceDimSrc.v) ------- *)

(* 'dim,i' selects exactly element i of the axis, counted from the end for negative i *)
Theorem C02_slice_dim_single_index : forall n a,
  (- Z.of_nat n <= a < Z.of_nat n)%Z ->
  match sel_of_args [Some a] with Some s => resolve n s | None => None end
  = option_map (fun i => RSlice [i]) (norm_index n a).
Proof. exact single_index. Qed.
Print Assumptions C02_slice_dim_single_index.

(* 'dim,a,b' and 'dim,a,b,c' are slice(a,b) and slice(a,b,c); further numbers are ignored; no
   number at all cannot be unpacked *)
Theorem C02_slice_dim_forms : forall a b c rest,
  sel_of_args [a; b] = Some (SSlice a b None) /\
  sel_of_args (a :: b :: c :: rest) = Some (SSlice a b c) /\
  sel_of_args [] = None.
Proof. exact args_forms. Qed.
Print Assumptions C02_slice_dim_forms.

(* ---- non-vacuity ---------------------------------------------------------------------------- *)

(* a selection that moves cells: negative int, reversed strided slice, list with a repeat *)
Example C02_slice_var_inhabited :
  resolve 2 (SInt (-1)) = Some (RInt 1) /\
  resolve 3 (SSlice None None (Some (-2)%Z)) = Some (RSlice [2; 0]) /\
  resolve 4 (SList [0%Z; (-1)%Z; 0%Z]) = Some (RList [0; 3; 0]) /\
  let rs := [RSlice [2; 0]; RInt 1; RList [0; 3; 0]] in
  rs_ok [3; 2; 4] rs = true /\ spec_shape rs = [2; 1; 3] /\
  oslice [3; 2; 4] rs (seq 0 24) = [20; 23; 20; 4; 7; 4].
Proof. vm_compute. repeat split; reflexivity. Qed.

(* the former defect witness (int and list separated by a sliced axis), now inside the theorem:
   sliceDimensions(t=1, x=[0,2]) on (2,3,4) through the whole-file model *)
Example C02_file_repaired_witness :
  let f := File [2; 3; 4] [Var [0; 1; 2] (seq 0 24)] in
  let kws := [(0, SInt 1); (2, SList [0%Z; 2%Z])] in
  impl_slice_file f kws = spec_slice_file f kws /\
  impl_slice_file f kws = Some (File [1; 3; 2] [Var [0; 1; 2] [12; 14; 16; 18; 20; 22]]).
Proof. vm_compute. split; reflexivity. Qed.

(* zipped lists with int selectors before them and a sliced axis after (former transposition
   / AxisError witnesses) *)
(* empty zipped lists (former IndexError witness) through the whole-file model *)
Example C02_file_empty_lists :
  impl_slice_file (File [2; 3] [Var [0; 1] (seq 0 6)]) [(0, SList []); (1, SList [])]
  = Some (File [0; 0; 0] [Var [2] []]).
Proof. vm_compute. reflexivity. Qed.

Example C02_slice_dim_single_inhabited :
  sel_of_args [Some (-1)%Z] = Some (SSlice (Some (-1)%Z) None None) /\
  resolve 4 (SSlice (Some (-1)%Z) None None) = Some (RSlice [3]) /\
  sel_of_args [Some 2%Z] = Some (SSlice (Some 2%Z) (Some 3%Z) None).
Proof. vm_compute. repeat split; reflexivity. Qed.

Example C02_zip_inhabited :
  let rs := [RInt 0; RInt 0; RList [0; 1]; RList [0; 1]; full_sel 2] in
  rs_ok [2; 2; 2; 2; 2] rs = true /\ lists_len 2 rs = true /\ has_list rs = true /\
  zip_shape 2 rs = [1; 1; 2; 2] /\ zslice 2 [2; 2; 2; 2; 2] rs (seq 0 32) = [0; 1; 6; 7] /\
  impl_zip_var 2 [2; 3; 4; 2] [RInt 0; RInt 0; RList [0; 1]; RList [0; 1]] (seq 0 48) [1; 1; 2]
  = Some [0; 3].
Proof. vm_compute. repeat split; reflexivity. Qed.
