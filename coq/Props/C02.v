(* C02 — dimension slicing selects exactly the requested hyperslab.
   Property statements only; every proof is `exact <lemma>` or a vm_compute witness.
   Model: Model/Slice.v over Base/ArrFlat.v (flat C-order arrays, abstract cells: a mask is part of
   the cell, so "masks carried over" is the statement at A := value * masked). *)
From PNC Require Import Base.Util Base.ArrFlat Model.Slice Proofs.ArrFlatProofs Proofs.SliceProofs.

(* ---- selector normalisation (Python ints / slices / lists -> source indices) ------------- *)

(* every selector that the model resolves (negative ints wrapped once, slices with any
   start/stop/step incl. None, negative, oversized, empty, reversed; lists with repeats)
   only names source indices inside the axis *)
Theorem C02_selectors_in_range : forall n s r, resolve n s = Some r -> rsel_ok n r = true.
Proof. exact resolve_ok. Qed.
Print Assumptions C02_selectors_in_range.

Theorem C02_slice_indices_in_range : forall n a b c l,
  slice_indices n a b c = Some l -> Forall (fun i => i < n) l.
Proof. exact slice_indices_range. Qed.
Print Assumptions C02_slice_indices_in_range.

(* ---- what the specification means ---------------------------------------------------------- *)

(* the orthogonal selection lists, in C order of the per-axis index lists, exactly the cells at
   the selected index tuples (all ranks, all shapes, all selectors) *)
Theorem C02_spec_elements : forall (A : Type) sh rs (d : list A),
  length rs = length sh ->
  oslice sh rs d = flat_map (fun idx => oslice sh (map RInt idx) d) (cart (map rindices rs)).
Proof. intros A. exact oslice_cart. Qed.
Print Assumptions C02_spec_elements.

Theorem C02_spec_single_cell : forall (A : Type) sh idx (d : list A) x,
  rs_ok sh (map RInt idx) = true -> length d = prodn sh ->
  oslice sh (map RInt idx) d = [nth (ravel sh idx) d x] /\ ravel sh idx < prodn sh.
Proof. intros A. exact oslice_point. Qed.
Print Assumptions C02_spec_single_cell.

(* result size = product of per-axis counts; an int selector counts 1 (kept as a length-1 axis) *)
Theorem C02_spec_shape : forall (A : Type) sh rs (d : list A),
  rs_ok sh rs = true -> length d = prodn sh ->
  length (oslice sh rs d) = prodn (spec_shape rs) /\ length (spec_shape rs) = length sh.
Proof. intros A sh rs d H1 H2. split; [exact (oslice_length sh rs d H1 H2)|exact (spec_shape_length sh rs H1)]. Qed.
Print Assumptions C02_spec_shape.

(* a variable none of whose dimensions is selected is returned unchanged *)
Theorem C02_unselected_variable_identical : forall (A : Type) sh (d : list A),
  length d = prodn sh -> oslice sh (map full_sel sh) d = d.
Proof. intros A. exact oslice_full. Qed.
Print Assumptions C02_unselected_variable_identical.

(* ---- what the code does ------------------------------------------------------------------- *)

(* the broadcast-or-reshape assignment never moves a cell when source and target sizes agree *)
Theorem C02_assignment_keeps_cell_order : forall (A : Type) tsh ssh (d : list A),
  length d = prodn ssh -> prodn ssh = prodn tsh -> assign tsh ssh d = Some d.
Proof. intros A. exact assign_same_cells. Qed.
Print Assumptions C02_assignment_keeps_cell_order.

(* PARTIAL: for every rank, shape, cell type and in-range selector tuple with at most one list
   whose "advanced" indices (ints + list) are not separated by a sliced/unselected axis — in
   particular every int/slice-only selection and every selection with a list and no int — the code
   path (numpy index, pre-shaped target, broadcast or reshape) is the orthogonal selection.
   Missing: the complement, where it is false (next theorem). *)
Theorem C02_slice_var_partial : forall (A : Type) sh rs (d : list A),
  rs_ok sh rs = true -> length d = prodn sh -> dom_var rs = true ->
  impl_slice_var sh rs d (spec_shape rs) = Some (oslice sh rs d).
Proof. intros A. exact slice_var_partial. Qed.
Print Assumptions C02_slice_var_partial.

(* FULL statement (no dom_var hypothesis) is FALSE of the faithful model:
   sliceDimensions(t=1, x=[0,2]) on a (t,y,x) = (2,3,4) variable. *)
Theorem C02_slice_var_refuted : exists sh rs (d : list nat),
  rs_ok sh rs = true /\ length d = prodn sh /\
  exists r, impl_slice_var sh rs d (spec_shape rs) = Some r /\ r <> oslice sh rs d
            /\ length r = length (oslice sh rs d).
Proof.
  exists [2; 3; 4], [RInt 1; full_sel 3; RList [0; 2]], (seq 0 24).
  split; [reflexivity|split; [reflexivity|]].
  exists [12; 16; 20; 14; 18; 22]. vm_compute. repeat split; try reflexivity; discriminate.
Qed.
Print Assumptions C02_slice_var_refuted.

(* PARTIAL: >= 2 equal-length lists on one variable, the first of them on the variable's first
   axis, no int selector on the variable, no masked cell in it: the point loop equals the pointwise
   selection along a new leading axis.
   UNPROVED (believed true, proof not closed in the time available; correspondence agrees on every
   generated case): the same for a first list at ANY axis —
     forall P sh rs d, rs_ok sh rs = true -> length d = prodn sh -> lists_len P rs = true ->
       dom_zip rs = true -> (forall x, In x d -> um x = x /\ um0 x = x) ->
       impl_zip_var um um0 P sh rs d (zip_shape P rs) = Some (zslice P sh rs d). *)
Theorem C02_zip_var_partial : forall (A : Type) (um um0 : A -> A) P n sh l rs (d : list A),
  rs_ok (n :: sh) (RList l :: rs) = true -> length d = prodn (n :: sh) ->
  lists_len P (RList l :: rs) = true -> dom_zip (RList l :: rs) = true ->
  (forall x, In x d -> um x = x /\ um0 x = x) ->
  impl_zip_var um um0 P (n :: sh) (RList l :: rs) d (zip_shape P (RList l :: rs))
  = Some (zslice P (n :: sh) (RList l :: rs) d).
Proof. intros A. exact zip_var_axis0. Qed.
Print Assumptions C02_zip_var_partial.

(* with an int selector next to the lists the point loop puts the new axis in the wrong place:
   sliceDimensions(a=0, b=0, c=[0,1], d=[0,1]) on a (2,2,2,2,2) variable — transposed cells *)
Theorem C02_zip_var_refuted : exists sh rs (d : list nat),
  rs_ok sh rs = true /\ length d = prodn sh /\ lists_len 2 rs = true /\
  exists r, impl_zip_var (fun x => x) (fun x => x) 2 sh rs d (zip_shape 2 rs) = Some r
            /\ r <> zslice 2 sh rs d.
Proof.
  exists [2; 2; 2; 2; 2], [RInt 0; RInt 0; RList [0; 1]; RList [0; 1]; full_sel 2], (seq 0 32).
  split; [reflexivity|split; [reflexivity|split; [reflexivity|]]].
  exists [0; 6; 1; 7]. vm_compute. split; [reflexivity|discriminate].
Qed.
Print Assumptions C02_zip_var_refuted.

(* ... or fails outright: sliceDimensions(a=0, b=0, c=[0,1], d=[0,1]) on a 4-d variable raises
   (np.expand_dims axis out of bounds) although the selection is well defined *)
Theorem C02_zip_axis_error_refuted : exists sh rs (d : list nat),
  rs_ok sh rs = true /\ length d = prodn sh /\ lists_len 2 rs = true /\
  impl_zip_var (fun x => x) (fun x => x) 2 sh rs d (zip_shape 2 rs) = None.
Proof.
  exists [2; 3; 4; 2], [RInt 0; RInt 0; RList [0; 1]; RList [0; 1]], (seq 0 48).
  vm_compute. repeat split; reflexivity.
Qed.
Print Assumptions C02_zip_axis_error_refuted.

(* masks are NOT carried over by the point loop (np.concatenate instead of np.ma.concatenate):
   cells are (value, masked); sliceDimensions(x=[2,0], z=[0,0]) on a masked (3,3) variable *)
Theorem C02_zip_mask_refuted : exists sh rs (d : list (nat * bool)),
  rs_ok sh rs = true /\ length d = prodn sh /\ lists_len 2 rs = true /\ dom_zip rs = true /\
  exists r, impl_zip_var (fun c => (fst c, false)) (fun c => if snd c then (0, false) else c)
                         2 sh rs d (zip_shape 2 rs) = Some r
            /\ r <> zslice 2 sh rs d.
Proof.
  exists [3; 3], [RList [2; 0]; RList [0; 0]],
         [(10, true); (11, false); (12, false); (13, false); (14, false); (15, false);
          (16, false); (17, false); (18, false)].
  split; [reflexivity|split; [reflexivity|split; [reflexivity|split; [reflexivity|]]]].
  exists [(16, false); (0, false)]. vm_compute. split; [reflexivity|discriminate].
Qed.
Print Assumptions C02_zip_mask_refuted.

(* whole-file level: the same defect seen through the file model that the correspondence runs *)
Theorem C02_file_refuted : exists (f : file nat) kws,
  impl_slice_file (fun x => x) (fun x => x) f kws <> spec_slice_file f kws
  /\ spec_slice_file f kws <> None /\ impl_slice_file (fun x => x) (fun x => x) f kws <> None.
Proof.
  exists (File [2; 3; 4] [Var [0; 1; 2] (seq 0 24)]), [(0, SInt 1); (2, SList [0%Z; 2%Z])].
  vm_compute. repeat split; discriminate.
Qed.
Print Assumptions C02_file_refuted.

(* ---- non-vacuity ---------------------------------------------------------------------------- *)

(* the hypotheses of C02_slice_var_partial are met by a selection that moves cells: negative int,
   reversed strided slice, list with a repeat — and the result is not the input *)
Example C02_partial_inhabited :
  resolve 2 (SInt (-1)) = Some (RInt 1) /\
  resolve 3 (SSlice None None (Some (-2)%Z)) = Some (RSlice [2; 0]) /\
  resolve 4 (SList [0%Z; (-1)%Z; 0%Z]) = Some (RList [0; 3; 0]) /\
  let rs := [RSlice [2; 0]; RInt 1; RList [0; 3; 0]] in
  rs_ok [3; 2; 4] rs = true /\ dom_var rs = true /\ spec_shape rs = [2; 1; 3] /\
  oslice [3; 2; 4] rs (seq 0 24) = [20; 23; 20; 4; 7; 4].
Proof. vm_compute. repeat split; reflexivity. Qed.

Example C02_zip_partial_inhabited :
  let rs := [RList [2; 0]; full_sel 2; RList [1; 1]] in
  rs_ok [3; 2; 2] rs = true /\ lists_len 2 rs = true /\ dom_zip rs = true /\
  zip_shape 2 rs = [2; 2] /\ zslice 2 [3; 2; 2] rs (seq 0 12) = [9; 11; 1; 3].
Proof. vm_compute. repeat split; reflexivity. Qed.
