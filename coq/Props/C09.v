(* C09 — binary files conform to the published layout; independent reference codec.
   Statements only. Models: Base/Words.v (Fortran record framing), Model/Uamiv.v (UAM-IV layout,
   spec codec `enc`/`dec`, and the library's stride-based Memmap reader model `mm_read` built on the
   definitions translated from the source into Gen/Camx.v). *)
From PNC Require Import Base.Util Base.Words Gen.Camx Model.Uamiv Model.CamxMet Proofs.WordsProofs Proofs.UamivProofs Proofs.CamxMetProofs.
From Coq Require Import String.
Import Coq.Lists.List. Import ListNotations.
Local Open Scope Z_scope.

(* The reference decoder inverts the reference encoder on EVERY list of records. *)
Theorem C09_decoder_inverts_encoder : forall rs, unframe_all (frame rs) = Some rs.
Proof. exact unframe_all_frame. Qed.
Print Assumptions C09_decoder_inverts_encoder.

(* Whatever the reference decoder accepts IS a gap-free tiling by records whose leading and trailing
   markers agree and equal the payload byte count (frame is exactly that by definition). *)
Theorem C09_accepts_only_exact_tilings : forall fuel ws rs, unframe fuel ws = Some rs -> ws = frame rs.
Proof. exact unframe_sound. Qed.
Print Assumptions C09_accepts_only_exact_tilings.

(* UAM-IV: the record-walking spec decoder recovers exactly the content (names, times, header
   counts, every value) from the spec encoding, for every well-formed content of any size. *)
Theorem C09_uamiv_dec_enc : forall u, wf u = true -> dec (enc u) = Some u.
Proof. exact dec_enc. Qed.
Print Assumptions C09_uamiv_dec_enc.

(* Conversely the library's memory-mapped reader (model assembled from the TRANSLATED dtype literals and
   block-size expressions of uamiv/Memmap.py) presents exactly the encoded content of every
   well-formed reference-encoded file. *)
Theorem C09_uamiv_reader_presents_content : forall u, wf u = true -> u_steps u <> [] ->
  mm_read (enc u) (4 * Z.of_nat (length (enc u))) = Ok (view_of u).
Proof. exact mm_read_enc. Qed.
Print Assumptions C09_uamiv_reader_presents_content.

(* Translation validation: the writer's structured dtypes mirror the reader's, field by field, and the
   pads written equal itemsize - 8 (re-checked against the source text on every run). *)
Theorem C09_writer_layout_mirrors_reader :
  map (fun f => (snd (fst f), snd f)) uw_emiss_hdr_fmt = map (fun f => (snd (fst f), snd f)) um_emiss_hdr_fmt /\
  map (fun f => (snd (fst f), snd f)) uw_grid_hdr_fmt = map (fun f => (snd (fst f), snd f)) um_grid_hdr_fmt /\
  map (fun f => (snd (fst f), snd f)) uw_cell_hdr_fmt = map (fun f => (snd (fst f), snd f)) um_cell_hdr_fmt /\
  map (fun f => (snd (fst f), snd f)) uw_time_hdr_fmt = map (fun f => (snd (fst f), snd f)) um_time_hdr_fmt /\
  uw_spc_fmt = um_spc_fmt /\ uw_time_pad = dtype_itemsize uw_time_hdr_fmt - 8.
Proof. exact layout_writer_mirrors_reader. Qed.
Print Assumptions C09_writer_layout_mirrors_reader.

Theorem C09_layer_record_layout : forall nx ny,
  woff (um_spc_1_lay_fmt ny nx) "DATA" = 12 /\
  dtype_itemsize (um_spc_1_lay_fmt ny nx) = 4 * um_spc_1_lay_block_size nx ny /\
  uw_buf (nx * ny) = 4 * um_spc_1_lay_block_size nx ny - 8.
Proof. exact lay_layout. Qed.
Print Assumptions C09_layer_record_layout.

(* Meteorological and boundary writers: every pad expression in temperature/one3d/height_pressure/wind/
   lateral_boundary Write.py (translated from the source) is the Fortran marker of the record the format
   prescribes, for all grid sizes — so leading and trailing markers agree with the payload written. *)
Theorem C09_met_writer_pads :
  (forall nr nc t d data, Z.of_nat (length data) = nr * nc -> tw_nelem nr nc = marker (met_rec t d data)) /\
  (forall n t d data, Z.of_nat (length data) = n -> ow_buf n = marker (met_rec t d data)) /\
  (forall n t d data, Z.of_nat (length data) = n -> hw_buf n = marker (met_rec t d data)) /\
  (forall t d l, ww_buf_hdr = marker (wind_hdr_rec t d l)) /\
  (forall n data, Z.of_nat (length data) = n -> ww_buf_data n = marker data) /\
  (forall nb ie cells, Z.of_nat (length cells) = 4 * nb -> lw_buf_edge nb = marker (lb_edge_rec ie nb cells)) /\
  (forall n name ie data, length name = 10%nat -> Z.of_nat (length data) = n ->
                          lw_buf_data n = marker (lb_data_rec name ie data)).
Proof. exact met_pads. Qed.
Print Assumptions C09_met_writer_pads.

(* Non-vacuity: a concrete well-formed two-step, two-species, two-layer file *)
Definition C09_example : uamiv :=
  {| u_name := repeat 65 10; u_note := repeat 66 60; u_itzon := 0; u_dates := [2001; 0; 2001; 2];
     u_gpre := repeat 7 7; u_nx := 2; u_ny := 1; u_nz := 2; u_gpost := repeat 5 5;
     u_spc := [repeat 80 10; repeat 81 10];
     u_steps := [([2001; 0; 2001; 1], [[[11; 12]; [13; 14]]; [[21; 22]; [23; 24]]]);
                 ([2001; 1; 2001; 2], [[[31; 32]; [33; 34]]; [[41; 42]; [43; 44]]])] |}.
Example C09_hyp_inhabited : wf C09_example = true /\ u_steps C09_example <> [] /\ length (enc C09_example) = 255%nat.
Proof. vm_compute. repeat split; try reflexivity. discriminate. Qed.

(* ======================================================================================================
   CAMx LATERAL BOUNDARY files (Model/Lbdy.v; reader model assembled from the TRANSLATED dtype literals and
   block-size expressions of camxfiles/lateral_boundary/Memmap.py, Gen/Camx.v lm_ definitions)
   ====================================================================================================== *)
From PNC Require Import Model.Lbdy Proofs.LbdyProofs.

(* the record-walking spec decoder recovers exactly the content (header fields, species names, the four
   edge-definition records, every time header and every boundary value) from the spec encoding *)
Theorem C09_lbdy_dec_enc : forall l, lb_wf l = true -> lb_dec (lb_enc l) = Some l.
Proof. exact lb_dec_enc. Qed.
Print Assumptions C09_lbdy_dec_enc.

(* the library's stride-based Memmap reader model presents exactly the encoded content of every well-formed
   reference-encoded lateral-boundary file *)
Theorem C09_lbdy_reader_presents_content : forall l, lb_wf l = true -> l_steps l <> [] ->
  lb_mm_read (lb_enc l) (4 * Z.of_nat (length (lb_enc l))) = Ok (lb_view_of l).
Proof. exact lb_mm_read_enc. Qed.
Print Assumptions C09_lbdy_reader_presents_content.

(* translation validation, lateral_boundary/Write.py against Memmap.py: the writer's header dtypes mirror the
   reader's field by field, and every pad it writes (time record, species record, edge-definition record, data
   record) is itemsize - 8 of the reader's dtype for that record, for all grid sizes *)
Theorem C09_lbdy_writer_layout_mirrors_reader :
  map (fun f => (snd (fst f), snd f)) lw_emiss_hdr_fmt = map (fun f => (snd (fst f), snd f)) lm_emiss_hdr_fmt /\
  map (fun f => (snd (fst f), snd f)) lw_grid_hdr_fmt = map (fun f => (snd (fst f), snd f)) lm_grid_hdr_fmt /\
  map (fun f => (snd (fst f), snd f)) lw_cell_hdr_fmt = map (fun f => (snd (fst f), snd f)) lm_cell_hdr_fmt /\
  map (fun f => (snd (fst f), snd f)) lw_time_hdr_fmt = map (fun f => (snd (fst f), snd f)) lm_date_time_fmt /\
  lw_spc_fmt = lm_spc_fmt /\ lw_time_pad = dtype_itemsize lw_time_hdr_fmt - 8 /\
  (forall nspec, lw_spc_pad nspec = nspec * dtype_itemsize lm_spc_fmt) /\
  (forall b, lw_buf_edge b = dtype_itemsize (lm_bound_fmt b) - 8) /\
  (forall n m, lw_buf_data (n * m) = dtype_itemsize (lm_spc_we_fmt n m) - 8) /\
  (forall n m, lw_buf_data (n * m) = dtype_itemsize (lm_spc_sn_fmt n m) - 8).
Proof. exact lb_layout_writer_mirrors_reader. Qed.
Print Assumptions C09_lbdy_writer_layout_mirrors_reader.

(* Non-vacuity: a concrete well-formed two-step, two-species file on a 3x2 grid with 2 layers *)
Definition C09_lbdy_example : lbdy :=
  {| l_name := repeat 65 10; l_note := repeat 66 60; l_itzon := 0; l_dates := [2001; 0; 2001; 2];
     l_gpre := repeat 7 7; l_nx := 3; l_ny := 2; l_nz := 2; l_gpost := [2; 0; 5; 5; 0];
     l_spc := [repeat 80 10; repeat 81 10];
     l_edges := std_edges 3 2;
     l_steps := [([2001; 0; 2001; 1], [Quad [1;2;3;4] [5;6;7;8] [9;10;11;12;13;14] [15;16;17;18;19;20];
                                       Quad [21;22;23;24] [25;26;27;28] [29;30;31;32;33;34] [35;36;37;38;39;40]]);
                 ([2001; 1; 2001; 2], [Quad [41;42;43;44] [45;46;47;48] [49;50;51;52;53;54] [55;56;57;58;59;60];
                                       Quad [61;62;63;64] [65;66;67;68] [69;70;71;72;73;74] [75;76;77;78;79;80]])] |}.
Example C09_lbdy_hyp_inhabited :
  lb_wf C09_lbdy_example = true /\ l_steps C09_lbdy_example <> [] /\ length (lb_enc C09_lbdy_example) = 499%nat.
Proof. vm_compute. repeat split; try reflexivity. discriminate. Qed.

(* ======================================================================================================
   CAMx one3d family (one3d / humidity / vertical_diffusivity), Model/One3d.v: reader model from
   camxfiles/one3d/Memmap.py with the TRANSLATED record_items and time_steps expressions (the om_ definitions of Gen/Camx.v)
   ====================================================================================================== *)
From PNC Require Import Model.One3d Proofs.One3dProofs.

(* the record-walking spec decoder (given the grid and the layer count, which the format does not store) recovers
   exactly the content from the spec encoding *)
Theorem C09_one3d_dec_enc : forall c, o_wf c = true -> o_dec (o_nx c) (o_ny c) (o_nz c) (o_enc c) = Some c.
Proof. exact o_dec_enc. Qed.
Print Assumptions C09_one3d_dec_enc.

(* the library's Memmap reader model presents exactly the encoded content of every well-formed file with at
   least two steps whose second time stamp differs from the first *)
Theorem C09_one3d_reader_presents_content : forall c, o_wf c = true -> o_readable c = true ->
  o_mm_read (o_ny c) (o_nx c) (o_enc c) (4 * Z.of_nat (length (o_enc c))) = Ok (o_view_of c).
Proof. exact o_mm_read_enc. Qed.
Print Assumptions C09_one3d_reader_presents_content.

(* exact characterisation on valid files (the time stamp changes from every step to the next): the reader
   succeeds, and then presents the content, if and only if the file has at least two steps *)
Theorem C09_one3d_reader_whole_file_exact : forall c, o_wf c = true -> o_distinct c = true ->
  o_mm_read (o_ny c) (o_nx c) (o_enc c) (4 * Z.of_nat (length (o_enc c)))
  = if (2 <=? length (o_steps c))%nat then Ok (o_view_of c) else Err.
Proof. exact o_whole_file_exact. Qed.
Print Assumptions C09_one3d_reader_whole_file_exact.

(* more generally a file whose time stamp never changes (every single-step file) makes the reader raise at
   every size: `where(time_date != time_date[0])[0][0]` has nothing to return *)
Theorem C09_one3d_unchanged_stamp_raises : forall c size st, o_wf c = true ->
  Forall (fun s => os_stamp s = st) (o_steps c) -> 0 <= size <= 4 * Z.of_nat (length (o_enc c)) ->
  o_mm_read (o_ny c) (o_nx c) (o_enc c) size = Err.
Proof. exact o_mm_read_same_stamp. Qed.
Print Assumptions C09_one3d_unchanged_stamp_raises.

(* "every reference-encoded file is read as its content" is therefore refuted for the faithful model: a valid
   single-step vertical-diffusivity file (2x1 grid, 2 layers) cannot be opened.
   Replays on the library: known finding C09-met-single-step / C08-met-single-step (region 11). *)
Definition C09_one3d_single : one3d :=
  {| o_nx := 2; o_ny := 1; o_nz := 2;
     o_steps := [OStep 0 4001 [[1065353216; 1073741824]; [1077936128; 1082130432]]] |}.
Theorem C09_one3d_single_step_refuted :
  exists c, o_wf c = true /\ o_distinct c = true /\ length (o_steps c) = 1%nat /\
            o_mm_read (o_ny c) (o_nx c) (o_enc c) (4 * Z.of_nat (length (o_enc c))) = Err.
Proof. exists C09_one3d_single. vm_compute. repeat split; reflexivity. Qed.
Print Assumptions C09_one3d_single_step_refuted.

Definition C09_one3d_example : one3d :=
  {| o_nx := 2; o_ny := 1; o_nz := 2;
     o_steps := [OStep 1120403456 4001 [[11; 12]; [13; 14]]; OStep 1128792064 4001 [[21; 22]; [23; 24]];
                 OStep 1133903872 4001 [[31; 32]; [33; 34]]] |}.
Example C09_one3d_hyp_inhabited :
  o_wf C09_one3d_example = true /\ o_readable C09_one3d_example = true /\ o_distinct C09_one3d_example = true
  /\ length (o_enc C09_one3d_example) = 36%nat.
Proof. vm_compute. repeat split; reflexivity. Qed.

(* ======================================================================================================
   CAMx TEMPERATURE and HEIGHT/PRESSURE files, Model/TempHp.v (reader models hand-modelled from
   camxfiles/temperature/Memmap.py and camxfiles/height_pressure/Memmap.py)
   ====================================================================================================== *)
From PNC Require Import Model.TempHp Proofs.TempHpProofs.

Theorem C09_temperature_dec_enc : forall c, t_wf c = true -> t_dec (t_nx c) (t_ny c) (t_nz c) (t_enc c) = Some c.
Proof. exact t_dec_enc. Qed.
Print Assumptions C09_temperature_dec_enc.

Theorem C09_heightpres_dec_enc : forall c, h_wf c = true -> h_dec (h_nx c) (h_ny c) (h_nz c) (h_enc c) = Some c.
Proof. exact h_dec_enc. Qed.
Print Assumptions C09_heightpres_dec_enc.

(* the Memmap reader models present exactly the encoded content of every well-formed file with two or more steps
   whose second time stamp differs from the first *)
Theorem C09_temperature_reader_presents_content : forall c, t_wf c = true -> t_readable c = true ->
  t_mm_read (t_ny c) (t_nx c) (t_enc c) (4 * Z.of_nat (length (t_enc c))) = Ok (t_view_of c).
Proof. exact t_mm_read_enc. Qed.
Print Assumptions C09_temperature_reader_presents_content.

Theorem C09_heightpres_reader_presents_content : forall c, h_wf c = true -> h_readable c = true ->
  h_mm_read (h_ny c) (h_nx c) (h_enc c) (4 * Z.of_nat (length (h_enc c))) = Ok (h_view_of c).
Proof. exact h_mm_read_enc. Qed.
Print Assumptions C09_heightpres_reader_presents_content.

(* single-step files (known finding region 11), witnesses replayed on the library: one-step temperature files (3 layers,
   1 layer) and a one-step height_pressure file raise. (Before the repair 9020b2c the 1-layer temperature file opened
   with fabricated dimensions TSTEP = 2, LAY = 0.) *)
Definition C09_temperature_single (nz : nat) : temperature :=
  {| t_nx := 2; t_ny := 1; t_nz := Z.of_nat nz;
     t_steps := [TStep 0 4001 [1065353216; 1073741824] (repeat [1077936128; 1082130432] nz)] |}.
Theorem C09_temperature_single_step_refuted :
  (let c := C09_temperature_single 3 in
   t_wf c = true /\ t_mm_read (t_ny c) (t_nx c) (t_enc c) (4 * Z.of_nat (length (t_enc c))) = Err) /\
  (let c := C09_temperature_single 1 in
   t_wf c = true /\ t_mm_read (t_ny c) (t_nx c) (t_enc c) (4 * Z.of_nat (length (t_enc c))) = Err).
Proof. vm_compute. repeat split; reflexivity. Qed.
Print Assumptions C09_temperature_single_step_refuted.

Theorem C09_heightpres_single_step_refuted :
  exists c, h_wf c = true /\ length (h_steps c) = 1%nat /\
            h_mm_read (h_ny c) (h_nx c) (h_enc c) (4 * Z.of_nat (length (h_enc c))) = Err.
Proof.
  exists {| h_nx := 2; h_ny := 1; h_nz := 2;
            h_steps := [HStep 0 4001 [([1; 2], [3; 4]); ([5; 6], [7; 8])]] |}.
  vm_compute. repeat split; reflexivity.
Qed.
Print Assumptions C09_heightpres_single_step_refuted.

Definition C09_temperature_example : temperature :=
  {| t_nx := 2; t_ny := 1; t_nz := 2;
     t_steps := [TStep 1120403456 4001 [1; 2] [[3; 4]; [5; 6]]; TStep 1128792064 4001 [11; 12] [[13; 14]; [15; 16]];
                 TStep 1133903872 4001 [21; 22] [[23; 24]; [25; 26]]] |}.
Definition C09_heightpres_example : heightpres :=
  {| h_nx := 2; h_ny := 1; h_nz := 2;
     h_steps := [HStep 1120403456 4001 [([1; 2], [3; 4]); ([5; 6], [7; 8])];
                 HStep 1128792064 4001 [([11; 12], [13; 14]); ([15; 16], [17; 18])]] |}.
Example C09_temphp_hyp_inhabited :
  t_wf C09_temperature_example = true /\ t_readable C09_temperature_example = true /\
  h_wf C09_heightpres_example = true /\ h_readable C09_heightpres_example = true /\
  length (t_enc C09_temperature_example) = 54%nat /\ length (h_enc C09_heightpres_example) = 48%nat.
Proof. vm_compute. repeat split; reflexivity. Qed.

(* ======================================================================================================
   CAMx WIND files, Model/Wind.v (reader model hand-modelled from camxfiles/wind/Memmap.py and the RecordFile of
   camxfiles/FortranFileUtil.py that its __init__ walks)
   ====================================================================================================== *)
From PNC Require Import Model.Wind Proofs.WindProofs.

Theorem C09_wind_dec_enc : forall c, w_wf c = true ->
  w_dec (w_nx c) (w_ny c) (w_nz c) (w_stag c) (w_dummy c) (w_enc c) = Some c.
Proof. exact w_dec_enc. Qed.
Print Assumptions C09_wind_dec_enc.

(* the Memmap reader model (as repaired by db74c5b and d3c85b3) presents exactly the encoded content of EVERY well-formed file
   -- one or more steps, ANY number of steps, time record with or without the lstagger word -- on a grid of two or more cells *)
Theorem C09_wind_reader_presents_content : forall c, w_wf c = true -> w_steps c <> [] -> 2 <= w_nx c * w_ny c ->
  w_mm_read (w_ny c) (w_nx c) (w_enc c) (4 * Z.of_nat (length (w_enc c))) = WOk (w_view_of c).
Proof. exact w_mm_read_enc. Qed.
Print Assumptions C09_wind_reader_presents_content.

(* what remains refuted: 1x1 grids, where the U/V records are as long as the dummy record and the layer-counting loop cannot tell
   them apart -- a valid one-step file raises (it never returned before db74c5b), a valid two-step file is presented with a
   wrong layer count or raises. Replays on the library: finding wind-1x1 (region 12). (The five-step 2x1x1 file of the former
   finding wind-long-file-step-miscount is read as its content: corpus case.) *)
Definition C09_wind_long : wind :=
  {| w_nx := 2; w_ny := 1; w_nz := 1; w_stag := Some 0; w_dummy := 0;
     w_steps := map (fun h => WStep h 4001 [([1065353216; 1073741824], [1077936128; 1082130432])]) [0; 1120403456; 1128792064; 1133903872; 1137180672] |}.
Definition C09_wind_1x1 (steps : list word) : wind :=
  {| w_nx := 1; w_ny := 1; w_nz := 2; w_stag := Some 0; w_dummy := 0;
     w_steps := map (fun h => WStep h 4001 [([1065353216], [1077936128]); ([1073741824], [1082130432])]) steps |}.
Theorem C09_wind_1x1_refuted :
  (w_wf (C09_wind_1x1 [0]) = true /\
   w_mm_read 1 1 (w_enc (C09_wind_1x1 [0])) (4 * Z.of_nat (length (w_enc (C09_wind_1x1 [0])))) = WErr) /\
  (w_wf (C09_wind_1x1 [0; 1120403456]) = true /\
   w_mm_read 1 1 (w_enc (C09_wind_1x1 [0; 1120403456])) (4 * Z.of_nat (length (w_enc (C09_wind_1x1 [0; 1120403456]))))
   <> WOk (w_view_of (C09_wind_1x1 [0; 1120403456]))).
Proof. vm_compute. repeat split; try reflexivity. discriminate. Qed.
Print Assumptions C09_wind_1x1_refuted.

Definition C09_wind_example : wind :=
  {| w_nx := 2; w_ny := 1; w_nz := 2; w_stag := Some 1; w_dummy := 0;
     w_steps := [WStep 1120403456 4001 [([1; 2], [3; 4]); ([5; 6], [7; 8])];
                 WStep 1128792064 4001 [([11; 12], [13; 14]); ([15; 16], [17; 18])]] |}.
Example C09_wind_hyp_inhabited :
  w_wf C09_wind_example = true /\ w_steps C09_wind_example <> [] /\ 2 <= w_nx C09_wind_example * w_ny C09_wind_example /\
  length (w_enc C09_wind_example) = 48%nat /\
  w_mm_read 1 2 (w_enc C09_wind_long) (4 * Z.of_nat (length (w_enc C09_wind_long))) = WOk (w_view_of C09_wind_long).
Proof. vm_compute. repeat split; try reflexivity; discriminate. Qed.

(* ======================================================================================================
   CAMx cloud/rain files (Model/CloudRain.v; Memmap reader hand-modelled incl. its size-based layout guess)
   ====================================================================================================== *)
From PNC Require Import Model.CloudRain Proofs.CloudRainProofs.

Theorem C09_cloudrain_dec_enc : forall c, c_wf c = true -> c_dec (c_nvars c) (c_enc c) = Some c.
Proof. exact c_dec_enc. Qed.
Print Assumptions C09_cloudrain_dec_enc.

(* the reader presents the content of every well-formed file whose size is unambiguous: every 5-field file, and every
   3-field file whose data size is not also a whole number of 5-field steps *)
Theorem C09_cloudrain_reader_presents_content : forall c, c_wf c = true -> c_steps c <> [] -> c_unambiguous c = true ->
  cr_mm_read (c_enc c) (4 * Z.of_nat (length (c_enc c))) = Ok (c_view_of c).
Proof. exact cr_reader_presents_content. Qed.
Print Assumptions C09_cloudrain_reader_presents_content.

(* INHERENT: the file does not say which layout it has. A valid 3-field file of 1x2 cells, one layer, three steps has
   3 * 64 = 192 = 2 * 96 data bytes: the reader presents two 5-field steps (time records as data). Replays on the library:
   finding cloud-rain-size-ambiguity (region 21). *)
Definition C09_cloudrain_amb : cloudrain :=
  {| c_desc := [1; 2; 3; 4; 5]; c_nx := 1; c_ny := 2; c_nz := 1; c_nvars := 3;
     c_steps := [CStep 1147207680 99361 [[[11; 12]; [13; 14]; [15; 16]]]; CStep 1148846080 99361 [[[21; 22]; [23; 24]; [25; 26]]];
                 CStep 1149861888 99361 [[[31; 32]; [33; 34]; [35; 36]]]] |}.
Theorem C09_cloudrain_ambiguous_size_refuted :
  c_wf C09_cloudrain_amb = true /\ c_unambiguous C09_cloudrain_amb = false /\
  exists v, cr_mm_read (c_enc C09_cloudrain_amb) (4 * Z.of_nat (length (c_enc C09_cloudrain_amb))) = Ok v /\
            cv_nvars v = 5 /\ cv_ntimes v = 2 /\
            cv_data v = [[[[11; 12]; [13; 14]; [15; 16]; [1148846080; 99361]; [21; 22]]];
                         [[[25; 26]; [1149861888; 99361]; [31; 32]; [33; 34]; [35; 36]]]].
Proof. vm_compute. repeat split. eexists. repeat split. Qed.
Print Assumptions C09_cloudrain_ambiguous_size_refuted.

Definition C09_cloudrain_example : cloudrain :=
  {| c_desc := [1; 2; 3; 4; 5]; c_nx := 2; c_ny := 1; c_nz := 1; c_nvars := 5;
     c_steps := [CStep 1147207680 99361 [[[11; 12]; [13; 14]; [15; 16]; [17; 18]; [19; 20]]];
                 CStep 1148846080 99361 [[[21; 22]; [23; 24]; [25; 26]; [27; 28]; [29; 30]]]] |}.
Example C09_cloudrain_hyp_inhabited :
  c_wf C09_cloudrain_example = true /\ c_steps C09_cloudrain_example <> [] /\ c_unambiguous C09_cloudrain_example = true /\
  length (c_enc C09_cloudrain_example) = 58%nat.
Proof. vm_compute. repeat split; try reflexivity; discriminate. Qed.

(* ======================================================================================================
   CAMx land-use files (Model/Landuse.v; Memmap reader hand-modelled; "the first 8 payload bytes decode as UTF-8"
   is the boolean argument of lu_mm_read)
   ====================================================================================================== *)
From PNC Require Import Model.Landuse Proofs.LanduseProofs.

Theorem C09_landuse_dec_enc : forall c, lu_wf c = true -> lu_dec (lu_rows c) (lu_cols c) (lu_enc c) = Some c.
Proof. exact lu_dec_enc. Qed.
Print Assumptions C09_landuse_dec_enc.

(* old-style and new-style files whose first 8 payload bytes decode (always the case for new-style files: 'LUCAT11 ') and,
   old style, do not read 'LUCAT11 ' / 'LUCAT26 ': the reader presents exactly the content *)
Theorem C09_landuse_reader_presents_content : forall c, lu_wf c = true -> lu_sniff_ok c = true ->
  lu_mm_read true (lu_rows c) (lu_cols c) (lu_enc c) (4 * Z.of_nat (length (lu_enc c))) = Ok (lu_view_of c).
Proof. exact lu_reader_presents_content. Qed.
Print Assumptions C09_landuse_reader_presents_content.

(* the style sniff decodes the first 8 payload bytes as text: on a valid old-style file whose first two values are no UTF-8
   (bit pattern 0x9d000000 = 2634022912) the reader raises instead of presenting the data. Replays on the library:
   finding landuse-sniff-decode (region 16). *)
Definition C09_landuse_old : landuse :=
  {| lu_new := false; lu_nland := 11; lu_rows := 1; lu_cols := 1; lu_fland := [2634022912; 0; 0; 0; 0; 0; 0; 0; 0; 0; 1065353216];
     lu_opts := [(lu_key_TOPO, [1120403456])] |}.
Theorem C09_landuse_undecodable_refuted :
  lu_wf C09_landuse_old = true /\ lu_sniff_ok C09_landuse_old = true /\
  (forall rows cols ws size, lu_mm_read false rows cols ws size = Err) /\
  lu_mm_read false 1 1 (lu_enc C09_landuse_old) (4 * Z.of_nat (length (lu_enc C09_landuse_old))) <> Ok (lu_view_of C09_landuse_old).
Proof. split; [reflexivity|]. split; [reflexivity|]. split; [exact lu_reader_undecodable|]. rewrite lu_reader_undecodable. discriminate. Qed.
Print Assumptions C09_landuse_undecodable_refuted.

Definition C09_landuse_new : landuse :=
  {| lu_new := true; lu_nland := 11; lu_rows := 1; lu_cols := 2; lu_fland := map Z.of_nat (seq 100 22);
     lu_opts := [(lu_key_LAI, [1; 2]); (lu_key_TOPO, [3; 4])] |}.
Example C09_landuse_hyp_inhabited :
  lu_wf C09_landuse_new = true /\ lu_sniff_ok C09_landuse_new = true /\ length (lu_enc C09_landuse_new) = 44%nat.
Proof. vm_compute. repeat split. Qed.
