(* C09 — binary files conform to the published layout; independent reference codec.
   Statements only. Models: Base/Words.v (Fortran record framing), Model/Uamiv.v (UAM-IV layout,
   spec codec `enc`/`dec`, and the library's stride-based Memmap reader model `mm_read` built on the
   definitions translated from the source into Gen/Camx.v). *)
From PNC Require Import Base.Util Base.Words Gen.Camx Model.Uamiv Model.CamxMet Proofs.WordsProofs Proofs.UamivProofs Proofs.CamxMetProofs.
From Coq Require Import String.
Import Coq.Lists.List. Import ListNotations.
Local Open Scope Z_scope.

(* The reference decoder inverts the reference encoder on EVERY list of records. *)
Theorem C09_decoder_inverts_encoder : forall rs, unframe_all (frame rs) = Some rs.
Proof. exact unframe_all_frame. Qed.
Print Assumptions C09_decoder_inverts_encoder.

(* Whatever the reference decoder accepts IS a gap-free tiling by records whose leading and trailing
   markers agree and equal the payload byte count (frame is exactly that by definition). *)
Theorem C09_accepts_only_exact_tilings : forall fuel ws rs, unframe fuel ws = Some rs -> ws = frame rs.
Proof. exact unframe_sound. Qed.
Print Assumptions C09_accepts_only_exact_tilings.

(* UAM-IV: the record-walking spec decoder recovers exactly the content (names, times, header
   counts, every value) from the spec encoding, for every well-formed content of any size. *)
Theorem C09_uamiv_dec_enc : forall u, wf u = true -> dec (enc u) = Some u.
Proof. exact dec_enc. Qed.
Print Assumptions C09_uamiv_dec_enc.

(* Conversely the library's memory-mapped reader (model assembled from the TRANSLATED dtype literals and
   block-size expressions of uamiv/Memmap.py) presents exactly the encoded content of every
   well-formed reference-encoded file. *)
Theorem C09_uamiv_reader_presents_content : forall u, wf u = true -> u_steps u <> [] ->
  mm_read (enc u) (4 * Z.of_nat (length (enc u))) = Ok (view_of u).
Proof. exact mm_read_enc. Qed.
Print Assumptions C09_uamiv_reader_presents_content.

(* Translation validation: the writer's structured dtypes mirror the reader's, field by field, and the
   pads written equal itemsize - 8 (re-checked against the source text on every run). *)
Theorem C09_writer_layout_mirrors_reader :
  map (fun f => (snd (fst f), snd f)) uw_emiss_hdr_fmt = map (fun f => (snd (fst f), snd f)) um_emiss_hdr_fmt /\
  map (fun f => (snd (fst f), snd f)) uw_grid_hdr_fmt = map (fun f => (snd (fst f), snd f)) um_grid_hdr_fmt /\
  map (fun f => (snd (fst f), snd f)) uw_cell_hdr_fmt = map (fun f => (snd (fst f), snd f)) um_cell_hdr_fmt /\
  map (fun f => (snd (fst f), snd f)) uw_time_hdr_fmt = map (fun f => (snd (fst f), snd f)) um_time_hdr_fmt /\
  uw_spc_fmt = um_spc_fmt /\ uw_time_pad = dtype_itemsize uw_time_hdr_fmt - 8.
Proof. exact layout_writer_mirrors_reader. Qed.
Print Assumptions C09_writer_layout_mirrors_reader.

Theorem C09_layer_record_layout : forall nx ny,
  woff (um_spc_1_lay_fmt ny nx) "DATA" = 12 /\
  dtype_itemsize (um_spc_1_lay_fmt ny nx) = 4 * um_spc_1_lay_block_size nx ny /\
  uw_buf (nx * ny) = 4 * um_spc_1_lay_block_size nx ny - 8.
Proof. exact lay_layout. Qed.
Print Assumptions C09_layer_record_layout.

(* Meteorological and boundary writers: every pad expression in temperature/one3d/height_pressure/wind/
   lateral_boundary Write.py (translated from the source) is the Fortran marker of the record the format
   prescribes, for all grid sizes — so leading and trailing markers agree with the payload written. *)
Theorem C09_met_writer_pads :
  (forall nr nc t d data, Z.of_nat (length data) = nr * nc -> tw_nelem nr nc = marker (met_rec t d data)) /\
  (forall n t d data, Z.of_nat (length data) = n -> ow_buf n = marker (met_rec t d data)) /\
  (forall n t d data, Z.of_nat (length data) = n -> hw_buf n = marker (met_rec t d data)) /\
  (forall t d l, ww_buf_hdr = marker (wind_hdr_rec t d l)) /\
  (forall n data, Z.of_nat (length data) = n -> ww_buf_data n = marker data) /\
  (forall nb ie cells, Z.of_nat (length cells) = 4 * nb -> lw_buf_edge nb = marker (lb_edge_rec ie nb cells)) /\
  (forall n name ie data, length name = 10%nat -> Z.of_nat (length data) = n ->
                          lw_buf_data n = marker (lb_data_rec name ie data)).
Proof. exact met_pads. Qed.
Print Assumptions C09_met_writer_pads.

(* Non-vacuity: a concrete well-formed two-step, two-species, two-layer file *)
Definition C09_example : uamiv :=
  {| u_name := repeat 65 10; u_note := repeat 66 60; u_itzon := 0; u_dates := [2001; 0; 2001; 2];
     u_gpre := repeat 7 7; u_nx := 2; u_ny := 1; u_nz := 2; u_gpost := repeat 5 5;
     u_spc := [repeat 80 10; repeat 81 10];
     u_steps := [([2001; 0; 2001; 1], [[[11; 12]; [13; 14]]; [[21; 22]; [23; 24]]]);
                 ([2001; 1; 2001; 2], [[[31; 32]; [33; 34]]; [[41; 42]; [43; 44]]])] |}.
Example C09_hyp_inhabited : wf C09_example = true /\ u_steps C09_example <> [] /\ length (enc C09_example) = 255%nat.
Proof. vm_compute. repeat split; try reflexivity. discriminate. Qed.
