(* C01 — every operation yields a structurally well-formed netCDF-like file.
   Property statements only; every proof is `exact <lemma>` or a vm_compute witness.
   Model: Model/FileStruct.v (structure-level: dimension table, per-variable dimension names /
   shape / attributes; names are numbers: 4='t' 5='y' 6='x' 11='A' 16='N', see harness/props/c01.py).

   wfb f        : every variable's dimension names exist in the file, its shape equals the lengths of
                  those dimensions in order, every listed attribute (variable and file) is retrievable.
   step f o     : what the library does for one public operation (Ok file | Raise).
   run_region   : 0 iff every operation of the run is inside the domain on which well-formedness is proved;
                  1 = eval whose value does not have the shape of the dimensions it inherits (the one remaining defect,
                  C01-eval-shape; eval_fits is exactly the complement: C01_eval_wf_iff).
   The model describes /repo as repaired (11f4939, 36db2af, 4e9c4b6, 063f7d3, 4906cdd): every operation other than eval
   raises or returns a well-formed file without any side condition. *)
From PNC Require Import Base.Util Model.FileStruct Proofs.FileStructProofs.

(* One step of ANY of the 14 operations, from ANY well-formed file (any number/rank of variables, any dimension table):
   if it completes, the result is well-formed; if it does not complete it raised (Raise) — there is no third outcome in the
   model.  PARTIAL: the only side condition (safe_op) concerns eval, and it is exact (C01_eval_wf_iff). *)
Theorem C01_step_wf_partial : forall f o f',
  wfb f = true -> safe_op f o = true -> operands_ok o = true -> step f o = Ok f' -> wfb f' = true.
Proof. exact step_wf. Qed.
Print Assumptions C01_step_wf_partial.

(* FULL strength for the 13 operations other than eval (renameDimensions with ANY pairs, arithmetic with ANY operand,
   reorderDimensions with ANY neworder, ...): raises or well-formed, no side condition *)
Theorem C01_step_wf_all_but_eval : forall f o f',
  wfb f = true -> (match o with OEval _ _ _ => false | _ => true end) = true -> operands_ok o = true ->
  step f o = Ok f' -> wfb f' = true.
Proof. exact step_wf_noeval. Qed.
Print Assumptions C01_step_wf_all_but_eval.

(* eval, characterised EXACTLY: the value is stored with the dimension tuple it inherits (from the first variable operand, or
   from the assigned key if that variable exists) and the result is well-formed IF AND ONLY IF the value's shape equals the
   lengths of those dimensions.  Elementwise expressions on the largest variable fit; reductions, indexing and a smaller first
   operand do not. *)
Theorem C01_eval_wf_iff : forall f key e ca f',
  wfb f = true -> step f (OEval key e ca) = Ok f' -> (wfb f' = true <-> eval_fits f key e ca = true).
Proof. exact eval_wf_iff. Qed.
Print Assumptions C01_eval_wf_iff.

(* COMPLETION clause for applyAlongDimensions, full strength on its documented domain (apply_dom): every named
   dimension exists, every func1d is a total 1-D function (string reducer, array-returning callable, scalar-returning
   callable, dictionary form), and a 1-D variable named like a dimension is as long as it (the library probes the new
   length on that coordinate variable).  From any well-formed file, with any number of dimensions per call, the call
   COMPLETES and the result is well-formed.  (Model of the code as repaired by 4e9c4b6 and
   fixes/C01-apply-scalar-callable.patch; before them the dictionary form and scalar callables on a non-leading axis raised.) *)
Theorem C01_apply_completes : forall f fs,
  wfb f = true -> apply_dom f fs = true -> exists f', step f (OApply fs) = Ok f' /\ wfb f' = true.
Proof. exact apply_completes. Qed.
Print Assumptions C01_apply_completes.

(* Operation sequences of any length (induction over the sequence): the final file is well-formed ... *)
Theorem C01_run_wf_partial : forall ops f f',
  wfb f = true -> run_region f ops = 0 -> forallb operands_ok ops = true -> run f ops = Ok f' -> wfb f' = true.
Proof. exact run_wf. Qed.
Print Assumptions C01_run_wf_partial.

(* ... and so is every intermediate file, also when a later step raises *)
Theorem C01_trace_wf_partial : forall ops f,
  wfb f = true -> run_region f ops = 0 -> forallb operands_ok ops = true -> trace_wfb (trace f ops) = true.
Proof. exact trace_wf. Qed.
Print Assumptions C01_trace_wf_partial.

(* Dimension tables are dictionaries (no repeated keys); every operation, and hence every operation sequence, keeps
   that representation invariant.  It is what the real OrderedDict guarantees by construction. *)
Theorem C01_keys_nodup_invariant : forall ops f f',
  keys_nodup (fdims f) = true -> run f ops = Ok f' -> keys_nodup (fdims f') = true.
Proof. exact run_keys_nodup. Qed.
Print Assumptions C01_keys_nodup_invariant.

(* Surviving dimensions keep their unlimited flag, for ALL 14 operations (across renameDimensions: the dimension
   formerly called d is the one now called rn d), from any file whose dimension table is a dictionary.
   The one remaining side condition is slice_unl_ok: sliceDimensions with several index arrays re-creates the
   dimension named by `newdims` (default POINTS) as an ordinary dimension; if the file already had an UNLIMITED
   dimension of that name, the by-name statement is false (C01_slice_points_refuted below) — the old dimension does
   not survive there, a new one takes its name.  Hence still `_partial`. *)
Theorem C01_step_unlimited_partial : forall f o f',
  keys_nodup (fdims f) = true -> step f o = Ok f' ->
  (match o with OSlice ss => slice_unl_ok f ss | _ => true end) = true ->
  unlim_kept_op o (fdims f) (fdims f') = true.
Proof. exact step_unlimited_all. Qed.
Print Assumptions C01_step_unlimited_partial.

(* repaired renameDimensions: whenever it does not raise, every dimension entry is found under its new name *)
Theorem C01_rename_lookup : forall T prs T2,
  rename_collides T prs = false -> rd_ins T (rd_del T prs) prs = Ok T2 ->
  forall d x, lookup d T = Some x -> lookup (rn prs d) T2 = Some x.
Proof. exact rename_dim_lookup. Qed.
Print Assumptions C01_rename_lookup.

(* ---- witness files ----------------------------------------------------------------------------------- *)
Definition f_tyx : file :=
  File [(4, (2, true)); (5, (3, false)); (6, (4, false))]
       [(11, Var [4; 5; 6] [2; 3; 4] [(0, true)]); (6, Var [6] [4] [(0, true)])] [] [].

(* ---- the FULL statement (no side condition) is false of the faithful model: eval ------------------------------- *)
(* eval('N = A[0]') (same structure as A.mean(0)): the value keeps A's three dimension names but has rank 2 *)
Theorem C01_eval_index_refuted : exists f f',
  wfb f = true /\ step f (OEval 16 (EIndex 11) false) = Ok f' /\ wfb f' = false
  /\ eval_fits f 16 (EIndex 11) false = false.
Proof. exists f_tyx. eexists. vm_compute. repeat split; reflexivity. Qed.
Print Assumptions C01_eval_index_refuted.

(* eval('N = x + A'): shape (2,3,4) with the dimension tuple ('x',) of the first operand *)
Theorem C01_eval_broadcast_refuted : exists f f',
  wfb f = true /\ step f (OEval 16 (EBin 6 11) false) = Ok f' /\ wfb f' = false.
Proof. exists f_tyx. eexists. vm_compute. repeat split; reflexivity. Qed.
Print Assumptions C01_eval_broadcast_refuted.

(* hence the invariant over arbitrary sequences is refuted as well *)
Theorem C01_run_wf_refuted : exists f ops f',
  wfb f = true /\ forallb operands_ok ops = true /\ run f ops = Ok f' /\ wfb f' = false.
Proof. exists f_tyx, [OCopy; OEval 16 (EIndex 11) true]. eexists. vm_compute. repeat split; reflexivity. Qed.
Print Assumptions C01_run_wf_refuted.

(* the side condition of the unlimited-flag theorem is necessary: a file that already has an unlimited dimension called
   POINTS (name 3), sliced with two index arrays *)
Definition f_points : file :=
  File [(3, (2, true)); (5, (3, false)); (6, (4, false))] [(11, Var [3; 5; 6] [2; 3; 4] [(0, true)])] [] [].
Theorem C01_slice_points_refuted : exists f ss f',
  wfb f = true /\ keys_nodup (fdims f) = true /\ step f (OSlice ss) = Ok f' /\ wfb f' = true
  /\ unlim_kept_op (OSlice ss) (fdims f) (fdims f') = false.
Proof. exists f_points, [(5, SList [0; 1]%Z); (6, SList [1; 2]%Z)]. eexists. vm_compute. repeat split; reflexivity. Qed.
Print Assumptions C01_slice_points_refuted.

(* ---- the repaired operations on the former witnesses (evaluation of the model) --------------------------- *)
Definition f_t1 : file := File [(4, (1, true)); (6, (3, false))] [(11, Var [4; 6] [1; 3] [(0, true)])] [] [].
Definition f_t2 : file := File [(4, (2, true)); (6, (3, false))] [(11, Var [4; 6] [2; 3] [(0, true)])] [] [].
Example C01_repaired_witnesses :
  (exists f', step f_tyx (ORenameDim [(6, 5); (5, 6)]) = Ok f' /\ wfb f' = true
              /\ fdims f' = [(4, (2, true)); (5, (4, false)); (6, (3, false))]
              /\ lookup 11 (fvars f') = Some (Var [4; 6; 5] [2; 3; 4] [(0, true)]))     (* swap: lengths swapped with the names *)
  /\ (exists f', step f_tyx (ORenameDim [(6, 6)]) = Ok f' /\ wfb f' = true)            (* self-rename keeps x *)
  /\ step f_tyx (ORenameDim [(6, 5)]) = Raise                                          (* onto an existing name: ValueError *)
  /\ step f_tyx (ORenameDim [(6, 8); (5, 8)]) = Raise                                  (* two dimensions onto one name *)
  /\ step f_t1 (OBinop f_t2) = Raise                                                   (* would broadcast (1,3) to (2,3) *)
  /\ (exists f', step f_t2 (OBinop f_t1) = Ok f' /\ wfb f' = true).                    (* (2,3) op (1,3) keeps (2,3) *)
Proof.
  vm_compute. repeat split; try reflexivity; eexists; repeat split; reflexivity.
Qed.

Example C01_apply_scalar_repaired :
  apply_dom f_tyx [(6, AScalar); (4, ADict)] = true
  /\ exists f', step f_tyx (OApply [(6, AScalar); (4, ADict)]) = Ok f'
               /\ lookup 11 (fvars f') = Some (Var [4; 5; 6] [1; 3; 1] [(0, true)]).     (* x=np.mean, t=dict(func1d=np.diff) *)
Proof. vm_compute. split; [reflexivity|]. eexists. split; reflexivity. Qed.

(* the former witness of the reorder defect: a repeated name in neworder is refused *)
Definition f_syy : file :=
  File [(7, (2, false)); (5, (3, false))] [(14, Var [7; 5; 5] [2; 3; 3] [(0, true)])] [] [].
Example C01_reorder_repeated_repaired :
  wfb f_syy = true /\ step f_syy (OReorder [5; 5; 7]) = Raise /\ step f_syy (OReorder [5; 7]) = Raise
  /\ exists f', step f_tyx (OReorder [6; 4; 5]) = Ok f' /\ lookup 11 (fvars f') = Some (Var [6; 4; 5] [4; 2; 3] [(0, true)]).
Proof. vm_compute. repeat split; try reflexivity. eexists. split; reflexivity. Qed.

(* evals inside the proved domain *)
Example C01_eval_fits_examples :
  eval_fits f_tyx 16 (EBin 11 6) true = true /\ eval_fits f_tyx 16 (EScale 6) false = true
  /\ (exists f', step f_tyx (OEval 16 (EBin 11 6) true) = Ok f'    (* N = A + x *)
                 /\ wfb f' = true /\ lookup 16 (fvars f') = Some (Var [4; 5; 6] [2; 3; 4] [(0, true)])).
Proof. vm_compute. repeat split; try reflexivity. eexists. repeat split; reflexivity. Qed.

(* ---- non-vacuity ------------------------------------------------------------------------------------ *)
(* a six-step run inside the proved domain that really changes the structure: slice with two index arrays
   (creates POINTS), apply a reducer, insert a dimension, rename it to a fresh name, stack with itself, mask *)
Definition ops_ex : list op :=
  [OSlice [(5, SList [0; 2]%Z); (6, SList [1; (-1)]%Z)]; OApply [(4, ANamed)]; OInsert 8 2 true false None None;
   ORenameDim [(8, 9)]; OMask None None false].
Example C01_hyp_inhabited :
  wfb f_tyx = true /\ run_region f_tyx ops_ex = 0 /\ forallb operands_ok ops_ex = true
  /\ exists f', run f_tyx ops_ex = Ok f' /\ fdims f' <> fdims f_tyx
               /\ lookup 11 (fvars f') = Some (Var [9; 4; 3] [2; 1; 2] [(1, true); (0, true)]).
Proof. vm_compute. repeat split; try reflexivity. eexists. repeat split; try reflexivity. discriminate. Qed.
(* the safe domain contains eval and arithmetic steps too *)
Example C01_safe_eval_binop :
  run_region f_tyx [OEval 16 (EBin 11 6) true; OBinop f_tyx] = 0
  /\ exists f', run f_tyx [OEval 16 (EBin 11 6) true; OBinop f_tyx] = Ok f' /\ wfb f' = true.
Proof. vm_compute. split; [reflexivity|]. eexists. split; reflexivity. Qed.
