From PNC Require Import Base.Util Base.Words Gen.Bpch Model.Bpch Proofs.WordsProofs Proofs.BpchProofs.
