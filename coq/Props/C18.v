(* C18 — GEOS-Chem binary punch read/write round trip and scaling.
   Statements only. Models: Base/Words.v (Fortran record framing), Model/Bpch.v (bpch layout: spec codec
   `enc`/`dec`, `view_of`; the library's reader `impl_open` = bpch1.__init__ + variable access built on the
   dtype literals TRANSLATED into Gen/Bpch.v; the writer `impl_write` = ncf2bpch with the translated pads; the
   dict-based table lookup `impl_lookup`).
   Domain `wf T D f` = bpch-convention content: field widths, >= 1 time block, every time block repeats the
   tracers of the first with the same metadata, one model grid per file, one time stamp per time block, no
   tracer twice in a time block, distinct variable names, different time stamps on different time blocks.  `tables_ok T D` = the keys of tracerinfo.dat (tracer
   numbers) and diaginfo.dat (categories) are unique (a table with a repeated key has no defined meaning in the property).
   The model describes the REPAIRED header walk (fixes/C18-one-tracer-two-times.patch: the repeated first tracer is not
   appended a second time when the repetition is also the last header) and warning (fixes/C18-warn-format.patch: more than
   48 layers only warns); the former `_refuted` theorems for these two defects are gone and the three main theorems hold
   without any excluded shape.
   Clause (4): `impl_bpch2` = bpch2.__init__ + variable access as repaired by a06c03f and 78b5b3f (walk over EVERY block
   header, per key the blocks in order of first appearance, FIRST matching table row, bpch1's fallbacks for missing rows);
   `readers_agree` = same variables (ids, names, units, SCALE, dims, nested offsets), time stamps and data. *)
From PNC Require Import Base.Util Base.Words Gen.Bpch Model.Bpch Proofs.WordsProofs Proofs.BpchProofs Proofs.BpchPrefixProofs Proofs.BpchPrefixThm Proofs.Bpch2Proofs.
From Coq Require Import String QArith.
Import Coq.Lists.List. Import ListNotations.
Local Open Scope Z_scope.

(* Spec codec: the record-walking decoder recovers titles and every data block from the spec encoding,
   for every content with the right field widths (any number of time blocks, tracers, layers). *)
Theorem C18_dec_enc : forall f, wf_shape f = true ->
  dec (enc f) = Some (f_ftype f, f_title f, concat (f_times f)).
Proof. exact dec_enc. Qed.
Print Assumptions C18_dec_enc.

(* Clause (2), lookup part: with unique table keys the dict-based lookup of the library uses THE tracerinfo line whose
   number is offset(category) + tracer id (offset 0 when diaginfo has no line for the category): name, SCALE, unit. *)
Theorem C18_scale_lookup : forall T D cat tid u e off,
  tables_ok T D = true -> In e T -> t_ord e = tid + off ->
  (In (cat, off) D \/ (off = 0 /\ forall o, ~ In (cat, o) D)) ->
  impl_lookup T D cat tid u = (TName (t_name e), t_scale e, UTab (t_unit e)).
Proof. exact scale_lookup. Qed.
Print Assumptions C18_scale_lookup.

Theorem C18_lookup_is_association : forall T D cat tid u,
  tables_ok T D = true -> impl_lookup T D cat tid u = spec_lookup T D cat tid u.
Proof. exact impl_lookup_spec. Qed.
Print Assumptions C18_lookup_is_association.

(* Clauses (1)-(3), reader: for EVERY bpch-convention content (any number of time blocks, tracers per block, layers
   per tracer, nested-grid offsets) and all tables with unique keys the reader model presents exactly the content: titles,
   model record, every tracer's ids / unit / reserved / dims / nested-grid offsets, the SCALE and unit of the table entry
   offset(category)+id, the time bounds of every time block and the raw data of every tracer at every time (scaled
   reading multiplies these by v_scale: Corr `scaled_ok`). *)
Theorem C18_reader_presents_content : forall T D f,
  wf T D f = true -> tables_ok T D = true ->
  impl_open T D (enc f) (4 * lenZ (enc f)) = Ok (view_of T D f).
Proof. exact read_enc. Qed.
Print Assumptions C18_reader_presents_content.

(* Clause (1): reading without scaling and writing back reproduces the original words. *)
Theorem C18_read_write_bytes : forall T D f,
  wf T D f = true -> tables_ok T D = true ->
  exists v, impl_open T D (enc f) (4 * lenZ (enc f)) = Ok v /\ impl_write v = enc f.
Proof. exact read_write_bytes. Qed.
Print Assumptions C18_read_write_bytes.

(* The writer alone (no table hypothesis): it produces the spec encoding of every bpch-convention content. *)
Theorem C18_writer_conforms : forall T D f, wf T D f = true -> impl_write (view_of T D f) = enc f.
Proof. exact write_view. Qed.
Print Assumptions C18_writer_conforms.

(* Clause (3): writing any bpch-convention view (its blocks form a wf file and its names/scales/units are those of
   the tables) and reading the result returns the same view: tracer data, time bounds, ids, grid header. *)
Theorem C18_write_read : forall T D v,
  wf T D (file_of v) = true -> tables_ok T D = true ->
  view_of T D (file_of v) = v ->
  impl_write v = enc (file_of v) /\ impl_open T D (impl_write v) (4 * lenZ (impl_write v)) = Ok v.
Proof. exact write_read. Qed.
Print Assumptions C18_write_read.

(* Every byte prefix (C14 names bpch): for EVERY bpch-convention file and EVERY cut point c (bytes; the reader sees the
   whole words of the first c bytes) the reader model either raises, or presents exactly the first k whole time blocks
   (and the cut is at or after the end of the k-th), or - when the cut is exactly at a tracer boundary strictly inside the
   FIRST time block - one time block holding exactly the first j tracers.  Nothing else can be presented: no partial
   block, no value that is not in the full file. *)
Theorem C18_every_prefix : forall T D f c,
  wf T D f = true -> tables_ok T D = true -> 0 <= c <= 4 * lenZ (enc f) ->
  let r := impl_open T D (firstn (Z.to_nat (c / 4)) (enc f)) c in
  r = Err
  \/ (exists k, (1 <= k <= length (f_times f))%nat /\ 136 + 4 * (Z.of_nat k * tb_wordsZ (tb0 f)) <= c
                /\ r = Ok (view_of T D (trunc_times k f)))
  \/ (exists j, (1 <= j < length (tb0 f))%nat /\ c = 136 + 4 * tb_wordsZ (firstn j (tb0 f))
                /\ r = Ok (view_of T D (first_tracers j f))).
Proof. exact prefix_open. Qed.
Print Assumptions C18_every_prefix.

(* Clause (4): for EVERY bpch-convention file and tables with unique keys the block-walking reader (as repaired by
   a06c03f and 78b5b3f: bpch1's fallbacks for categories / tracer numbers that the tables lack) opens the file and presents
   the same variables (ids, names, units, SCALE, dims, nested offsets), time stamps and data as the memory-mapped one.
   No hypothesis beyond the domain: `wf` includes that different time blocks carry different time stamps (the format
   identifies a data block by category, tracer and tau0; bpch2 keys a variable's blocks by (tau0, tau1)). *)
Theorem C18_readers_agree : forall T D f,
  wf T D f = true -> tables_ok T D = true ->
  exists v1 v2, impl_open T D (enc f) (4 * lenZ (enc f)) = Ok v1
                /\ impl_bpch2 T D (enc f) (4 * lenZ (enc f)) = Ok v2
                /\ readers_agree v1 v2.
Proof. exact readers_agree_enc. Qed.
Print Assumptions C18_readers_agree.

(* what bpch2 presents, in closed form (any tables: bpch2 takes the first matching row) *)
Theorem C18_bpch2_presents_content : forall T D f,
  wf T D f = true -> impl_bpch2 T D (enc f) (4 * lenZ (enc f)) = Ok (view2_of T D f).
Proof. exact bpch2_enc. Qed.
Print Assumptions C18_bpch2_presents_content.

(* Translation validation (tie T): reader and writer header layouts agree field by field (the writer's `dim` is
   the reader's f13+f14), pads are the record payload sizes, skip = data bytes + 8. *)
Theorem C18_layouts :
  map (fun f => snd (fst f) * snd f) bw_datablock_header_type
    = [4; 20; 8; 4; 4; 4; 4; 40; 4; 40; 8; 8; 40; 24; 4; 4]
  /\ dtype_itemsize bw_datablock_header_type = dtype_itemsize bp_datablock_header_type
  /\ bw_hpad1 = 4 * 9 /\ bw_hepad1 = bw_hpad1 /\ bw_hpad2 = 4 * 42 /\ bw_hepad2 = bw_hpad2
  /\ bw_gpad1 = 4 * 10 /\ bw_gepad1 = bw_gpad1 /\ bw_gpad2 = 4 * 20 /\ bw_gepad2 = bw_gpad2
  /\ (forall n, bw_skip n = n + 8)
  /\ bp_first_header_size (dtype_itemsize ght) (dtype_itemsize dht) = 356
  /\ bp_walk_start (dtype_itemsize ght) = 136.
Proof. exact writer_layout. Qed.
Print Assumptions C18_layouts.

(* ---- concrete contents used below ------------------------------------------------------------------------ *)
Definition C18_blk (tau0 : Z) (tid nz : Z) (d : list word) : block :=
  {| b_model := [1195724627; 893334327; 1277173792; 538976288; 538976288; 1084227584; 1082130432; 1; 1];
     b_cat := [1229598017; 1447505188; 538976288; 538976288; 538976288; 538976288; 538976288; 538976288; 538976288; 538976288];
     b_tid := tid; b_unit := repeat 538976288 10; b_tau := [tau0; 0; tau0 + 1; 0]; b_resv := repeat 538976288 10;
     b_nx := 1; b_ny := 1; b_nz := nz; b_start := [1; 1; 1]; b_data := d |}.
Definition C18_file (times : list (list block)) : bfile :=
  {| f_ftype := repeat 538976288 10; f_title := repeat 538976288 20; f_times := times |}.

(* ---- non-vacuity ------------------------------------------------------------------------------------------ *)
Definition C18_T : tinfo := [ {| t_ord := 1; t_name := 0; t_scale := 1000000000 # 1; t_unit := 0 |};
                              {| t_ord := 2002; t_name := 1; t_scale := 1 # 8; t_unit := 1 |} ].
Definition C18_D : dinfo := [ (b_cat (C18_blk 0 0 1 []), 0); (repeat 1128808781 10, 2000) ].
Definition C18_blk2 (tau0 : Z) (d : list word) : block :=
  {| b_model := b_model (C18_blk 0 0 1 []); b_cat := repeat 1128808781 10; b_tid := 2; b_unit := repeat 538976288 10;
     b_tau := [tau0; 0; tau0 + 1; 0]; b_resv := repeat 538976288 10; b_nx := 2; b_ny := 1; b_nz := 3;
     b_start := [3; 4; 1]; b_data := d |}.
Definition C18_example : bfile :=
  C18_file [[C18_blk 1083129856 1 1 [1065353216]; C18_blk2 1083129856 [1; 2; 3; 4; 5; 6]];
            [C18_blk 1083129857 1 1 [1073741824]; C18_blk2 1083129857 [7; 8; 9; 10; 11; 12]]].
Example C18_hyp_inhabited :
  wf C18_T C18_D C18_example = true /\ tables_ok C18_T C18_D = true
  /\ length (enc C18_example) = 276%nat
  /\ map v_scale (r_vars (view_of C18_T C18_D C18_example)) = [1000000000 # 1; 1 # 8]
  /\ file_of (view_of C18_T C18_D C18_example) = C18_example
  /\ scaled_ok (1000000000 # 1) 1073741824 1324247848 = true.
Proof. vm_compute. repeat split; reflexivity. Qed.

(* the two shapes that the unrepaired code could not open are inside the domain and are presented correctly:
   one tracer x two time blocks, and a tracer with 49 layers *)
Example C18_formerly_failing_shapes :
  let f1 := C18_file [[C18_blk 1083129856 1 1 [1065353216]]; [C18_blk 1083129857 1 1 [1073741824]]] in
  let f2 := C18_file [[C18_blk 1083129856 1 49 (repeat 1065353216 49)]] in
  wf [] [] f1 = true /\ impl_open [] [] (enc f1) (4 * lenZ (enc f1)) = Ok (view_of [] [] f1)
  /\ wf [] [] f2 = true /\ impl_open [] [] (enc f2) (4 * lenZ (enc f2)) = Ok (view_of [] [] f2).
Proof. vm_compute. repeat split; reflexivity. Qed.

(* The third alternative of C18_every_prefix is real: "an exception or exactly k COMPLETE time blocks" (the C14 wording)
   is false for bpch - a two-tracer file cut after its first data block opens and presents one tracer (a bpch file has
   no tracer count, so such a prefix is itself a well-formed file).  Replays on the library (cut = 368 of 600 bytes). *)
Theorem C18_prefix_whole_time_blocks_only_refuted : exists T D f c,
  wf T D f = true /\ tables_ok T D = true /\ 0 <= c < 4 * lenZ (enc f)
  /\ exists v, impl_open T D (firstn (Z.to_nat (c / 4)) (enc f)) c = Ok v
              /\ length (r_vars v) = 1%nat /\ length (tb0 f) = 2%nat /\ length (f_times f) = 1%nat.
Proof.
  exists [], [], (C18_file [[C18_blk 1083129856 1 1 [1065353216]; C18_blk 1083129856 2 1 [1073741824]]]), 368.
  vm_compute. repeat split; try reflexivity; try discriminate.
  eexists. repeat split; reflexivity.
Qed.
Print Assumptions C18_prefix_whole_time_blocks_only_refuted.

(* non-vacuity of C18_every_prefix: all three alternatives occur on the two-time, two-tracer example (276 words) *)
Example C18_prefix_alternatives :
  impl_open C18_T C18_D (firstn 100 (enc C18_example)) 400 = Err
  /\ impl_open C18_T C18_D (firstn 215 (enc C18_example)) 862 = Ok (view_of C18_T C18_D (trunc_times 1 C18_example))
  /\ impl_open C18_T C18_D (firstn 92 (enc C18_example)) 368 = Ok (view_of C18_T C18_D (first_tracers 1 C18_example)).
Proof. vm_compute. repeat split; reflexivity. Qed.

(* non-vacuity of the agreement theorem: the two-time, two-tracer, two-category example *)
Example C18_agree_inhabited :
  taus_distinct C18_example = true
  /\ (* a file whose category is missing from diaginfo.dat and whose tracer is missing from tracerinfo.dat: both readers fall back alike *)
     impl_bpch2 C18_T [(repeat 1128808781 10, 2000)] (enc (C18_file [[C18_blk 1083129856 5 1 [1065353216]]])) 368
     = Ok (view2_of C18_T [(repeat 1128808781 10, 2000)] (C18_file [[C18_blk 1083129856 5 1 [1065353216]]]))
  /\ map v_name (s_vars (view2_of C18_T [(repeat 1128808781 10, 2000)] (C18_file [[C18_blk 1083129856 5 1 [1065353216]]]))) = [TNum 5]
  /\ s_data (view2_of C18_T C18_D C18_example) = [[[1065353216]; [1073741824]]; [[1; 2; 3; 4; 5; 6]; [7; 8; 9; 10; 11; 12]]].
Proof. vm_compute. repeat split; reflexivity. Qed.
