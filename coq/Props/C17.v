(* C17 — interpolation is linear-exact; conservative regridding conserves column mass.
   Property statements only.  Model: Model/Interp.v (exact integers in a dyadic unit; a weight
   column = numerators w over one positive denominator d, i.e. weights w_i / d).
   impl_weights e xs x = the column of coordutil.getinterpweights(xs, nxs, extrapolate=e) for the
   target point x;  impl_fdp = sigma2coeff times source layer thickness (the floor/ceil loop over
   np.interp'ed edge indices);  impl_conserve = the 'conserve' branch of interpSigma.
   mono xs = strictly ascending or strictly descending; lo_of / hi_of = its smallest / largest end.
   All theorems hold for sources / grids of ANY length >= 2 in BOTH directions and EVERY target;
   a single source level gets weight one (C17_single_level_repaired). *)
From PNC Require Import Base.Util Gen.InterpSrc Model.Interp Proofs.InterpProofs Proofs.SigmaProofs.
Local Open Scope Z_scope.

(* weights sum to one for every target point (inside, outside, extrapolating or clipped), the
   denominator is positive, one weight per source level *)
Theorem C17_weights_partition_of_unity : forall e xs x w d,
  mono xs -> (2 <= length xs)%nat ->
  impl_weights e xs x = Some (w, d) -> sumZ w = d /\ 0 < d /\ length w = length xs.
Proof. exact weights_sum_one_both. Qed.
Print Assumptions C17_weights_partition_of_unity.

(* not extrapolating: no weight is negative, for every target point *)
Theorem C17_weights_nonneg : forall xs x w d,
  mono xs -> (2 <= length xs)%nat ->
  impl_weights false xs x = Some (w, d) -> Forall (fun n => 0 <= n) w.
Proof. exact weights_nonneg_both. Qed.
Print Assumptions C17_weights_nonneg.

(* every linear profile a*x + b is reproduced exactly: sum_i (w_i/d) (a xs_i + b) = a x + b,
   for all x when extrapolating and for x inside the source range otherwise *)
Theorem C17_weights_linear_exact : forall e xs x w d a b,
  mono xs -> (2 <= length xs)%nat ->
  (e = true \/ lo_of xs <= x <= hi_of xs) ->
  impl_weights e xs x = Some (w, d) ->
  dot w (map (fun c => a * c + b) xs) = d * (a * x + b).
Proof. exact weights_linear_exact_both. Qed.
Print Assumptions C17_weights_linear_exact.

(* target coordinate = source coordinate: the k-th column is the k-th unit vector (W = I) *)
Theorem C17_weights_identity : forall e xs k w d,
  mono xs -> (2 <= length xs)%nat -> (k < length xs)%nat ->
  impl_weights e xs (nth k xs 0) = Some (w, d) -> w = unitv k (length xs) d /\ 0 < d.
Proof. exact weights_identity_both. Qed.
Print Assumptions C17_weights_identity.

(* sigma2coeff: the floor/ceil loop over interpolated edge indices yields, for every pair of
   source layer and target layer, exactly (overlap length) / (source thickness) — for ALL
   descending source and target edge lists, sharing ends or not *)
Theorem C17_sigma2coeff_is_overlap : forall fr to,
  desc fr = true -> desc to = true -> impl_fdp fr to = spec_fdp fr to.
Proof. exact impl_fdp_overlap. Qed.
Print Assumptions C17_sigma2coeff_is_overlap.

(* grids sharing top and bottom: every source layer is fully distributed (rows of coeff sum to
   one) and the normaliser of every target layer is its thickness *)
Theorem C17_overlap_marginals : forall fr to,
  desc fr = true -> desc to = true -> (2 <= length fr)%nat -> (2 <= length to)%nat ->
  hd 0 fr = hd 0 to -> last fr 0 = last to 0 ->
  map sumZ (impl_fdp fr to) = thick fr
  /\ colsums (length (thick to)) (impl_fdp fr to) = thick to.
Proof.
  intros fr to Hf Ht Hlf Hlt Hh Hl. rewrite impl_fdp_overlap by auto. split.
  - apply row_sums; auto. destruct to; [cbn in Hlt; lia | congruence].
  - apply col_sums; auto. destruct fr; [cbn in Hlf; lia | congruence].
Qed.
Print Assumptions C17_overlap_marginals.

(* conservative regridding between sigma grids that share top and bottom preserves the
   thickness-weighted column integral, for every field v:  nvals[li] = num[li] / ndp[li] with
   ndp = the (positive) target thicknesses, and sum_li num[li] = sum_lay v[lay] * dp_in[lay],
   i.e. sum_li nvals[li] * dp_out[li] = sum_lay v[lay] * dp_in[lay] *)
Theorem C17_column_mass_conserved : forall fr to v,
  desc fr = true -> desc to = true -> (2 <= length fr)%nat -> (2 <= length to)%nat ->
  hd 0 fr = hd 0 to -> last fr 0 = last to 0 -> length v = length (thick fr) ->
  let r := impl_conserve (impl_fdp fr to) (length (thick to)) v in
  snd r = thick to /\ Forall (fun t => 0 < t) (snd r) /\ sumZ (fst r) = dot v (thick fr).
Proof. exact column_mass. Qed.
Print Assumptions C17_column_mass_conserved.

(* ... and leaves a constant field constant: for ANY coefficient matrix the numerators are c
   times the normaliser, so nvals = c wherever the normaliser is non-zero *)
Theorem C17_constant_preserved : forall c n (fdp : list (list Z)),
  fst (impl_conserve fdp n (repeat c (length fdp))) = map (Z.mul c) (snd (impl_conserve fdp n (repeat c (length fdp)))).
Proof. intros. unfold impl_conserve. cbn [fst snd]. apply colsums_const. Qed.
Print Assumptions C17_constant_preserved.

(* the matrix algebra behind conservation, for any rectangular coefficient matrix *)
Theorem C17_column_mass_algebra : forall n (fdp : list (list Z)) v,
  Forall (fun r => length r = n) fdp -> length v = length fdp ->
  sumZ (fst (impl_conserve fdp n v)) = dot v (map sumZ fdp).
Proof. intros. unfold impl_conserve. cbn [fst]. apply colsums_total; auto. Qed.
Print Assumptions C17_column_mass_algebra.

(* a single source level.  Which of the two behaviours the code has is regenerated from the
   source on every run (Gen/InterpSrc.v, tie T): impl_weights = impl_weights_gen <flag>. *)
Theorem C17_model_follows_source : impl_weights = impl_weights_gen Gen.InterpSrc.single_level_ones.
Proof. reflexivity. Qed.
Print Assumptions C17_model_follows_source.

(* with the guard (commit 2b86c82; without it interp1d gave NaN weights) a single level gets weight one
   for every target: partition of unity, non-negative, identity at the source point, and exact
   for every linear profile at the only point inside the source range *)
Theorem C17_single_level_repaired : forall e x0 x a b,
  impl_weights_gen true e [x0] x = Some ([1], 1)
  /\ sumZ [1] = 1 /\ Forall (fun n => 0 <= n) [1] /\ [1] = unitv 0 1 1
  /\ (x = x0 -> dot [1] (map (fun c => a * c + b) [x0]) = 1 * (a * x + b)).
Proof. exact single_level_guarded. Qed.
Print Assumptions C17_single_level_repaired.

(* ---- non-vacuity ------------------------------------------------------------------------- *)
Example C17_hyp_inhabited :
  asc [1; 2; 4; 8] = true /\ desc [8; 4; 2; 1] = true
  /\ impl_weights false [1; 2; 4; 8] 3 = Some ([0; 1; 1; 0], 2)
  /\ impl_weights false [1; 2; 4; 8] 10 = Some ([0; 0; 0; 6], 6)
  /\ impl_weights true [1; 2; 4; 8] 10 = Some ([0; 0; -2; 6], 4)
  /\ impl_weights false [8; 4; 2; 1] 3 = Some ([0; 1; 1; 0], 2)
  /\ impl_weights true [8; 4; 2; 1] 10 = Some ([6; -2; 0; 0], 4)
  /\ desc [8; 4; 2; 0] = true /\ desc [8; 6; 3; 0] = true
  /\ impl_fdp [8; 4; 2; 0] [8; 6; 3; 0] = [[2; 2; 0]; [0; 1; 1]; [0; 0; 2]]
  /\ spec_fdp [8; 4; 2; 0] [8; 6; 3; 0] = [[2; 2; 0]; [0; 1; 1]; [0; 0; 2]]
  /\ thick [8; 4; 2; 0] = [4; 2; 2] /\ thick [8; 6; 3; 0] = [2; 3; 3]
  /\ impl_conserve [[2; 2; 0]; [0; 1; 1]; [0; 0; 2]] 3 [5; 7; 11] = ([10; 17; 29], [2; 3; 3])
  /\ sumZ [10; 17; 29] = dot [5; 7; 11] [4; 2; 2].
Proof. vm_compute. repeat split; reflexivity. Qed.
