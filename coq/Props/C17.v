(* C17 — interpolation is linear-exact; conservative regridding conserves column mass.
   Property statements only.  Model: Model/Interp.v (exact integers in a dyadic unit; a weight
   column = numerators w over one positive denominator d, i.e. weights w_i / d).
   impl_weights e xs x = the column of coordutil.getinterpweights(xs, nxs, extrapolate=e) for the
   target point x;  impl_fdp / impl_conserve = sigma2coeff times layer thickness and the
   'conserve' branch of interpSigma.
   The weight theorems are proved for ascending sources of ANY length >= 2 and EVERY target
   point; a descending source is sorted first by the model (as scipy does) — that reversal is
   tied by the correspondence only, hence _partial. *)
From PNC Require Import Base.Util Model.Interp Proofs.InterpProofs.
Local Open Scope Z_scope.

(* weights sum to one for every target point (inside, outside, extrapolating or clipped), the
   denominator is positive, one weight per source level *)
Theorem C17_weights_partition_of_unity_partial : forall e xs x w d,
  asc xs = true -> (2 <= length xs)%nat ->
  impl_weights e xs x = Some (w, d) -> sumZ w = d /\ 0 < d /\ length w = length xs.
Proof. exact weights_sum_one. Qed.
Print Assumptions C17_weights_partition_of_unity_partial.

(* not extrapolating: no weight is negative, for every target point *)
Theorem C17_weights_nonneg_partial : forall xs x w d,
  asc xs = true -> (2 <= length xs)%nat ->
  impl_weights false xs x = Some (w, d) -> Forall (fun n => 0 <= n) w.
Proof. exact weights_nonneg. Qed.
Print Assumptions C17_weights_nonneg_partial.

(* every linear profile a*x + b is reproduced exactly: sum_i (w_i/d) (a xs_i + b) = a x + b,
   for all x when extrapolating and for x inside the source range otherwise *)
Theorem C17_weights_linear_exact_partial : forall e xs x w d a b,
  asc xs = true -> (2 <= length xs)%nat ->
  (e = true \/ hd 0 xs <= x <= last xs 0) ->
  impl_weights e xs x = Some (w, d) ->
  dot w (map (fun c => a * c + b) xs) = d * (a * x + b).
Proof. exact weights_linear_exact. Qed.
Print Assumptions C17_weights_linear_exact_partial.

(* target coordinate = source coordinate: the k-th column is the k-th unit vector (W = I) *)
Theorem C17_weights_identity_partial : forall e xs k w d,
  asc xs = true -> (2 <= length xs)%nat -> (k < length xs)%nat ->
  impl_weights e xs (nth k xs 0) = Some (w, d) -> w = unitv k (length xs) d /\ 0 < d.
Proof. exact weights_identity. Qed.
Print Assumptions C17_weights_identity_partial.

(* conservative regridding leaves a constant field constant: for ANY coefficient matrix the
   numerators are c times the normaliser, so nvals = c wherever the normaliser is non-zero *)
Theorem C17_constant_preserved : forall c n (fdp : list (list Z)),
  fst (impl_conserve fdp n (repeat c (length fdp))) = map (Z.mul c) (snd (impl_conserve fdp n (repeat c (length fdp)))).
Proof. intros. unfold impl_conserve. cbn [fst snd]. apply colsums_const. Qed.
Print Assumptions C17_constant_preserved.

(* column mass: the sum over target layers of nvals * normaliser equals the sum over source
   layers of value * (row sum of fdp).  With the marginals of the overlap matrix (row sum =
   source thickness, normaliser = target thickness: grids sharing top and bottom) this is
   conservation of the thickness-weighted integral.
   _partial: the marginals themselves are established per case by the correspondence
   (Corr/C17.v: library coeff * thickness = overlap length), not by a theorem:
   UNPROVED (believed true):
     forall fr to, desc fr = true -> desc to = true -> hd 0 fr = hd 0 to -> last fr 0 = last to 0 ->
       impl_fdp fr to = spec_fdp fr to
       /\ map sumZ (spec_fdp fr to) = thick fr /\ colsums (length (thick to)) (spec_fdp fr to) = thick to. *)
Theorem C17_column_mass_from_marginals_partial : forall n (fdp : list (list Z)) v,
  Forall (fun r => length r = n) fdp -> length v = length fdp ->
  sumZ (fst (impl_conserve fdp n v)) = dot v (map sumZ fdp).
Proof. intros. unfold impl_conserve. cbn [fst]. apply colsums_total; auto. Qed.
Print Assumptions C17_column_mass_from_marginals_partial.

(* a single source level: the weights are NaN (None), not the identity *)
Theorem C17_single_level_refuted : exists e xs x,
  (1 <= length xs)%nat /\ x = nth 0 xs 0 /\ impl_weights e xs x = None.
Proof. exists false, [3], 3. vm_compute. repeat split; auto. Qed.
Print Assumptions C17_single_level_refuted.

(* ---- non-vacuity ------------------------------------------------------------------------- *)
Example C17_hyp_inhabited :
  asc [1; 2; 4; 8] = true
  /\ impl_weights false [1; 2; 4; 8] 3 = Some ([0; 1; 1; 0], 2)
  /\ impl_weights false [1; 2; 4; 8] 10 = Some ([0; 0; 0; 6], 6)
  /\ impl_weights true [1; 2; 4; 8] 10 = Some ([0; 0; -2; 6], 4)
  /\ impl_weights false [8; 4; 2; 1] 3 = Some ([0; 1; 1; 0], 2)
  /\ impl_fdp [8; 4; 2; 0] [8; 6; 3; 0] = [[2; 2; 0]; [0; 1; 1]; [0; 0; 2]]
  /\ spec_fdp [8; 4; 2; 0] [8; 6; 3; 0] = [[2; 2; 0]; [0; 1; 1]; [0; 0; 2]]
  /\ impl_conserve [[2; 2; 0]; [0; 1; 1]; [0; 0; 2]] 3 [5; 7; 11] = ([10; 17; 29], [2; 3; 3])
  /\ sumZ [10; 17; 29] = dot [5; 7; 11] [4; 2; 2].
Proof. vm_compute. repeat split; reflexivity. Qed.
