(* C04 — stacking concatenates in order and inverts splitting.
   Property statements only; every proof is `exact <lemma>` or a vm_compute witness.
   Model: Model/Stack.v (flat C-order arrays, abstract cells — a mask is part of the cell, so the
   statements cover data AND masks).  An axis is given by outer = product of the axis lengths
   before it and inner = product of those after it: "any dimension of any variable". *)
From PNC Require Import Base.Util Base.ArrFlat Model.Slice Model.Stack
                        Proofs.ArrFlatProofs Proofs.SliceProofs Proofs.StackProofs Proofs.StackFileProofs.

(* part p = (length along the axis, cells); well-sized for the axis position *)
Definition part_ok {A} (outer inner : nat) (p : nat * list A) : Prop :=
  length (snd p) = outer * (fst p * inner).

(* the stacked array has the sum of the inputs' lengths along the axis (any number of files) *)
Theorem C04_stack_length : forall (A : Type) outer inner (parts : list (nat * list A)),
  Forall (part_ok outer inner) parts ->
  length (concat_at outer inner parts) = outer * (sumn (map fst parts) * inner).
Proof. intros A. exact stack_length. Qed.
Print Assumptions C04_stack_length.

(* splitting ANY array at ANY axis position into ANY number of consecutive pieces (lengths lens,
   empty pieces allowed) and stacking the pieces in order reproduces the array, cell for cell *)
Theorem C04_stack_split_inverse : forall (A : Type) outer inner n lens (d : list A),
  length d = outer * (n * inner) -> sumn lens = n ->
  concat_at outer inner (split_at outer inner n lens d) = d.
Proof. intros A. exact stack_split. Qed.
Print Assumptions C04_stack_split_inverse.

(* slicing the stack of ANY files at the extent of the i-th one (after the files `before`)
   reproduces the i-th one: concatenation is in argument order and nothing is mixed *)
Theorem C04_slice_of_stack_is_piece : forall (A : Type) outer inner before (p : nat * list A) after,
  Forall (part_ok outer inner) (before ++ p :: after) ->
  piece_at outer inner (sumn (map fst (before ++ p :: after))) (sumn (map fst before)) (fst p)
           (concat_at outer inner (before ++ p :: after)) = snd p.
Proof. intros A. exact slice_stack_piece. Qed.
Print Assumptions C04_slice_of_stack_is_piece.

(* one file stacked with nothing is itself *)
Theorem C04_stack_single : forall (A : Type) outer inner n (d : list A),
  length d = outer * (n * inner) -> concat_at outer inner [(n, d)] = d.
Proof. intros A. exact stack_single. Qed.
Print Assumptions C04_stack_single.

(* stacking a stacked file with further files = stacking all files at once *)
Theorem C04_stack_assoc : forall (A : Type) outer inner (ps qs : list (nat * list A)),
  Forall (part_ok outer inner) ps ->
  concat_at outer inner ((sumn (map fst ps), concat_at outer inner ps) :: qs)
  = concat_at outer inner (ps ++ qs).
Proof. intros A. exact stack_assoc. Qed.
Print Assumptions C04_stack_assoc.

(* at ANY axis position (pre = the axis lengths before it, post = those after) the piece
   [c0, c0+len) is the C02 orthogonal selection with the unit-stride selector on that axis and
   "everything" on the others: splitting IS slicing *)
Theorem C04_piece_is_slice : forall (A : Type) pre n post c0 len (d : list A),
  length d = prodn pre * (n * prodn post) -> c0 + len <= n ->
  piece_at (prodn pre) (prodn post) n c0 len d
  = oslice (pre ++ n :: post) (axis_sel pre post c0 len) d.
Proof. intros A. exact piece_is_oslice. Qed.
Print Assumptions C04_piece_is_slice.

(* stack of split = original, with the pieces written as C02 slices, any axis, any partition *)
Theorem C04_stack_of_slices : forall (A : Type) pre n post lens (d : list A),
  length d = prodn pre * (n * prodn post) -> sumn lens = n ->
  concat_at (prodn pre) (prodn post)
    (map (fun e => (snd e, oslice (pre ++ n :: post) (axis_sel pre post (fst e) (snd e)) d))
         (extents 0 lens)) = d.
Proof. intros A. exact stack_of_slices. Qed.
Print Assumptions C04_stack_of_slices.

(* slicing (C02 model) the stack of ANY files at the extent of one of them reproduces it *)
Theorem C04_slice_of_stack : forall (A : Type) pre post before (p : nat * list A) after,
  Forall (part_ok (prodn pre) (prodn post)) (before ++ p :: after) ->
  oslice (pre ++ sumn (map fst (before ++ p :: after)) :: post)
         (axis_sel pre post (sumn (map fst before)) (fst p))
         (concat_at (prodn pre) (prodn post) (before ++ p :: after)) = snd p.
Proof. intros A. exact slice_of_stack_oslice. Qed.
Print Assumptions C04_slice_of_stack.

(* concatenation is characterised by its pieces: ANY array of the stacked size whose slices at the
   parts' extents are the parts is the stack — "concatenation in argument order" has exactly one
   meaning *)
Theorem C04_concat_unique : forall (A : Type) outer inner (parts : list (nat * list A)) d,
  length d = outer * (sumn (map fst parts) * inner) ->
  map (fun e => piece_at outer inner (sumn (map fst parts)) (fst e) (snd e) d)
      (extents 0 (map fst parts)) = map snd parts ->
  concat_at outer inner parts = d.
Proof. intros A. exact concat_unique. Qed.
Print Assumptions C04_concat_unique.

(* WHOLE FILE: for every well-formed file (any number of dimensions and variables, any dimension
   subsets/orders per variable without repeated dimensions, any cells = data and masks), every
   dimension k and every partition of it into >= 1 consecutive pieces (empty ones allowed), the
   model of PseudoNetCDFFile.stack applied to the model of the split pieces returns every variable
   unchanged — those without the dimension from the first piece — and the original dimension
   lengths, the stack dimension listed last with length = the sum *)
Theorem C04_stack_split_file : forall (A : Type) (f : file A) k lens,
  wf_file f = true -> Forall (fun v => NoDup (v_dims v)) (f_vars f) ->
  k < length (f_dims f) -> lens <> [] -> sumn lens = nth k (f_dims f) 0 ->
  impl_stack (split_file f k lens) k
  = Some (filter (fun p => negb (Nat.eqb (fst p) k)) (combine (seq 0 (length (f_dims f))) (f_dims f))
          ++ [(k, nth k (f_dims f) 0)], f_vars f).
Proof. intros A. exact stack_split_file. Qed.
Print Assumptions C04_stack_split_file.

(* ---- non-vacuity ---------------------------------------------------------------------------- *)

(* a (2,5,2) array split on its middle axis into pieces of 2, 0 and 3 and stacked again; the
   pieces are not trivial and their order matters *)
Example C04_split_inhabited :
  let d := seq 0 20 in
  split_at 2 2 5 [2; 0; 3] d
  = [(2, [0; 1; 2; 3; 10; 11; 12; 13]); (0, []); (3, [4; 5; 6; 7; 8; 9; 14; 15; 16; 17; 18; 19])]
  /\ concat_at 2 2 (split_at 2 2 5 [2; 0; 3] d) = d
  /\ concat_at 2 2 (rev (split_at 2 2 5 [2; 0; 3] d)) <> d.
Proof. vm_compute. repeat split; try reflexivity; discriminate. Qed.

(* whole-file model: two files stacked on dimension 1; a variable without it comes from the first *)
(* the middle-axis piece of the example above as a C02 slice *)
Example C04_piece_is_slice_inhabited :
  axis_sel [2] [2] 2 3 = [full_sel 2; RSlice [2; 3; 4]; full_sel 2] /\
  oslice [2; 5; 2] (axis_sel [2] [2] 2 3) (seq 0 20) = [4; 5; 6; 7; 8; 9; 14; 15; 16; 17; 18; 19].
Proof. vm_compute. split; reflexivity. Qed.

Example C04_file_example :
  impl_stack [File [2; 1] [Var [0; 1] [10; 11]; Var [0] [1; 2]];
              File [2; 2] [Var [0; 1] [20; 21; 22; 23]; Var [0] [7; 8]]] 1
  = Some ([(0, 2); (1, 3)], [Var [0; 1] [10; 20; 21; 11; 22; 23]; Var [0] [1; 2]]).
Proof. vm_compute. reflexivity. Qed.

(* a file with a (2,5) variable, a variable without the split dimension and the coordinate
   variable of it, split on dimension 1 into 2 + 0 + 3 and stacked *)
Example C04_stack_split_file_inhabited :
  let f := File [2; 5] [Var [0; 1] (seq 0 10); Var [0] [7; 8]; Var [1] [20; 21; 22; 23; 24]] in
  wf_file f = true /\
  map (fun g => f_dims g) (split_file f 1 [2; 0; 3]) = [[2; 2]; [2; 0]; [2; 3]] /\
  impl_stack (split_file f 1 [2; 0; 3]) 1 = Some ([(0, 2); (1, 5)], f_vars f).
Proof. vm_compute. repeat split; reflexivity. Qed.
