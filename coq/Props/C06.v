(* C06 — file arithmetic and mask() follow masked-array semantics.
   Property statements only.  Model: Model/Arith.v (elementwise over the row-major cells, hence
   all shapes; the scalar results r / numpy.ma fillers z are inputs supplied by numpy, the model
   decides mask placement and which value is exposed).  eval() is NOT modelled in Coq (it is
   compared with direct numpy evaluation by the Python oracle of the correspondence). *)
From PNC Require Import Base.Util Model.Arith Proofs.ArithProofs.
Require Import QArith.
Local Close Scope Q_scope.
Local Open Scope nat_scope.

(* (1) PARTIAL: on the domain where no operand cell is masked and, for masked-typed operands, no
   domained operator (div, floordiv, mod, pow) meets a zero divisor or a non-finite result, every variable of
   `f1 op f2` is exactly what the property demands (all operators, all shapes, any number of
   variables, coordinate variables and variables missing on the right included). *)
Theorem C06_binop_partial : forall cls coords vs,
  forallb (dom_var cls coords) vs = true -> impl_binop cls coords vs = spec_binop cls coords vs.
Proof. exact binop_dom_correct. Qed.
Print Assumptions C06_binop_partial.

(* (1a) in particular: plain (not masked-typed) operands, every operator, zero / inf / nan included *)
Theorem C06_binop_plain_operands : forall cls coords vs,
  (forall v cs, In v vs -> bpair v = Some cs ->
     bma v = false /\ forall c, In c cs -> m1 c = false /\ m2 c = false) ->
  impl_binop cls coords vs = spec_binop cls coords vs.
Proof. exact binop_plain_correct. Qed.
Print Assumptions C06_binop_plain_operands.

(* (1b) masked-typed operands without masked cells *)
Theorem C06_binop_unmasked_ma_operands : forall cls coords vs,
  (forall v cs, In v vs -> bpair v = Some cs -> forall c, In c cs ->
     m1 c = false /\ m2 c = false /\ (cls = 0 \/ (b0 c = false /\ nonfin (r c) = false))) ->
  impl_binop cls coords vs = spec_binop cls coords vs.
Proof. exact binop_ma_correct. Qed.
Print Assumptions C06_binop_unmasked_ma_operands.

(* (2) The FULL statement is false of the faithful model: a masked operand cell comes back
   unmasked (value = the numpy.ma filler), and 1/0 on a masked-typed variable is not masked. *)
Theorem C06_binop_masked_operand_refuted : exists cls coords vs,
  impl_binop cls coords vs <> spec_binop cls coords vs /\
  impl_binop cls coords vs = [[Some (Fin (2 # 1)); Some (Fin (5 # 1))]].
Proof.
  exists 0, [], [BV 10 true [None; Some (Fin (3#1))]
                   (Some [BC true false false (Fin (4#1)) (Fin (2#1)); BC false false false (Fin (5#1)) (Fin (5#1))])].
  vm_compute. split; [discriminate | reflexivity].
Qed.
Print Assumptions C06_binop_masked_operand_refuted.

Theorem C06_binop_zero_division_refuted : exists coords vs,
  impl_binop 1 coords vs = [[Some (Fin (1 # 1))]] /\ spec_binop 1 coords vs = [[None]].
Proof.
  exists [], [BV 10 true [Some (Fin (1#1))] (Some [BC false false true PInf (Fin (1#1))])].
  vm_compute. split; reflexivity.
Qed.
Print Assumptions C06_binop_zero_division_refuted.

(* (3) Coordinate variables are passed through from the left operand unchanged, in place. *)
Theorem C06_coords_passthrough : forall cls coords vs i v,
  nth_error vs i = Some v -> is_coord coords v = true ->
  nth_error (impl_binop cls coords vs) i = Some (bleft v).
Proof. exact coords_passthrough. Qed.
Print Assumptions C06_coords_passthrough.

(* (4) For every input whatsoever an exposed value is finite (masked_invalid is always applied). *)
Theorem C06_never_exposes_nonfinite : forall is_ma cls c x,
  impl_cell is_ma cls c = Some x -> nonfin x = false.
Proof. exact impl_never_nonfinite. Qed.
Print Assumptions C06_never_exposes_nonfinite.

(* (5) what the property demands of one cell *)
Theorem C06_spec_cell_exact : forall is_ma cls c x,
  spec_cell is_ma cls c = Some x <->
  (m1 c = false /\ m2 c = false /\ (is_ma && (cls =? 1) && b0 c) = false /\ nonfin (r c) = false /\ x = r c).
Proof. exact spec_cell_exact. Qed.
Print Assumptions C06_spec_cell_exact.

(* (6) mask(): on the domain dom_values (floating variable, or integral / absent values=) an
   output cell is masked exactly when it was masked, or the where-bit is set, or a predicate
   holds (all predicate combinations, any length), the stored value untouched ... *)
Theorem C06_mask_exact_no_where_partial : forall p f cs,
  dom_values p f = true ->
  zip_mask (impl_mcell p f) None cs = map (fun c => MC (raw c) (msk c || false || pred_hit p f (raw c))) cs.
Proof. exact mask_exact_no_where. Qed.
Print Assumptions C06_mask_exact_no_where_partial.

Theorem C06_mask_exact_where_partial : forall p f bs cs,
  dom_values p f = true -> length bs = length cs ->
  zip_mask (impl_mcell p f) (Some bs) cs
  = map (fun bc => MC (raw (snd bc)) (msk (snd bc) || fst bc || pred_hit p f (raw (snd bc)))) (combine bs cs).
Proof. exact mask_exact_where. Qed.
Print Assumptions C06_mask_exact_where_partial.

(* ... and every cell left unmasked shows its input value unaltered, was unmasked before, and
   satisfies no predicate *)
Theorem C06_mask_keeps_unmasked_partial : forall p f bits cs,
  dom_values p f = true ->
  Forall2 (fun c c' => forall x, visible c' = Some x ->
              visible c = Some x /\ pred_hit p f (raw c) = false)
          cs (zip_mask (impl_mcell p f) bits cs).
Proof. exact mask_keeps_unmasked. Qed.
Print Assumptions C06_mask_keeps_unmasked_partial.

(* (7) PARTIAL: mask() as a whole (coordinate variables skipped, the where/dims applicability
   rule, IndexError on a mis-shaped where) equals the specification unless dims= is a list or an
   integer variable meets a non-integral values= *)
Theorem C06_mask_partial : forall coords wc w p vs,
  dims_is_list w = false -> existsb (int_values_var coords wc p) vs = false ->
  impl_mask coords wc w p vs = spec_mask coords wc w p vs.
Proof. exact mask_correct. Qed.
Print Assumptions C06_mask_partial.

Theorem C06_mask_skips_coords : forall cellf applies coords w p v,
  existsb (Nat.eqb (mname v)) coords = true -> mask_var cellf applies coords false w p v = Some (mcells v).
Proof. exact mask_skips_coords. Qed.
Print Assumptions C06_mask_skips_coords.

(* (8) with dims given as a LIST (the docstring says "iterable of strings") `where` is silently
   not applied: list == tuple is False *)
Definition no_preds := Preds None None None None None None false.
Theorem C06_mask_dims_list_refuted : exists coords w p vs,
  impl_mask coords false w p vs = MOk [[Some (Fin (1#1)); Some (Fin (2#1))]]
  /\ spec_mask coords false w p vs = MOk [[None; Some (Fin (2#1))]].
Proof.
  exists [], (Some (WA [2] [true; false] (Some ([3], false)))), no_preds,
         [MV 10 true [3] [2] [MC (Fin (1#1)) false; MC (Fin (2#1)) false]].
  vm_compute. split; reflexivity.
Qed.
Print Assumptions C06_mask_dims_list_refuted.

(* (9) integer variable, values=1/4 (non-integral): a cell that was already masked (7) and one
   masked by greater=2 (5) come back UNMASKED holding 0 = int(0.25) *)
Theorem C06_mask_int_values_refuted : exists coords p vs,
  impl_mask coords false None p vs = MOk [[Some (Fin (0#1)); Some (Fin (1#1)); Some (Fin (0#1))]]
  /\ spec_mask coords false None p vs = MOk [[None; Some (Fin (1#1)); None]].
Proof.
  exists [], (Preds (Some (2#1)%Q) None None None (Some (1#4)%Q) None false),
         [MV 10 false [3] [3] [MC (Fin (7#1)) true; MC (Fin (1#1)) false; MC (Fin (5#1)) false]].
  vm_compute. split; reflexivity.
Qed.
Print Assumptions C06_mask_int_values_refuted.

(* Non-vacuity of (1): a masked-typed pair with 1/4, a plain pair producing inf, a coordinate *)
Example C06_hyp_inhabited :
  let vs := [BV 10 false [Some (Fin (1#1)); Some (Fin (2#1))]
                (Some [BC false false true PInf NaN; BC false false false (Fin (1#2)) NaN]);
             BV 0 false [Some (Fin (7#1))] (Some [BC false false false (Fin (9#1)) NaN]);
             BV 11 true [Some (Fin (1#1))] (Some [BC false false false (Fin (1#4)) (Fin (1#4))])] in
  forallb (dom_var 1 [0]) vs = true
  /\ impl_binop 1 [0] vs = [[None; Some (Fin (1#2))]; [Some (Fin (7#1))]; [Some (Fin (1#4))]].
Proof. vm_compute. split; reflexivity. Qed.
