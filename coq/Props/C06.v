(* C06 — file arithmetic and mask() follow masked-array semantics (code after the fixes
   C06-pncbo-keep-masks, C06-mask-dims-list, C06-mask-int-values).
   Property statements only.  Model: Model/Arith.v (elementwise over the row-major cells, hence
   all shapes; the scalar results r are inputs supplied by numpy, the model decides mask
   placement).  eval(): Model/EvalExpr.v, for assignment statements over names, constants, unary
   minus and + - * / (other expression forms are compared with numpy by the Python oracle only). *)
From PNC Require Import Base.Util Model.Arith Proofs.ArithProofs Model.EvalExpr Proofs.EvalProofs Gen.C06Src.
Require Import QArith.
Local Close Scope Q_scope.
Local Open Scope nat_scope.

(* (1) FULL: every variable of `f1 op f2` is exactly what the property demands: operand masks
   united, non-finite results (and, for masked-typed operands, zero divisors) masked, otherwise
   the elementwise result; coordinate variables and variables missing on the right copied from
   the left.  All operators, all shapes, any number of variables, masked or plain operands,
   zero / inf / nan included.  wf_var only says that plain variables carry no masked cell. *)
Theorem C06_binop_correct : forall cls coords vs,
  forallb wf_var vs = true -> impl_binop cls coords vs = spec_binop cls coords vs.
Proof. exact binop_correct. Qed.
Print Assumptions C06_binop_correct.

(* (2) a masked operand cell of a masked-typed variable stays masked, whatever the operator *)
Theorem C06_masked_operand_stays_masked : forall cls c,
  m1 c || m2 c = true -> impl_cell true cls c = None.
Proof. exact masked_operand_stays_masked. Qed.
Print Assumptions C06_masked_operand_stays_masked.

(* (3) Coordinate variables are passed through from the left operand unchanged, in place; so are
   variables absent from the right file. *)
Theorem C06_coords_passthrough : forall cls coords vs i v,
  nth_error vs i = Some v -> is_coord coords v = true ->
  nth_error (impl_binop cls coords vs) i = Some (bleft v).
Proof. exact coords_passthrough. Qed.
Print Assumptions C06_coords_passthrough.

Theorem C06_missing_right_copied : forall cls coords vs i v,
  nth_error vs i = Some v -> bpair v = None ->
  nth_error (impl_binop cls coords vs) i = Some (bleft v).
Proof. exact missing_right_copied. Qed.
Print Assumptions C06_missing_right_copied.

(* (4) For every input whatsoever an exposed value is finite (masked_invalid is always applied). *)
Theorem C06_never_exposes_nonfinite : forall is_ma cls c x,
  impl_cell is_ma cls c = Some x -> nonfin x = false.
Proof. exact impl_never_nonfinite. Qed.
Print Assumptions C06_never_exposes_nonfinite.

(* (5) what the property demands of one cell *)
Theorem C06_spec_cell_exact : forall is_ma cls c x,
  spec_cell is_ma cls c = Some x <->
  (m1 c = false /\ m2 c = false /\ (is_ma && (cls =? 1) && b0 c) = false /\ nonfin (r c) = false /\ x = r c).
Proof. exact spec_cell_exact. Qed.
Print Assumptions C06_spec_cell_exact.

(* (6) mask(): an output cell is masked exactly when it was masked, or the where-bit is set, or a
   predicate holds (all predicate combinations, integer and floating variables, any length),
   the stored value untouched ... *)
Theorem C06_mask_exact_no_where : forall p f cs,
  zip_mask (impl_mcell p f) None cs = map (fun c => MC (raw c) (msk c || false || pred_hit p f (raw c))) cs.
Proof. exact mask_exact_no_where. Qed.
Print Assumptions C06_mask_exact_no_where.

Theorem C06_mask_exact_where : forall p f bs cs,
  length bs = length cs ->
  zip_mask (impl_mcell p f) (Some bs) cs
  = map (fun bc => MC (raw (snd bc)) (msk (snd bc) || fst bc || pred_hit p f (raw (snd bc)))) (combine bs cs).
Proof. exact mask_exact_where. Qed.
Print Assumptions C06_mask_exact_where.

(* ... every cell left unmasked shows its input value unaltered, was unmasked before, and satisfies
   no predicate; masks only grow *)
Theorem C06_mask_keeps_unmasked : forall p f bits cs,
  Forall2 (fun c c' => forall x, visible c' = Some x ->
              visible c = Some x /\ pred_hit p f (raw c) = false)
          cs (zip_mask (impl_mcell p f) bits cs).
Proof. exact mask_keeps_unmasked. Qed.
Print Assumptions C06_mask_keeps_unmasked.

Theorem C06_mask_monotone : forall p f bits cs,
  Forall2 (fun c c' => msk c = true -> msk c' = true) cs (zip_mask (impl_mcell p f) bits cs).
Proof. exact mask_monotone. Qed.
Print Assumptions C06_mask_monotone.

(* (7) FULL: mask() as a whole (coordinate variables skipped unless coords=True, the where/dims
   applicability rule for any iterable dims, IndexError on a mis-shaped where) equals the
   specification for every input *)
Theorem C06_mask_correct : forall coords wc w p vs,
  impl_mask coords wc w p vs = spec_mask coords wc w p vs.
Proof. exact mask_correct. Qed.
Print Assumptions C06_mask_correct.

Theorem C06_mask_skips_coords : forall cellf coords w p v,
  existsb (Nat.eqb (mname v)) coords = true -> mask_var cellf coords false w p v = Some (mcells v).
Proof. exact mask_skips_coords. Qed.
Print Assumptions C06_mask_skips_coords.

(* Regressions of the repaired defects (they used to be _refuted witnesses) and non-vacuity of (1):
   a masked operand cell, 1/0 and 5//0 on masked-typed variables, a plain pair producing inf, a
   coordinate variable *)
Example C06_binop_inhabited :
  let vs := [BV 10 true [None; Some (Fin (3#1))]
                (Some [BC true false false (Fin (4#1)); BC false false false (Fin (5#1))]);
             BV 11 true [Some (Fin (1#1)); Some (Fin (5#1))]
                (Some [BC false false true PInf; BC false false true (Fin (0#1))]);
             BV 12 false [Some (Fin (1#1)); Some (Fin (2#1))]
                (Some [BC false false true PInf; BC false false false (Fin (1#2))]);
             BV 0 false [Some (Fin (7#1))] (Some [BC false false false (Fin (9#1))])] in
  forallb wf_var vs = true
  /\ impl_binop 1 [0] vs = [[None; Some (Fin (5#1))]; [None; None]; [None; Some (Fin (1#2))]; [Some (Fin (7#1))]].
Proof. vm_compute. split; reflexivity. Qed.

(* mask(where=[T,F], dims=<any iterable> ['x']) masks the first cell; an integer variable with
   greater=2, values=1/4 keeps its masked cell masked and masks 5 *)
Example C06_mask_inhabited :
  impl_mask [] false (Some (WA [2] [true; false] (Some [3]))) (Preds None None None None None None false)
            [MV 10 true [3] [2] [MC (Fin (1#1)) false; MC (Fin (2#1)) false]]
  = MOk [[None; Some (Fin (2#1))]]
  /\ impl_mask [] false None (Preds (Some (2#1)%Q) None None None (Some (1#4)%Q) None false)
            [MV 10 false [3] [3] [MC (Fin (7#1)) true; MC (Fin (1#1)) false; MC (Fin (5#1)) false]]
  = MOk [[None; Some (Fin (1#1)); None]].
Proof. vm_compute. split; reflexivity. Qed.

(* (8) eval(): an eval assignment creates variables equal to evaluating the expressions, statement
   after statement, on the file's arrays (exec); every other variable of the result is a variable
   of the base file (all variables when copyall, else the coordinate variables) with identical
   contents.  All statement lists, expression depths, array lengths, masked or plain arrays. *)
Theorem C06_eval_creates_expr : forall f copyall ss r,
  impl_eval f copyall ss = EOk r ->
  exists en tkey base,
    exec true (file_env f) ss = Some en /\ template f ss = Some tkey /\ base_vars f copyall tkey = Some base
    /\ (forall k, is_target ss k = true -> exists a, elookup k en = Some (VA a) /\ elookup k r = Some a)
    /\ (forall k, is_target ss k = false -> elookup k r = elookup k base).
Proof. exact eval_creates_expr. Qed.
Print Assumptions C06_eval_creates_expr.

Theorem C06_eval_single : forall f copyall k e r,
  impl_eval f copyall [(k, e)] = EOk r ->
  exists a, eval_expr true (file_env f) e = Some (VA a) /\ elookup k r = Some a.
Proof. exact eval_single. Qed.
Print Assumptions C06_eval_single.

Theorem C06_eval_copyall_untouched : forall f ss r k,
  impl_eval f true ss = EOk r -> is_target ss k = false -> elookup k r = elookup k (ef_vars f).
Proof. exact eval_copyall_untouched. Qed.
Print Assumptions C06_eval_copyall_untouched.

(* (9) the cellwise meaning used by (8): a binary operation on two arrays is the operation on
   corresponding cells; the result cell is masked iff an operand cell is, or (numpy.ma arrays
   only) a division meets a zero divisor or yields a non-finite quotient *)
Theorem C06_eval_binop_cellwise : forall quirk o p q,
  length (e_cells p) = length (e_cells q) ->
  val_bin quirk o (VA p) (VA q)
  = let rk := res_kind quirk (e_kind p) (e_kind q) in
    Some (VA (EA (fst rk) (map2 (cell_bin o (is_ma (fst rk)))
                                (if snd rk then clear_masks (e_cells p) else e_cells p)
                                (if snd rk then clear_masks (e_cells q) else e_cells q)))).
Proof. exact val_bin_cells. Qed.
Print Assumptions C06_eval_binop_cellwise.

Theorem C06_eval_cell_mask : forall o is_ma c d,
  msk (cell_bin o is_ma c d) = true <->
  (msk c = true \/ msk d = true \/
   (is_ma = true /\ o = ODiv /\ (rv_is_zero (raw d) = true \/ nonfin (rv_bin ODiv (raw c) (raw d)) = true))).
Proof. exact cell_bin_mask. Qed.
Print Assumptions C06_eval_cell_mask.

(* file with A = [1, --] (masked-typed), B = [0, 3] (plain), coordinate x; `C = A / B; D = C + 1` *)
Example C06_eval_inhabited :
  let f := EF [(10, EA KPncMa [MC (Fin (1#1)) false; MC (Fin (5#1)) true]);
               (11, EA KPlain [MC (Fin (0#1)) false; MC (Fin (3#1)) false]);
               (2, EA KPlain [MC (Fin (0#1)) false; MC (Fin (1#1)) false])] [2] in
  let ss := [(12, EBin ODiv (EVar 10) (EVar 11)); (13, EBin OAdd (EVar 12) (EConst (1#1)%Q))] in
  match impl_eval f false ss with
  | EOk r => map fst r = [2; 12; 13]
             /\ option_map (fun a => map visible (e_cells a)) (elookup 12 r) = Some [None; None]
             /\ spec_eval_ok f false ss (map (fun p => (fst p, map visible (e_cells (snd p)))) r) = true
  | ERaise => False
  end.
Proof. vm_compute. repeat split; reflexivity. Qed.

(* (8b) exec true is what the library computes, exec false is masked-array semantics (the property).
   PARTIAL: they coincide for every statement list without np.ma.* calls (all depths, lengths, masked or
   plain file variables) ... *)
Theorem C06_eval_masked_semantics_partial : forall f ss,
  (forall p, In p (ef_vars f) -> e_kind (snd p) <> KNpMa) ->
  forallb (fun s => no_maskcall (snd s)) ss = true ->
  exec true (file_env f) ss = exec false (file_env f) ss.
Proof. exact eval_quirk_free. Qed.
Print Assumptions C06_eval_masked_semantics_partial.

(* ... and the FULL statement is false of the faithful model: `C = A + np.ma.masked_less(B, 1)` with plain
   A = [3], B = [-4.5]: numpy gives the operation to the PseudoNetCDFVariable on the left
   (__array_priority__ 1e7 > MaskedArray's 15), the result is a plain variable [-1.5] without mask,
   where masked-array semantics gives [--]. *)
Theorem C06_eval_plain_left_drops_mask_refuted : exists f ss,
  eval_quirk_region f ss = true /\
  match impl_eval f false ss with
  | EOk r => map (fun p => map visible (e_cells (snd p))) r = [[Some (Fin (-3 # 2))]]
             /\ spec_eval_ok f false ss (map (fun p => (fst p, map visible (e_cells (snd p)))) r) = false
  | ERaise => False
  end.
Proof.
  exists (EF [(10, EA KPlain [MC (Fin (3#1)) false]); (11, EA KPlain [MC (Fin (-9#2)) false])] []),
         [(12, EBin OAdd (EVar 10) (EMaskCmp true (EVar 11) (1#1)%Q))].
  vm_compute. repeat split; reflexivity.
Qed.
Print Assumptions C06_eval_plain_left_drops_mask_refuted.

(* (10) tie T.  Gen/C06Src.v is re-read from core/_files.py and core/_functions.py on every run: the
   operator table (dunder method -> symbol handed to pncbo, operands in order), the statements of pncbo
   and the numpy.ma chain of mask() (order, function, arguments) are the ones the model transcribes; the
   operator classes used by impl_cell follow from the symbols; and the result cell computed from the
   source record is the model's. *)
Theorem C06_source_is_model :
  src_ops = model_ops /\ src_chain = model_chain /\ src_pncbo = model_pncbo /\ src_mask = model_mask
  /\ map (fun p => op_cls (snd p)) src_ops = [0; 0; 0; 1; 1; 2; 0; 0; 0; 1; 0; 0; 0; 0; 0; 0]
  /\ forall is_ma cls c, generic_cell src_pncbo is_ma cls c = impl_cell is_ma cls c.
Proof. repeat split; try (vm_compute; reflexivity). Qed.
Print Assumptions C06_source_is_model.
