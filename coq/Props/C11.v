(* C11 — IOAPI subsetting preserves geo- and time-referencing.
   Property statements only; every proof is `exact <lemma>` or a vm_compute witness.
   Model: Model/IoapiGeo.v (ioapi_base.sliceDimensions metadata updates) on Base/Calendar.v.
   Which data cells a window retains is C02; here: the metadata is moved to exactly that window. *)
From PNC Require Import Base.Util Base.Calendar Model.IoapiGeo Proofs.IoapiGeoProofs Gen.Times Proofs.TimesGenProofs.
Local Open Scope Z_scope.

(* selector normalisation: every int (positive or negative) and every unit-stride slice that numpy accepts
   denotes a window [st, st+cnt) inside the axis; windows touching either edge included *)
Theorem C11_window_in_axis : forall n s st cnt, 0 <= n -> sel_range n s = Some (st, cnt) ->
  0 <= st /\ 0 <= cnt /\ st + cnt <= n.
Proof. exact sel_range_bounds. Qed.
Print Assumptions C11_window_in_axis.

Theorem C11_negative_int : forall n i, - n <= i < n ->
  sel_range n (SInt i) = Some (if i <? 0 then n + i else i, 1).
Proof. exact sel_range_int. Qed.
Print Assumptions C11_negative_int.

(* origin: whenever subsetting returns, every retained cell j keeps the projected coordinate (left/lower edge,
   hence also the upper edge = edge (j+1)) it had as cell st+j of the source; any grid, any cell size *)
Theorem C11_cell_coords_preserved : forall orig cell n s o', 0 <= n ->
  impl_slice_origin orig cell n (Some s) = Some o' ->
  exists st cnt, sel_range n s = Some (st, cnt) /\ 0 <= st /\ 0 < cnt /\ st + cnt <= n
                 /\ forall j, edge o' cell j = edge orig cell (st + j).
Proof. exact origin_preserved. Qed.
Print Assumptions C11_cell_coords_preserved.

(* level edges: the cnt+1 edges of the window are edges st .. st+cnt of the source *)
Theorem C11_vglvls_subrange : forall lv s lv',
  impl_slice_vglvls lv (Some s) = Some lv' ->
  exists st cnt, sel_range (Z.of_nat (length lv) - 1) s = Some (st, cnt) /\ 0 < cnt
    /\ (0 <= Z.of_nat (length lv) - 1 -> length lv' = Z.to_nat (cnt + 1))
    /\ forall j d, (j <= Z.to_nat cnt)%nat -> nth j lv' d = nth (Z.to_nat st + j) lv d.
Proof. exact vglvls_subrange. Qed.
Print Assumptions C11_vglvls_subrange.

(* decoded times of the window = the same sub-range of the source's decoded times *)
Theorem C11_window_times_subrange : forall t0 tstep n s tms,
  impl_window_times t0 tstep n s = Some tms ->
  exists st cnt, win_range n s = Some (st, cnt) /\ length tms = Z.to_nat cnt
    /\ forall j, (j < Z.to_nat cnt)%nat -> nth j tms 0 = t0 + (st + Z.of_nat j) * sec_of_hhmmss tstep.
Proof. exact window_times_subrange. Qed.
Print Assumptions C11_window_times_subrange.

(* SDATE/STIME/TSTEP of the window give every retained step the instant it had in the source, across day and
   year boundaries, for EVERY step length (hours >= 24 included: repaired code, fixes/C11-slice-tstep-ge-24h.patch)
   and every start instant -- no validity hypothesis on the source attributes is needed *)
Theorem C11_start_step_preserved : forall t0 tstep n sdate stime s d h ts,
  0 <= n ->
  impl_slice_time t0 tstep n sdate stime (Some s) = Some (d, h, ts) ->
  exists st cnt, sel_range n s = Some (st, cnt) /\ 0 <= st /\ 0 < cnt /\ st + cnt <= n
    /\ valid_hhmmss h = true
    /\ forall j, 0 <= j < cnt -> attr_time d h ts j = t0 + (st + j) * sec_of_hhmmss tstep.
Proof. exact times_subrange. Qed.
Print Assumptions C11_start_step_preserved.

(* combined windows: the metadata of a window over TSTEP, LAY, ROW and COL together is the per-dimension
   update of each, and subsetting returns exactly when every dimension's window is non-empty and in range *)
Theorem C11_combined_window : forall g w o,
  impl_window g w = Some o ->
  impl_slice_origin (g_xorig g) (g_xcell g) (g_nc g) (w_c w) = Some (o_xorig o)
  /\ impl_slice_origin (g_yorig g) (g_ycell g) (g_nr g) (w_r w) = Some (o_yorig o)
  /\ impl_slice_vglvls (g_lv g) (w_l w) = Some (o_lv o)
  /\ impl_slice_time (sec_of_flag (g_sdate g) (g_stime g)) (g_tstep g) (g_nt g) (g_sdate g) (g_stime g) (w_t w)
     = Some (o_sdate o, o_stime o, o_tstep o)
  /\ impl_window_times (sec_of_flag (g_sdate g) (g_stime g)) (g_tstep g) (g_nt g) (w_t w) = Some (o_times o).
Proof. exact combined_window. Qed.
Print Assumptions C11_combined_window.

(* ---- tie T: the TSTEP expression of ioapi_base.sliceDimensions, regenerated from /repo's source on every run
   (coq/Gen/Times.v slice_tstep): it is HHHMMSS of the step and encodes exactly that many seconds, for every step *)
Theorem C11_gen_slice_tstep : forall s, slice_tstep s = hhmmss_of_sec s /\ sec_of_hhmmss (slice_tstep s) = s.
Proof. exact gen_slice_tstep. Qed.
Print Assumptions C11_gen_slice_tstep.

(* and the hand model writes that expression of the source step whenever more than one step is retained *)
Theorem C11_gen_slice_time_uses : forall t0 tstep n sdate stime s d h ts cnt st,
  impl_slice_time t0 tstep n sdate stime (Some s) = Some (d, h, ts) ->
  sel_range n s = Some (st, cnt) -> 1 < cnt -> ts = slice_tstep (sec_of_hhmmss tstep).
Proof. exact gen_slice_time_uses. Qed.
Print Assumptions C11_gen_slice_time_uses.

(* ---- non-vacuity: a combined window (negative int row, slice col, int layer, time window across new year),
   and a 25-hour step kept as 250000 *)
Example C11_combined_window_inhabited :
  impl_window (Grid (-804) 162 96 36 [1024; 768; 512; 0] 1999365 220000 10000 4 5 6)
              (Win (Some (SSlice (Some 1) (Some 3))) (Some (SInt 1)) (Some (SInt (-2))) (Some (SSlice (Some 2) None)))
  = Some (Out (-612) 270 [768; 512] 1999365 230000 10000
              [946681200; 946684800]).
Proof. vm_compute. reflexivity. Qed.

Example C11_long_step_inhabited :
  impl_slice_time 946677600 250000 4 1999365 220000 (Some (SSlice (Some 1) None)) = Some (2000001, 230000, 250000).
Proof. vm_compute. reflexivity. Qed.
