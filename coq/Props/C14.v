(* C14 — truncated binary files are never silently misread. Statements only. *)
From PNC Require Import Base.Util Base.Words Gen.Camx Model.Uamiv Proofs.WordsProofs Proofs.UamivProofs.
Import Coq.Lists.List. Import ListNotations.
Local Open Scope Z_scope.

(* Specification level, every record-structured format: whatever prefix of a valid file the reference
   decoder accepts decodes to a prefix of the file's records — whole records with identical content. *)
Theorem C14_spec_prefix : forall fuel p tail rs rs',
  p ++ tail = frame rs -> unframe fuel p = Some rs' -> exists rs'', rs = rs' ++ rs''.
Proof. exact unframe_prefix. Qed.
Print Assumptions C14_spec_prefix.

(* The UAM-IV memory-mapped reader never looks past the end of the file: its result is a function of
   the bytes that exist (c bytes) only. *)
Theorem C14_uamiv_reader_local : forall ws c, 0 <= c ->
  mm_read (firstn (Z.to_nat (c / 4)) ws) c = mm_read ws c.
Proof. exact mm_read_local. Qed.
Print Assumptions C14_uamiv_reader_local.

(* Main theorem: for EVERY well-formed UAM-IV file and EVERY cut point c (in bytes), opening the
   first c bytes either raises, or c is exactly header + k whole steps (k >= 1) and the reader presents
   exactly the first k steps of the full file (same data words, same time-header words). *)
Theorem C14_uamiv_every_prefix : forall u c, wf u = true -> 0 <= c <= 4 * Z.of_nat (length (enc u)) ->
  mm_read (firstn (Z.to_nat (c / 4)) (enc u)) c = Err \/
  exists k, (1 <= k <= length (u_steps u))%nat /\ c = 4 * (hdr_words u + Z.of_nat k * step_words u) /\
            mm_read (firstn (Z.to_nat (c / 4)) (enc u)) c = Ok (view_of (truncate_steps k u)).
Proof. exact mm_read_prefix. Qed.
Print Assumptions C14_uamiv_every_prefix.

(* the integrality test `int(ntimes) != ntimes` on the translated expression
   float(size - offset) / 4. / data_block_size  is divisibility by the block size in bytes *)
Theorem C14_partial_time_test : forall size off blk, 0 < blk ->
  ntimes_of size off blk = if (size - off) mod (4 * blk) =? 0 then Some ((size - off) / (4 * blk)) else None.
Proof. exact ntimes_of_spec. Qed.
Print Assumptions C14_partial_time_test.

Example C14_cut_inside_second_step :
  let u := {| u_name := repeat 65 10; u_note := repeat 66 60; u_itzon := 0; u_dates := [2001; 0; 2001; 2];
     u_gpre := repeat 7 7; u_nx := 2; u_ny := 1; u_nz := 1; u_gpost := repeat 5 5;
     u_spc := [repeat 80 10];
     u_steps := [([2001; 0; 2001; 1], [[[11; 12]]]); ([2001; 1; 2001; 2], [[[31; 32]]])] |} in
  wf u = true /\ mm_read (firstn 140 (enc u)) 560 = Err
  /\ (exists v, mm_read (firstn 134 (enc u)) 536 = Ok v /\ v_ntimes v = 1).
Proof. vm_compute. split; [reflexivity|split; [reflexivity|eexists; split; reflexivity]]. Qed.

(* ======================================================================================================
   CAMx LATERAL BOUNDARY files (Model/Lbdy.v, reader model from the translated lateral_boundary/Memmap.py)
   ====================================================================================================== *)
From PNC Require Import Model.Lbdy Proofs.LbdyProofs.

(* The lateral-boundary memory-mapped reader never looks past the end of the file *)
Theorem C14_lbdy_reader_local : forall ws c, 0 <= c ->
  lb_mm_read (firstn (Z.to_nat (c / 4)) ws) c = lb_mm_read ws c.
Proof. exact lb_mm_read_local. Qed.
Print Assumptions C14_lbdy_reader_local.

(* Main theorem: for EVERY well-formed lateral-boundary file and EVERY cut point c (in bytes), opening the first
   c bytes either raises, or c is exactly header + k whole steps (k >= 1) and the reader presents exactly the
   first k steps of the full file (same boundary values, same time-header words, same grid and species). *)
Theorem C14_lbdy_every_prefix : forall l c, lb_wf l = true -> 0 <= c <= 4 * Z.of_nat (length (lb_enc l)) ->
  lb_mm_read (firstn (Z.to_nat (c / 4)) (lb_enc l)) c = Err \/
  exists k, (1 <= k <= length (l_steps l))%nat /\ c = 4 * (lb_hdr_words l + Z.of_nat k * lb_step_words l) /\
            lb_mm_read (firstn (Z.to_nat (c / 4)) (lb_enc l)) c = Ok (lb_view_of (lb_truncate_steps k l)).
Proof. exact lb_mm_read_prefix. Qed.
Print Assumptions C14_lbdy_every_prefix.

(* The reader's own test `int(ntimes) != ntimes` can never fire here: ntimes is computed with FLOOR divisions
   (translated expression lm_ntimes), so a file holding k whole steps plus ANY r < step bytes gives ntimes = k.
   What rejects the ragged prefixes in C14_lbdy_every_prefix is numpy.memmap's whole-number-of-items rule. *)
Theorem C14_lbdy_ntimes_is_floor : forall hdr sw k r, 0 < sw -> 0 <= k -> 0 <= r < 4 * sw ->
  lm_ntimes (4 * hdr + k * (4 * sw) + r) (4 * hdr) sw = k.
Proof. exact lb_ntimes_floor. Qed.
Print Assumptions C14_lbdy_ntimes_is_floor.

Example C14_lbdy_cut_inside_second_step :
  let l := {| l_name := repeat 65 10; l_note := repeat 66 60; l_itzon := 0; l_dates := [2001; 0; 2001; 2];
     l_gpre := repeat 7 7; l_nx := 2; l_ny := 2; l_nz := 1; l_gpost := [0; 0; 5; 5; 0];
     l_spc := [repeat 80 10]; l_edges := std_edges 2 2;
     l_steps := [([2001; 0; 2001; 1], [Quad [11; 12] [13; 14] [15; 16] [17; 18]]);
                 ([2001; 1; 2001; 2], [Quad [21; 22] [23; 24] [25; 26] [27; 28]])] |} in
  lb_wf l = true /\ lb_hdr_words l = 165 /\ lb_step_words l = 70
  /\ lb_mm_read (firstn 240 (lb_enc l)) 960 = Err
  /\ lb_mm_read (firstn 165 (lb_enc l)) 660 = Err
  /\ (exists v, lb_mm_read (firstn 235 (lb_enc l)) 940 = Ok v /\ lv_ntimes v = 1).
Proof. vm_compute. repeat split; try reflexivity. eexists; split; reflexivity. Qed.

(* ======================================================================================================
   CAMx one3d family (one3d / humidity / vertical_diffusivity), Model/One3d.v
   ====================================================================================================== *)
From PNC Require Import Model.One3d Proofs.One3dProofs.

Theorem C14_one3d_reader_local : forall rows cols ws size,
  o_mm_read rows cols (firstn (Z.to_nat (size / 4)) ws) size = o_mm_read rows cols ws size.
Proof. exact o_mm_read_local. Qed.
Print Assumptions C14_one3d_reader_local.

(* EVERY well-formed readable file and EVERY cut point: opening the first `size` bytes and reading the data either
   raises, or the cut is exactly k >= 2 whole steps and exactly the first k steps are presented *)
Theorem C14_one3d_every_prefix : forall c size, o_wf c = true -> o_readable c = true ->
  0 <= size <= 4 * Z.of_nat (length (o_enc c)) ->
  o_mm_read (o_ny c) (o_nx c) (firstn (Z.to_nat (size / 4)) (o_enc c)) size = Err \/
  exists k, (2 <= k <= length (o_steps c))%nat /\ size = 4 * (Z.of_nat k * o_step_words c) /\
            o_mm_read (o_ny c) (o_nx c) (firstn (Z.to_nat (size / 4)) (o_enc c)) size
            = Ok (o_view_of (o_truncate_steps k c)).
Proof. exact o_mm_read_prefix. Qed.
Print Assumptions C14_one3d_every_prefix.

(* the strongest true form: the set of accepted cuts and what is presented there, exactly. In particular a prefix of
   ONE whole step is refused (the reader cannot infer the layer count), and so is every cut on a record boundary that
   is not a whole number of steps (there the lazy reshape of the data raises). *)
Theorem C14_one3d_accepts_iff : forall c size v, o_wf c = true -> o_readable c = true ->
  0 <= size <= 4 * Z.of_nat (length (o_enc c)) ->
  (o_mm_read (o_ny c) (o_nx c) (firstn (Z.to_nat (size / 4)) (o_enc c)) size = Ok v <->
   exists k, (2 <= k <= length (o_steps c))%nat /\ size = 4 * (Z.of_nat k * o_step_words c) /\
             v = o_view_of (o_truncate_steps k c)).
Proof. exact o_mm_read_accepts_iff. Qed.
Print Assumptions C14_one3d_accepts_iff.

(* a single-step file is refused at every cut *)
Theorem C14_one3d_single_step_never_opens : forall c s, o_wf c = true -> o_steps c = [s] ->
  forall size, 0 <= size <= 4 * Z.of_nat (length (o_enc c)) ->
  o_mm_read (o_ny c) (o_nx c) (firstn (Z.to_nat (size / 4)) (o_enc c)) size = Err.
Proof. exact o_mm_read_single_step. Qed.
Print Assumptions C14_one3d_single_step_never_opens.

Example C14_one3d_cuts :
  let c := {| o_nx := 2; o_ny := 1; o_nz := 2;
              o_steps := [OStep 1120403456 4001 [[11; 12]; [13; 14]]; OStep 1128792064 4001 [[21; 22]; [23; 24]];
                          OStep 1133903872 4001 [[31; 32]; [33; 34]]] |} in
  o_wf c = true /\ o_readable c = true /\ o_step_words c = 12
  /\ o_mm_read 1 2 (firstn 12 (o_enc c)) 48 = Err            (* one whole step *)
  /\ o_mm_read 1 2 (firstn 30 (o_enc c)) 120 = Err           (* two steps and one record *)
  /\ o_mm_read 1 2 (firstn 25 (o_enc c)) 100 = Err           (* inside a record *)
  /\ (exists v, o_mm_read 1 2 (firstn 24 (o_enc c)) 96 = Ok v /\ ov_ntimes v = 2).
Proof. vm_compute. repeat split; try reflexivity. eexists; split; reflexivity. Qed.

(* ======================================================================================================
   CAMx TEMPERATURE and HEIGHT/PRESSURE files, Model/TempHp.v
   ====================================================================================================== *)
From PNC Require Import Model.TempHp Proofs.TempHpProofs.

Theorem C14_temperature_reader_local : forall rows cols ws size,
  t_mm_read rows cols (firstn (Z.to_nat (size / 4)) ws) size = t_mm_read rows cols ws size.
Proof. exact t_mm_read_local. Qed.
Print Assumptions C14_temperature_reader_local.

(* TEMPERATURE (reader as repaired by 9020b2c: for/else raises when no record carries a later time stamp): for EVERY
   readable file and EVERY cut, opening and reading either raises or the cut is exactly k >= 2 whole steps and exactly
   the first k steps are presented. (Before the repair the prefix holding exactly the first two records was accepted with
   fabricated content: former finding C14-temperature-prefix-fabricated, now a corpus case.) *)
Theorem C14_temperature_every_prefix : forall c size, t_wf c = true -> t_readable c = true ->
  0 <= size <= 4 * Z.of_nat (length (t_enc c)) ->
  t_mm_read (t_ny c) (t_nx c) (firstn (Z.to_nat (size / 4)) (t_enc c)) size = Err \/
  exists k, (2 <= k <= length (t_steps c))%nat /\ size = 4 * (Z.of_nat k * t_step_words c) /\
            t_mm_read (t_ny c) (t_nx c) (firstn (Z.to_nat (size / 4)) (t_enc c)) size
            = Ok (t_view_of (t_truncate_steps k c)).
Proof. exact t_mm_read_prefix. Qed.
Print Assumptions C14_temperature_every_prefix.

(* the strongest true form: the accepted cuts and what is presented there, EXACTLY *)
Theorem C14_temperature_accepts_iff : forall c size v, t_wf c = true -> t_readable c = true ->
  0 <= size <= 4 * Z.of_nat (length (t_enc c)) ->
  (t_mm_read (t_ny c) (t_nx c) (firstn (Z.to_nat (size / 4)) (t_enc c)) size = Ok v <->
   exists k, (2 <= k <= length (t_steps c))%nat /\ size = 4 * (Z.of_nat k * t_step_words c) /\
             v = t_view_of (t_truncate_steps k c)).
Proof. exact t_mm_read_accepts_iff. Qed.
Print Assumptions C14_temperature_accepts_iff.

(* HEIGHT/PRESSURE: full strength *)
Theorem C14_heightpres_reader_local : forall rows cols ws size,
  h_mm_read rows cols (firstn (Z.to_nat (size / 4)) ws) size = h_mm_read rows cols ws size.
Proof. exact h_mm_read_local. Qed.
Print Assumptions C14_heightpres_reader_local.

Theorem C14_heightpres_every_prefix : forall c size, h_wf c = true -> h_readable c = true ->
  0 <= size <= 4 * Z.of_nat (length (h_enc c)) ->
  h_mm_read (h_ny c) (h_nx c) (firstn (Z.to_nat (size / 4)) (h_enc c)) size = Err \/
  exists k, (2 <= k <= length (h_steps c))%nat /\ size = 4 * (Z.of_nat k * h_step_words c) /\
            h_mm_read (h_ny c) (h_nx c) (firstn (Z.to_nat (size / 4)) (h_enc c)) size
            = Ok (h_view_of (h_truncate_steps k c)).
Proof. exact h_mm_read_prefix. Qed.
Print Assumptions C14_heightpres_every_prefix.

Theorem C14_heightpres_accepts_iff : forall c size v, h_wf c = true -> h_readable c = true ->
  0 <= size <= 4 * Z.of_nat (length (h_enc c)) ->
  (h_mm_read (h_ny c) (h_nx c) (firstn (Z.to_nat (size / 4)) (h_enc c)) size = Ok v <->
   exists k, (2 <= k <= length (h_steps c))%nat /\ size = 4 * (Z.of_nat k * h_step_words c) /\
             v = h_view_of (h_truncate_steps k c)).
Proof. exact h_mm_read_accepts_iff. Qed.
Print Assumptions C14_heightpres_accepts_iff.

Example C14_temperature_cuts :
  let c := {| t_nx := 2; t_ny := 1; t_nz := 2;
     t_steps := [TStep 1120403456 4001 [1; 2] [[3; 4]; [5; 6]]; TStep 1128792064 4001 [11; 12] [[13; 14]; [15; 16]];
                 TStep 1133903872 4001 [21; 22] [[23; 24]; [25; 26]]] |} in
  t_wf c = true /\ t_readable c = true /\ t_rec_words c = 6 /\ t_step_words c = 18
  /\ t_mm_read 1 2 (firstn 18 (t_enc c)) 72 = Err            (* one whole step *)
  /\ t_mm_read 1 2 (firstn 12 (t_enc c)) 48 = Err            (* the first two records (accepted before 9020b2c) *)
  /\ (exists v, t_mm_read 1 2 (firstn 36 (t_enc c)) 144 = Ok v /\ tv_ntimes v = 2 /\ tv_nz v = 2).
Proof. vm_compute. repeat split; try reflexivity; eexists; repeat split; reflexivity. Qed.

(* ---- bpch (GEOS-Chem binary punch; model and proofs: Model/Bpch.v, Proofs/BpchPrefixThm.v) -------------------- *)
Require PNC.Proofs.BpchPrefixThm.
Module B := PNC.Model.Bpch.
(* every byte prefix of every bpch-convention file: the bpch1 reader model raises, or presents exactly the first k whole
   time blocks, or (cut exactly at a tracer boundary inside the FIRST time block) one time block with the first j tracers *)
Theorem C14_bpch_every_prefix : forall T D f c,
  B.wf T D f = true -> B.tables_ok T D = true -> 0 <= c <= 4 * B.lenZ (B.enc f) ->
  let r := B.impl_open T D (firstn (Z.to_nat (c / 4)) (B.enc f)) c in
  r = B.Err
  \/ (exists k, (1 <= k <= length (B.f_times f))%nat /\ 136 + 4 * (Z.of_nat k * B.tb_wordsZ (B.tb0 f)) <= c
                /\ r = B.Ok (B.view_of T D (B.trunc_times k f)))
  \/ (exists j, (1 <= j < length (B.tb0 f))%nat /\ c = 136 + 4 * B.tb_wordsZ (firstn j (B.tb0 f))
                /\ r = B.Ok (B.view_of T D (B.first_tracers j f))).
Proof. exact PNC.Proofs.BpchPrefixThm.prefix_open. Qed.
Print Assumptions C14_bpch_every_prefix.

(* "raises or exactly k whole steps" is false for bpch: a cut at a tracer boundary inside the first time block opens
   with fewer tracers (a bpch file has no tracer count) - finding C14-bpch-first-block-tracer-cut *)
Theorem C14_bpch_first_block_tracer_cut_refuted : exists T D f c,
  B.wf T D f = true /\ B.tables_ok T D = true /\ 0 <= c < 4 * B.lenZ (B.enc f)
  /\ exists v, B.impl_open T D (firstn (Z.to_nat (c / 4)) (B.enc f)) c = B.Ok v
               /\ (length (B.r_vars v) < length (B.tb0 f))%nat /\ length (B.r_data v) = 1%nat.
Proof. exact PNC.Proofs.BpchPrefixThm.prefix_tracer_cut_witness. Qed.
Print Assumptions C14_bpch_first_block_tracer_cut_refuted.

(* ======================================================================================================
   CAMx WIND files, Model/Wind.v
   ====================================================================================================== *)
From PNC Require Import Model.Wind Proofs.WindProofs.

(* EVERY well-formed wind file on a grid of two or more cells and EVERY cut (reader as repaired by db74c5b / d3c85b3): opening
   and reading the first len bytes either raises, or it presents exactly the first k = len / step_bytes COMPLETE steps of the
   file -- and it does so exactly when len is a whole number of words holding at least one whole step. Trailing bytes after
   the last whole step (a partial next step) are never looked at; nothing fabricated, nothing shifted, nothing partial.
   (Before db74c5b every cut inside the first step made the layer-counting loop spin for ever: former finding
   C14-wind-prefix-hangs, now a corpus case.) *)
Theorem C14_wind_every_prefix : forall c len, w_wf c = true -> w_steps c <> [] -> 2 <= w_nx c * w_ny c ->
  0 <= len <= 4 * Z.of_nat (length (w_enc c)) ->
  w_mm_read (w_ny c) (w_nx c) (firstn (Z.to_nat ((len + 3) / 4)) (w_enc c)) len =
  if (len mod 4 =? 0) && (w_step_bytes c <=? len)
  then WOk (w_view_of (w_truncate_steps (Z.to_nat (len / w_step_bytes c)) c)) else WErr.
Proof. exact w_mm_read_every_cut. Qed.
Print Assumptions C14_wind_every_prefix.

(* the reader model can only fail to return on a file whose SECOND record has a size word of -8 or less (a corrupt marker that
   moves the record walk backwards) -- never on a prefix of a well-formed file, whatever the grid (1x1 included) *)
Theorem C14_wind_never_hangs : forall rows cols ws len, w_mm_read rows cols ws len = WHang ->
  snd (match rf_next ws len 0 (getw ws 0) with Some (Some x) => x | _ => (0, getw ws 0) end) + 8 <= 0.
Proof. exact w_mm_read_hang_corrupt. Qed.
Print Assumptions C14_wind_never_hangs.

Example C14_wind_cuts :
  let c := {| w_nx := 2; w_ny := 1; w_nz := 2; w_stag := Some 1; w_dummy := 0;
              w_steps := [WStep 1120403456 4001 [([1; 2], [3; 4]); ([5; 6], [7; 8])];
                          WStep 1128792064 4001 [([11; 12], [13; 14]); ([15; 16], [17; 18])]] |} in
  w_wf c = true /\ w_step_bytes c = 96
  /\ w_mm_read 1 2 (firstn 5 (w_enc c)) 20 = WErr                                       (* the first time record: raised (hung before db74c5b) *)
  /\ w_mm_read 1 2 (firstn 22 (w_enc c)) 88 = WErr                                      (* step 1 without its dummy record *)
  /\ (exists v, w_mm_read 1 2 (firstn 30 (w_enc c)) 120 = WOk v /\ wv_ntimes v = 1)     (* one whole step and part of the next *)
  /\ w_mm_read 1 2 (firstn 25 (w_enc c)) 98 = WErr                                      (* not a whole number of words *)
  /\ (exists v, w_mm_read 1 2 (firstn 48 (w_enc c)) 192 = WOk v /\ wv_ntimes v = 2).
Proof. vm_compute. repeat split; try reflexivity; eexists; split; reflexivity. Qed.

(* ======================================================================================================
   CAMx cloud/rain files (Model/CloudRain.v): every byte prefix
   ====================================================================================================== *)
From PNC Require Import Model.CloudRain Proofs.CloudRainProofs.

(* EVERY byte prefix of EVERY well-formed file: if the reader accepts it, the prefix is the header plus a whole number of
   steps of one of the two layouts, and when the layout the reader picked is the file's own, it presents exactly the first
   steps of the content. (Nothing shorter than the header and 12 bytes is accepted.) *)
Theorem C14_cloudrain_every_prefix : forall c n v, c_wf c = true -> 0 <= n <= 4 * Z.of_nat (length (c_enc c)) ->
  cr_mm_read (firstn (Z.to_nat ((n + 3) / 4)) (c_enc c)) n = Ok v ->
  exists nv, (nv = 3 \/ nv = 5) /\ cv_nvars v = nv /\ 0 < cv_ntimes v /\ n = c_hdr_bytes + cv_ntimes v * c_timesize c nv /\
    (nv = c_nvars c ->
       (Z.to_nat (cv_ntimes v) <= length (c_steps c))%nat /\ v = c_view_of (c_truncate_steps (Z.to_nat (cv_ntimes v)) c)).
Proof. exact cr_every_prefix. Qed.
Print Assumptions C14_cloudrain_every_prefix.

(* a cut after k whole steps is read as those k steps whenever that size is unambiguous *)
Theorem C14_cloudrain_whole_step_prefix : forall c k, c_wf c = true -> (1 <= k <= length (c_steps c))%nat ->
  c_unambiguous (c_truncate_steps k c) = true ->
  let n := c_hdr_bytes + Z.of_nat k * c_step_bytes c in
  cr_mm_read (firstn (Z.to_nat ((n + 3) / 4)) (c_enc c)) n = Ok (c_view_of (c_truncate_steps k c)).
Proof. exact cr_whole_step_prefix. Qed.
Print Assumptions C14_cloudrain_whole_step_prefix.

(* INHERENT: the other alternative of C14_cloudrain_every_prefix is real. A 5-field file cut after the header, the first time
   record and three records IS a valid one-step 3-field file (CLOUD, then RAIN presented as PRECIP and SNOW as COD).
   Replays on the library: finding cloud-rain-prefix-other-layout (region 20). *)
Definition C14_cloudrain_example : cloudrain :=
  {| c_desc := [1; 2; 3; 4; 5]; c_nx := 2; c_ny := 1; c_nz := 1; c_nvars := 5;
     c_steps := [CStep 1147207680 99361 [[[11; 12]; [13; 14]; [15; 16]; [17; 18]; [19; 20]]];
                 CStep 1148846080 99361 [[[21; 22]; [23; 24]; [25; 26]; [27; 28]; [29; 30]]]] |}.
Theorem C14_cloudrain_prefix_other_layout_refuted :
  c_wf C14_cloudrain_example = true /\
  exists v, cr_mm_read (firstn 26 (c_enc C14_cloudrain_example)) 104 = Ok v /\ cv_nvars v = 3 /\ cv_ntimes v = 1 /\
            cv_data v = [[[[11; 12]; [13; 14]; [15; 16]]]].
Proof. vm_compute. split; [reflexivity|]. eexists. repeat split. Qed.
Print Assumptions C14_cloudrain_prefix_other_layout_refuted.

Example C14_cloudrain_cuts :
  let c := C14_cloudrain_example in
  length (c_enc c) = 58%nat
  /\ cr_mm_read (firstn 10 (c_enc c)) 40 = Err                                          (* the header alone *)
  /\ cr_mm_read (firstn 13 (c_enc c)) 52 = Err
  /\ cr_mm_read (firstn 33 (c_enc c)) 132 = Err                                         (* one step less its last word *)
  /\ cr_mm_read (firstn 34 (c_enc c)) 135 = Err                                         (* not a whole number of words *)
  /\ cr_mm_read (firstn 34 (c_enc c)) 136 = Ok (c_view_of (c_truncate_steps 1 c))       (* one whole step *)
  /\ cr_mm_read (firstn 35 (c_enc c)) 140 = Err
  /\ cr_mm_read (firstn 58 (c_enc c)) 232 = Ok (c_view_of c).
Proof. vm_compute. repeat split. Qed.

(* ======================================================================================================
   CAMx land-use files (Model/Landuse.v): every byte prefix
   ====================================================================================================== *)
From PNC Require Import Model.Landuse Proofs.LanduseProofs.

(* EVERY byte prefix of EVERY well-formed file, whatever the decodability of its first bytes: the reader accepts the prefix
   only at the end of the land-use record or of an optional record, and then presents exactly the first records of the
   content (such a prefix is itself a valid land-use file) *)
Theorem C14_landuse_every_prefix : forall c dec n v, lu_wf c = true -> lu_sniff_ok c = true ->
  0 <= n <= 4 * Z.of_nat (length (lu_enc c)) ->
  lu_mm_read dec (lu_rows c) (lu_cols c) (firstn (Z.to_nat ((n + 3) / 4)) (lu_enc c)) n = Ok v ->
  exists k, (k <= length (lu_opts c))%nat /\ n = lu_fland_bytes c + Z.of_nat k * lu_opt_bytes c /\ dec = true /\
            v = lu_view_of (lu_truncate k c).
Proof. exact lu_every_prefix. Qed.
Print Assumptions C14_landuse_every_prefix.

Example C14_landuse_cuts :
  let c := {| lu_new := true; lu_nland := 11; lu_rows := 1; lu_cols := 2; lu_fland := map Z.of_nat (seq 100 22);
              lu_opts := [(lu_key_LAI, [1; 2]); (lu_key_TOPO, [3; 4])] |} in
  lu_wf c = true /\ length (lu_enc c) = 44%nat
  /\ lu_mm_read true 1 2 (firstn 3 (lu_enc c)) 12 = Err
  /\ lu_mm_read true 1 2 (firstn 28 (lu_enc c)) 111 = Err
  /\ lu_mm_read true 1 2 (firstn 28 (lu_enc c)) 112 = Ok (lu_view_of (lu_truncate 0 c))     (* the land-use record *)
  /\ lu_mm_read true 1 2 (firstn 32 (lu_enc c)) 128 = Err                                    (* ... and the LAI key record *)
  /\ lu_mm_read true 1 2 (firstn 36 (lu_enc c)) 144 = Ok (lu_view_of (lu_truncate 1 c))
  /\ lu_mm_read true 1 2 (firstn 44 (lu_enc c)) 176 = Ok (lu_view_of c).
Proof. vm_compute. repeat split. Qed.
