(* C05 — isolation: inputs are never modified, results never alias, closing is local.
   Property statements only.  Models: Model/Handles.v (netCDF handle table), Model/Alias.v (buffer heap). *)
From PNC Require Import Base.Util Model.Handles Model.Alias Proofs.HandlesProofs Proofs.AliasProofs.

(* ================= closing / garbage-collecting is local ========================================== *)

(* The repaired discipline (close only while this object is open), at full strength: after ANY sequence of
   opens and closes (explicit closes and finalisers, any order, any number of times per object), every object that
   received no close event reads its own file. *)
Theorem C05_close_local_spec : forall h o ob,
  nth_error (objs (spec_run h)) o = Some ob -> ~ In (Close o) h ->
  read (spec_run h) o = Some (o_file ob).
Proof. exact close_local_spec. Qed.
Print Assumptions C05_close_local_spec.

(* The code as it is (netcdf.close / __del__ call nc_close on the remembered id unconditionally): FALSE.
   A = netcdf(a); A.close(); B = netcdf(b); finaliser of A  ->  B is invalid ... *)
Theorem C05_close_local_refuted : exists h o ob,
  nth_error (objs (impl_run h)) o = Some ob /\ ~ In (Close o) h /\ read (impl_run h) o = None.
Proof. exact close_local_refuted. Qed.
Print Assumptions C05_close_local_refuted.

(* ... and after one more open, B silently returns the data of another file. *)
Theorem C05_close_wrong_data_refuted : exists h o ob f,
  nth_error (objs (impl_run h)) o = Some ob /\ ~ In (Close o) h
  /\ read (impl_run h) o = Some f /\ f <> o_file ob.
Proof. exact wrong_data_refuted. Qed.
Print Assumptions C05_close_wrong_data_refuted.

(* PARTIAL: on the histories in which every close event hits an object that is still open or whose slot is free at
   that moment (`safe`, boolean, region 0 of the correspondence), the code coincides with the repaired discipline and
   the property holds.  Missing: histories with a close/finaliser of an already closed object after its slot was
   re-used by a later open (refuted above). *)
Theorem C05_close_local_partial : forall h o ob,
  safe h = true ->
  impl_run h = spec_run h
  /\ (nth_error (objs (impl_run h)) o = Some ob -> ~ In (Close o) h -> read (impl_run h) o = Some (o_file ob)).
Proof. exact close_local_partial. Qed.
Print Assumptions C05_close_local_partial.

(* ================= inputs are never modified, results never alias ================================= *)

(* Heap level, any cell type, any heap: an operation all of whose output variables are fresh allocations leaves every
   existing buffer unchanged, its outputs are disjoint from every existing buffer, and ANY later sequence of writes
   into the outputs leaves every existing buffer unchanged. *)
Theorem C05_fresh_outputs_isolated : forall A (acts : list (action A)) (h h' : heap A) out ws,
  forallb (is_fresh A) acts = true -> run_actions A h acts = (h', out) ->
  (forall w, In w ws -> In (fst w) out) ->
  forall i, i < length h -> hread A (write_all A h' ws) i = hread A h i.
Proof. exact isolation_fresh. Qed.
Print Assumptions C05_fresh_outputs_isolated.

(* What the property demands (spec_effs: no in-place write, no shared buffer) gives isolation for every operation. *)
Theorem C05_isolation_spec : forall (o : op) A (outs : list (list A)) junk (h h' : heap A) out ws,
  run_actions A h (actions_of (spec_effs o) outs junk) = (h', out) ->
  (forall w, In w ws -> In (fst w) out) ->
  (forall j, In j out -> length h <= j)
  /\ forall i, i < length h -> hread A (write_all A h' ws) i = hread A h i.
Proof. exact isolation_spec. Qed.
Print Assumptions C05_isolation_spec.

(* PARTIAL: the catalogue of the code's effects (impl_effs): every operation / query with `isolated o = true`
   (all Clean ones; getTimes without the -635 sentinel or on disk-backed files; val2idx(bounds) with a bounds variable,
   non-uniform spacing, an integer coordinate or a disk-backed file).  Missing: eval('B = A'), eval of a view,
   getvarpnc coordinates, slice_dim, getTimes with -635 in TFLAG, val2idx(bounds) on a uniform float coordinate. *)
Theorem C05_isolation_partial : forall (o : op), isolated o = true ->
  forall A (outs : list (list A)) junk (h h' : heap A) out ws,
  run_actions A h (actions_of (impl_effs o) outs junk) = (h', out) ->
  (forall w, In w ws -> In (fst w) out) ->
  (forall j, In j out -> length h <= j)
  /\ forall i, i < length h -> hread A (write_all A h' ws) i = hread A h i.
Proof. exact isolation_isolated. Qed.
Print Assumptions C05_isolation_partial.

(* eval('B = A'): a later write into B changes A of the input file *)
Theorem C05_result_alias_refuted : exists (o : op) (h h' : heap nat) out ws i,
  run_actions nat h (actions_of (impl_effs o) [] []) = (h', out)
  /\ (forall w, In w ws -> In (fst w) out) /\ i < length h
  /\ hread nat h' i = hread nat h i
  /\ hread nat (write_all nat h' ws) i <> hread nat h i.
Proof. exact alias_refuted. Qed.
Print Assumptions C05_result_alias_refuted.

(* val2idx(method='bounds'): the query itself rewrites the coordinate variable *)
Theorem C05_query_mutates_refuted : exists (o : op) (h h' : heap nat) out i,
  run_actions nat h (actions_of (impl_effs o) [] [5; 20; 30; 45]) = (h', out)
  /\ i < length h /\ hread nat h' i <> hread nat h i.
Proof. exact query_mutates_refuted. Qed.
Print Assumptions C05_query_mutates_refuted.

(* Non-vacuity *)
Example C05_safe_inhabited :
  safe [Open 0; Open 1; Close 0; Close 0; Open 2; Close 2; Open 0; Close 1] = true
  /\ reads (impl_run [Open 0; Open 1; Close 0; Close 0; Open 2; Close 2; Open 0; Close 1]) [0; 1; 2; 3]
     = [Some 0; None; Some 0; Some 0].   (* closed objects 0 and 2 remember slot 1, now owned by object 3 *)
Proof. vm_compute. split; reflexivity. Qed.

Example C05_isolated_inhabited :
  isolated (Clean 3) = true /\ isolated (Val2idxBounds true true true true 0) = true
  /\ isolated (GetTimesTflag false true 0) = true /\ isolated (EvalName 1) = false.
Proof. vm_compute. repeat split; reflexivity. Qed.
