(* C05 — isolation: inputs are never modified, results never alias, closing is local.
   Property statements only.  Models: Model/Handles.v (netCDF handle table), Model/Alias.v (buffer heap). *)
From PNC Require Import Base.Util Model.Handles Model.Alias Proofs.HandlesProofs Proofs.AliasProofs.

(* ================= closing / garbage-collecting is local ========================================== *)

(* The code since fix C05-close-isopen-guard (netcdf.close returns at once unless isopen(); __del__ calls close), at
   FULL strength: after ANY sequence of opens and closes (explicit closes and finalisers, any order, any number of times
   per object), every object that received no close event reads its own file.  (Before the repair this was false:
   witnesses in corpus/C05/.) *)
Theorem C05_close_local : forall h o ob,
  nth_error (objs (impl_run h)) o = Some ob -> ~ In (Close o) h ->
  read (impl_run h) o = Some (o_file ob).
Proof. exact close_local. Qed.
Print Assumptions C05_close_local.

(* one more close / finaliser of ANY object leaves what every other open object reads untouched *)
Theorem C05_close_is_local_step : forall h o o' ob',
  o <> o' -> nth_error (objs (impl_run h)) o' = Some ob' -> o_open ob' = true ->
  read (impl_step (impl_run h) (Close o)) o' = read (impl_run h) o'.
Proof. exact close_is_local. Qed.
Print Assumptions C05_close_is_local_step.

(* "any number of times": a second close of the same object is a no-op, in every state *)
Theorem C05_close_idempotent : forall st o,
  impl_step (impl_step st (Close o)) (Close o) = impl_step st (Close o).
Proof. exact close_idempotent. Qed.
Print Assumptions C05_close_idempotent.

(* ownership invariant of every reachable state: an open object's slot holds its own file, and no two open
   objects share a slot (so a recycled id can never be closed through a stale object) *)
Theorem C05_slot_ownership : forall h,
  (forall o ob, nth_error (objs (impl_run h)) o = Some ob -> o_open ob = true ->
                lookup (o_ncid ob) (tbl (impl_run h)) = Some (o_file ob))
  /\ (forall o1 o2 ob1 ob2, o1 <> o2 -> nth_error (objs (impl_run h)) o1 = Some ob1 ->
        nth_error (objs (impl_run h)) o2 = Some ob2 -> o_open ob1 = true -> o_open ob2 = true ->
        o_ncid ob1 <> o_ncid ob2).
Proof. exact ownership. Qed.
Print Assumptions C05_slot_ownership.

(* Files DERIVED from a disk-backed object (copy / subset / slice / mask / rename / insertDimension ...: in-memory, built through
   copyVariable and copyDimension) keep what they captured whatever happens afterwards to the source or to any other object:
   any later opens, closes, finalisers, further derivations. *)
Theorem C05_derived_survives : forall h1 h2 d x,
  nth_error (snd (drun h1)) d = Some x -> use (drun (h1 ++ h2)) d = x.
Proof. exact derived_survives. Qed.
Print Assumptions C05_derived_survives.

(* deriving from an object that received no close captures that object's own file; every later use returns it *)
Theorem C05_derive_captures_source : forall h1 h2 o ob,
  nth_error (objs (impl_run (prims_of h1))) o = Some ob -> ~ In (Close o) (prims_of h1) ->
  use (drun (h1 ++ Derive o :: h2)) (length (snd (drun h1))) = Some (o_file ob).
Proof. exact derive_captures_source. Qed.
Print Assumptions C05_derive_captures_source.

(* ================= inputs are never modified, results never alias ================================= *)

(* Heap level, any cell type, any heap: an operation all of whose output variables are fresh allocations leaves every
   existing buffer unchanged, its outputs are disjoint from every existing buffer, and ANY later sequence of writes
   into the outputs leaves every existing buffer unchanged. *)
Theorem C05_fresh_outputs_isolated : forall A (acts : list (action A)) (h h' : heap A) out ws,
  forallb (is_fresh A) acts = true -> run_actions A h acts = (h', out) ->
  (forall w, In w ws -> In (fst w) out) ->
  forall i, i < length h -> hread A (write_all A h' ws) i = hread A h i.
Proof. exact isolation_fresh. Qed.
Print Assumptions C05_fresh_outputs_isolated.

(* What the property demands (spec_effs: no in-place write, no shared buffer) gives isolation for every operation. *)
Theorem C05_isolation_spec : forall (o : op) A (outs : list (list A)) junk (h h' : heap A) out ws,
  run_actions A h (actions_of (spec_effs o) outs junk) = (h', out) ->
  (forall w, In w ws -> In (fst w) out) ->
  (forall j, In j out -> length h <= j)
  /\ forall i, i < length h -> hread A (write_all A h' ws) i = hread A h i.
Proof. exact isolation_spec. Qed.
Print Assumptions C05_isolation_spec.

(* FULL strength since the fixes C05-eval-result-copy, C05-getvarpnc-coord-copy, C05-slice_dim-copy (and the query fixes):
   for EVERY call of the catalogue (Model/Alias.v: all transformations and all queries; impl_effs is empty for each), any
   heap, any cell type, any later sequence of writes into the returned file: the outputs are disjoint from every existing
   buffer and every existing buffer is unchanged.  (Was `_partial`, restricted to `isolated o = true`; no call is outside
   that domain any more.  What still restricts the claim is only the tie: the catalogue is hand-written and held to the
   code by the correspondence, F, on the generated cases.) *)
Theorem C05_isolation : forall (o : op) A (outs : list (list A)) junk (h h' : heap A) out ws,
  run_actions A h (actions_of (impl_effs o) outs junk) = (h', out) ->
  (forall w, In w ws -> In (fst w) out) ->
  (forall j, In j out -> length h <= j)
  /\ forall i, i < length h -> hread A (write_all A h' ws) i = hread A h i.
Proof. exact isolation_all. Qed.
Print Assumptions C05_isolation.

Theorem C05_all_calls_isolated : forall o : op, isolated o = true.
Proof. exact all_isolated. Qed.
Print Assumptions C05_all_calls_isolated.

(* the hypothesis of C05_fresh_outputs_isolated can fail and then the conclusion does: an output that IS an input buffer
   (what eval('B = A'), getvarpnc coordinates and slice_dim used to produce) lets a later write change the input *)
Theorem C05_fresh_hypothesis_needed : exists (acts : list (action nat)) (h h' : heap nat) out ws i,
  run_actions nat h acts = (h', out)
  /\ (forall w, In w ws -> In (fst w) out) /\ i < length h
  /\ hread nat (write_all nat h' ws) i <> hread nat h i.
Proof. exact fresh_hypothesis_needed. Qed.
Print Assumptions C05_fresh_hypothesis_needed.

(* FULL strength for the queries (time decoding, value-to-index lookup, dump/repr, save): whatever the file (any number of
   variables, in memory or disk-backed) they leave the heap exactly as it was and return no buffer. *)
Theorem C05_queries_pure : forall (c : call) (mem : bool) (vars dims : list nat) A (junk : list A) (h : heap A),
  is_query c = true ->
  run_actions A h (actions_of (impl_effs (Call c mem vars dims)) [] junk) = (h, []).
Proof. exact queries_pure. Qed.
Print Assumptions C05_queries_pure.

(* The buffer-level transcription of every catalogued call (Model/Alias.v prog_of: the statements of core/_files.py and
   core/_functions.py that create, store or write arrays) has no effect on any input buffer, for EVERY list of input
   variables and every backing (induction over the variable list). *)
Theorem C05_programs_safe : forall (c : call) (v : nat -> src) (vars : list nat), exec (prog_of c v vars) = [].
Proof. exact all_safe. Qed.
Print Assumptions C05_programs_safe.

(* ... including the DIMENSION OBJECTS of the result: every call builds them with copyDimension / createDimension, never by
   storing the input's own object (any number of dimensions) *)
Theorem C05_dimension_objects_fresh : forall c mem vars dims, impl_effs (Call c mem vars dims) = [].
Proof. exact whole_safe. Qed.
Print Assumptions C05_dimension_objects_fresh.

(* ... and the transcription can tell: the statements that the repaired calls used to contain do have effects. *)
Theorem C05_old_statements_have_effects :
  exec [StoreObject (SVar 2)] = [EAlias 2]
  /\ exec [StoreObject (SView (SVar 2))] = [EAlias 2]
  /\ exec [CreateValues (SView (SVar 0))] = [EAlias 0]
  /\ exec [StoreObject (SView (SView (SView (SView (SVar 3)))))] = [EAlias 3]
  /\ exec [StoreObject (SView (SView (SVar 1)))] = [EAlias 1]
  /\ exec [Inplace (SView (SView (SVar 1)))] = [EMutate 1]
  /\ exec [StoreObject (SView (SDisk 2))] = []
  /\ exec [StoreDimension 501] = [EAlias 501].
Proof. exact old_statements_have_effects. Qed.
Print Assumptions C05_old_statements_have_effects.

(* Non-vacuity *)
Example C05_history_inhabited :
  reads (impl_run [Open 0; Close 0; Open 1; Close 0; Open 2; Close 0; Open 0; Close 2]) [0; 1; 2; 3]
  = [Some 1; Some 1; None; Some 0]   (* the closed object 0 still remembers slot 1, now owned by object 1; objects 1 and 3 are open and read their own files *)
  /\ map o_ncid (objs (impl_run [Open 0; Close 0; Open 1; Close 0; Open 2; Close 0; Open 0; Close 2])) = [1; 1; 2; 3].
Proof. vm_compute. split; reflexivity. Qed.

Example C05_isolated_inhabited :
  isolated (Call Reorder true [0; 1; 2; 3] [500; 501]) = true /\ isolated (Call (EvalName 2) true [0; 1; 2] [500]) = true
  /\ isolated (Call (Val2idxBounds 0) true [0; 1] [500]) = true
  /\ length (prog_of Reorder (var_src true) [0; 1; 2; 3]) = 8
  /\ run_actions nat [[1; 2]] (actions_of (impl_effs (Call Copy true [0] [500])) [[1; 2]; [7]] []) = ([[1; 2]; [1; 2]; [7]], [1; 2]).
Proof. vm_compute. repeat split; reflexivity. Qed.

Example C05_derived_inhabited :
  snd (drun [P (Open 0); P (Open 1); Derive 0; P (Close 0); Derive 1; P (Open 2); P (Close 1); P (Close 0)]) = [Some 0; Some 1]
  /\ reads (fst (drun [P (Open 0); P (Open 1); Derive 0; P (Close 0); Derive 1; P (Open 2); P (Close 1); P (Close 0)])) [0; 1; 2]
     = [Some 2; None; Some 2].   (* both sources are closed (object 0 remembers slot 1, now file 2's); the derived files still hold files 0 and 1 *)
Proof. vm_compute. split; reflexivity. Qed.
