(* C15 — format auto-detection depends only on the file, not on history.
   Property statements only.  Model: Model/Registry.v, describing the REPAIRED getreader
   (`_myreaders = list(_readers)`, fix C15-registry-alias; before the repair the suffix preference was inserted into
   the process-global registry and every statement below marked [+] was false — witnesses now live in corpus/C15/).
   `acc r f` (does reader r's isMine accept / reject / raise on file f) is universally quantified: the theorems
   hold for every accept relation, every registry, every history (induction over the history). *)
From PNC Require Import Base.Util Model.Registry Proofs.RegistryProofs.

(* [+] An open (auto-detected or named) never changes the registry ... *)
Theorem C15_getreader_pure : forall acc reg s, fst (impl_step acc reg s) = reg.
Proof. exact step_pure. Qed.
Print Assumptions C15_getreader_pure.

(* [+] ... so after ANY history, however often whatever was opened, the registry is the initial one, *)
Theorem C15_registry_unchanged : forall acc reg h, impl_final acc reg h = reg.
Proof. exact registry_unchanged. Qed.
Print Assumptions C15_registry_unchanged.

(* [+] every open of a history selects what a fresh process selects for the same path (FULL statement, first clause), *)
Theorem C15_history_independent : forall acc reg h,
  impl_results acc reg h = spec_results acc reg h.
Proof. exact history_independent. Qed.
Print Assumptions C15_history_independent.

(* [+] and any probe after any history behaves exactly as the same probe in a fresh process. *)
Theorem C15_probe_after_history : forall acc reg h s,
  impl_step acc (impl_final acc reg h) s = impl_step acc reg s.
Proof. exact probe_after_history. Qed.
Print Assumptions C15_probe_after_history.

(* the registry length observed after every step is constant *)
Theorem C15_registry_length_constant : forall acc reg h,
  map snd (snd (impl_run acc reg h)) = map (fun _ => length reg) h.
Proof. exact registry_length_steps. Qed.
Print Assumptions C15_registry_length_constant.

(* ---- second clause (auto-detected = explicitly named) ------------------------------------------------
   With a telling extension (suffix = the format's registered name, and that reader accepts the file) auto-detection
   selects exactly the named reader, after any history: full strength. *)
Theorem C15_telling_extension_selects_named : forall acc reg h e f r,
  lookup_last e reg = Some r -> acc r f = Yes ->
  snd (impl_step acc (impl_final acc reg h) (Auto e f)) = Selected r
  /\ snd (impl_step acc (impl_final acc reg h) (Named e f)) = Selected r.
Proof. exact telling_extension. Qed.
Print Assumptions C15_telling_extension_selects_named.

(* a file that exactly one registered class claims (and none chokes on) is detected as that class under any
   extension, after any history *)
Theorem C15_sole_claimant_any_history : forall acc reg h e f r,
  sole_claimant acc reg r f = true ->
  snd (impl_step acc (impl_final acc reg h) (Auto e f)) = Selected r.
Proof. exact sole_claimant_any_history. Qed.
Print Assumptions C15_sole_claimant_any_history.

(* PARTIAL (second clause): on the files that exactly one registered class claims, auto-detection under any suffix
   selects the reader registered under the format's name.  Missing: files that several registered classes claim —
   there registry order decides and the clause is false already in a fresh process (next theorem). *)
Theorem C15_auto_equals_named_partial : forall acc reg h e n f r,
  sole_claimant acc reg r f = true -> lookup_last n reg = Some r ->
  snd (impl_step acc (impl_final acc reg h) (Auto e f))
  = snd (impl_step acc (impl_final acc reg h) (Named n f)).
Proof. exact auto_equals_named_sole. Qed.
Print Assumptions C15_auto_equals_named_partial.

(* the named reader accepts the file, but another class registered earlier claims it too
   (humidity file -> vertical_diffusivity class; witness w_reg / w_acc in Proofs/RegistryProofs.v, vm_compute) *)
Theorem C15_auto_equals_named_refuted : exists acc reg n r f noext r',
  lookup_last n reg = Some r /\ acc r f = Yes
  /\ fresh_result acc reg (Named n f) = Selected r
  /\ fresh_result acc reg (Auto noext f) = Selected r' /\ r' <> r.
Proof. exact auto_equals_named_refuted. Qed.
Print Assumptions C15_auto_equals_named_refuted.

(* Non-vacuity: a history with telling-extension opens followed by extension-less probes of files that several
   readers claim (the pattern that used to fail) on the witness registry *)
Example C15_history_inhabited :
  impl_results w_acc w_reg [Auto 3 1; Auto 5 2; Auto 9 0; Auto 9 1; Auto 6 3; Auto 9 3; Named 1 0]
  = [Selected 2; Selected 4; Selected 0; Selected 0; Selected 6; Selected 5; Selected 1]
  /\ impl_final w_acc w_reg [Auto 3 1; Auto 5 2; Auto 9 0; Auto 9 1; Auto 6 3; Auto 9 3; Named 1 0] = w_reg.
Proof. vm_compute. split; reflexivity. Qed.

Example C15_sole_claimant_inhabited :
  sole_claimant (acc_of [(2, [(4, Yes)])]) [(0, 0); (5, 4); (3, 2)] 4 2 = true
  /\ lookup_last 5 [(0, 0); (5, 4); (3, 2)] = Some 4.
Proof. vm_compute. split; reflexivity. Qed.
