(* C15 — format auto-detection depends only on the file, not on history.
   Property statements only.  Model: Model/Registry.v
     impl_step / impl_run : the code (getreader inserts the suffix preference INTO the global registry),
     spec_step / spec_results : the repaired getreader (`_myreaders = list(_readers)`), i.e. what a fresh process does.
   `acc r f` (does reader r's isMine accept / reject / raise on file f) is universally quantified: the theorems
   hold for every accept relation, every registry, every history (induction over the history). *)
From PNC Require Import Base.Util Model.Registry Proofs.RegistryProofs.

(* ---- what the property demands holds for the REPAIRED getreader, at full strength: the registry is never
   changed, and the result of any open after any history equals the result in a fresh process. *)
Theorem C15_spec_history_independent : forall acc reg h s,
  spec_final acc reg h = reg
  /\ snd (spec_step acc (spec_final acc reg h) s) = snd (spec_step acc reg s).
Proof. exact spec_history_independent. Qed.
Print Assumptions C15_spec_history_independent.

(* ---- the code as it is: exact description of the state after ANY history: the pairs inserted by the
   auto-detected opens whose suffix is a registered name, newest first, in front of the initial registry. *)
Theorem C15_impl_registry_shape : forall acc reg h,
  impl_final acc reg h = rev (inserted reg h) ++ reg.
Proof. exact run_shape. Qed.
Print Assumptions C15_impl_registry_shape.

Theorem C15_registry_grows : forall acc reg h,
  length (impl_final acc reg h) = length reg + length (inserted reg h).
Proof. exact registry_grows. Qed.
Print Assumptions C15_registry_grows.

(* the SET of registered (name, reader) pairs never changes — only order and multiplicity do *)
Theorem C15_registry_set_preserved : forall acc reg h kr,
  In kr (impl_final acc reg h) <-> In kr reg.
Proof. exact registry_set_preserved. Qed.
Print Assumptions C15_registry_set_preserved.

(* opening with the format named explicitly is history independent even in the code as it is (full strength) *)
Theorem C15_named_history_independent : forall acc reg h n f,
  snd (impl_step acc (impl_final acc reg h) (Named n f)) = snd (impl_step acc reg (Named n f))
  /\ fst (impl_step acc (impl_final acc reg h) (Named n f)) = impl_final acc reg h.
Proof. exact named_step_history_independent. Qed.
Print Assumptions C15_named_history_independent.

(* ---- FULL statement for the code as it is: FALSE (witnesses: w_reg / w_acc in Proofs/RegistryProofs.v, a miniature
   of the real registry, evaluated by vm_compute).  After opening `x.nc`, an extension-less IOAPI file is
   handed to the plain netcdf reader instead of the reader a fresh process selects ... *)
Theorem C15_history_independent_refuted : exists acc reg h,
  impl_results acc reg h <> spec_results acc reg h.
Proof. exact history_independent_refuted. Qed.
Print Assumptions C15_history_independent_refuted.

(* ... and after opening a uamiv file, an extension-less netCDF file that a fresh process opens can no longer be
   opened at all (uamiv.isMine, now first, raises and getreader does not catch it). *)
Theorem C15_history_breaks_open_refuted : exists acc reg h r e,
  nth 1 (spec_results acc reg h) NoResult = Selected r
  /\ nth 1 (impl_results acc reg h) NoResult = Raised e.
Proof. exact history_breaks_open_refuted. Qed.
Print Assumptions C15_history_breaks_open_refuted.

(* the registry itself depends on how often a file was opened *)
Theorem C15_registry_unchanged_refuted : exists acc reg h, impl_final acc reg h <> reg.
Proof. exact registry_unchanged_refuted. Qed.
Print Assumptions C15_registry_unchanged_refuted.

(* ---- PARTIAL: the sub-domain on which the code as it is IS history independent.  `neutral acc reg h`
   (boolean, also computed by the correspondence as region 0): for every auto-detected open of the history,
   either its own suffix reader decides, or every reader preferred by an earlier open rejects the file or yields
   exactly the fresh result.  Missing: histories in which an earlier telling-extension open preferred a reader that
   claims (or chokes on) a later probed file — there the statement is false (refutations above). *)
Theorem C15_history_independent_partial : forall acc reg h,
  neutral acc reg h = true -> impl_results acc reg h = spec_results acc reg h.
Proof. exact run_neutral. Qed.
Print Assumptions C15_history_independent_partial.

(* a file that exactly one registered class claims (and none chokes on) is detected as that class under any
   extension, after ANY history, how often whatever was opened — full strength on the unambiguous files *)
Theorem C15_sole_claimant_any_history : forall acc reg h e f r,
  sole_claimant acc reg r f = true ->
  snd (impl_step acc (impl_final acc reg h) (Auto e f)) = Selected r.
Proof. exact sole_claimant_any_history. Qed.
Print Assumptions C15_sole_claimant_any_history.

(* ---- second clause (auto-detected = explicitly named).  With a telling extension (suffix = the format's
   registered name, and that reader accepts the file) auto-detection selects exactly the named reader, after any
   history: full strength. *)
Theorem C15_telling_extension_selects_named : forall acc reg h e f r,
  lookup_last e reg = Some r -> acc r f = Yes ->
  snd (impl_step acc (impl_final acc reg h) (Auto e f)) = Selected r
  /\ snd (impl_step acc reg (Named e f)) = Selected r.
Proof. exact telling_extension. Qed.
Print Assumptions C15_telling_extension_selects_named.

(* Without a telling extension the clause is FALSE already in a fresh process: the named reader accepts the file,
   but another class registered earlier claims it too (humidity file -> vertical_diffusivity class). *)
Theorem C15_auto_equals_named_refuted : exists acc reg n r f noext r',
  lookup_last n reg = Some r /\ acc r f = Yes
  /\ fresh_result acc reg (Named n f) = Selected r
  /\ fresh_result acc reg (Auto noext f) = Selected r' /\ r' <> r.
Proof. exact auto_equals_named_refuted. Qed.
Print Assumptions C15_auto_equals_named_refuted.

(* Non-vacuity: the hypotheses of the partial theorems are met by non-trivial histories on the witness registry
   (registry really changes; the probed file is claimed by several readers). *)
Example C15_neutral_inhabited :
  neutral w_acc w_reg [Auto 3 1; Auto 5 2; Auto 9 2; Auto 3 0; Named 1 0] = true
  /\ impl_final w_acc w_reg [Auto 3 1; Auto 5 2; Auto 9 2; Auto 3 0; Named 1 0] <> w_reg
  /\ impl_results w_acc w_reg [Auto 3 1; Auto 5 2; Auto 9 2; Auto 3 0; Named 1 0]
     = [Selected 2; Selected 4; Selected 4; Selected 2; Selected 1].
Proof. vm_compute. repeat split; try reflexivity. discriminate. Qed.

Example C15_sole_claimant_inhabited :
  sole_claimant (acc_of [(2, [(4, Yes)])]) [(0, 0); (5, 4); (3, 2)] 4 2 = true
  /\ lookup_last 5 w_reg = Some 4 /\ w_acc 4 2 = Yes.
Proof. vm_compute. repeat split; reflexivity. Qed.
