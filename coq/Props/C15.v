(* C15 — format auto-detection depends only on the file, not on history.
   Property statements only.  Model: Model/Registry.v, describing the REPAIRED getreader
   (`_myreaders = list(_readers)`, fix C15-registry-alias; before the repair the suffix preference was inserted into
   the process-global registry and every statement below marked [+] was false — witnesses now live in corpus/C15/).
   `acc r f` (does reader r's isMine accept / reject / raise on file f) is universally quantified: the theorems
   hold for every accept relation, every registry, every history (induction over the history). *)
From PNC Require Import Base.Util Model.Registry Gen.RegistrySrc Proofs.RegistryProofs.

(* [+] An open (auto-detected or named) never changes the registry ... *)
Theorem C15_getreader_pure : forall acc reg s, fst (impl_step acc reg s) = reg.
Proof. exact step_pure. Qed.
Print Assumptions C15_getreader_pure.

(* [+] ... so after ANY history, however often whatever was opened, the registry is the initial one, *)
Theorem C15_registry_unchanged : forall acc reg h, impl_final acc reg h = reg.
Proof. exact registry_unchanged. Qed.
Print Assumptions C15_registry_unchanged.

(* [+] every open of a history selects what a fresh process selects for the same path (FULL statement, first clause), *)
Theorem C15_history_independent : forall acc reg h,
  impl_results acc reg h = spec_results acc reg h.
Proof. exact history_independent. Qed.
Print Assumptions C15_history_independent.

(* [+] and any probe after any history behaves exactly as the same probe in a fresh process. *)
Theorem C15_probe_after_history : forall acc reg h s,
  impl_step acc (impl_final acc reg h) s = impl_step acc reg s.
Proof. exact probe_after_history. Qed.
Print Assumptions C15_probe_after_history.

(* the registry length observed after every step is constant *)
Theorem C15_registry_length_constant : forall acc reg h,
  map snd (snd (impl_run acc reg h)) = map (fun _ => length reg) h.
Proof. exact registry_length_steps. Qed.
Print Assumptions C15_registry_length_constant.

(* ---- second clause (auto-detected = explicitly named) ------------------------------------------------
   With a telling extension (suffix = the format's registered name, and that reader accepts the file) auto-detection
   selects exactly the named reader, after any history: full strength. *)
Theorem C15_telling_extension_selects_named : forall acc reg h e f r,
  lookup_last e reg = Some r -> acc r f = Yes ->
  snd (impl_step acc (impl_final acc reg h) (Auto e f)) = Selected r
  /\ snd (impl_step acc (impl_final acc reg h) (Named e f)) = Selected r.
Proof. exact telling_extension. Qed.
Print Assumptions C15_telling_extension_selects_named.

(* a file that exactly one registered class claims (and none chokes on) is detected as that class under any
   extension, after any history *)
Theorem C15_sole_claimant_any_history : forall acc reg h e f r,
  sole_claimant acc reg r f = true ->
  snd (impl_step acc (impl_final acc reg h) (Auto e f)) = Selected r.
Proof. exact sole_claimant_any_history. Qed.
Print Assumptions C15_sole_claimant_any_history.

(* PARTIAL (second clause): on the files that exactly one registered class claims, auto-detection under any suffix
   selects the reader registered under the format's name.  Missing: files that several registered classes claim —
   there registry order decides and the clause is false already in a fresh process (next theorem). *)
Theorem C15_auto_equals_named_partial : forall acc reg h e n f r,
  sole_claimant acc reg r f = true -> lookup_last n reg = Some r ->
  snd (impl_step acc (impl_final acc reg h) (Auto e f))
  = snd (impl_step acc (impl_final acc reg h) (Named n f)).
Proof. exact auto_equals_named_sole. Qed.
Print Assumptions C15_auto_equals_named_partial.

(* the named reader accepts the file, but another class registered earlier claims it too
   (humidity file -> vertical_diffusivity class; witness w_reg / w_acc in Proofs/RegistryProofs.v, vm_compute) *)
Theorem C15_auto_equals_named_refuted : exists acc reg n r f noext r',
  lookup_last n reg = Some r /\ acc r f = Yes
  /\ fresh_result acc reg (Named n f) = Selected r
  /\ fresh_result acc reg (Auto noext f) = Selected r' /\ r' <> r.
Proof. exact auto_equals_named_refuted. Qed.
Print Assumptions C15_auto_equals_named_refuted.

(* ---- tie T: Gen/RegistrySrc.v src_getreader is re-read from _getreader.py on every run (alias or private copy, the
   position of the suffix preference, dict(_readers), getreaderdict()[format], registerreader's guard and position).
   The step and the registration the SOURCE describes are the model's: an edit of any of those decisions changes the
   left-hand side and these two statements stop checking. *)
Theorem C15_source_is_model : forall acc reg s, generic_step src_getreader acc reg s = impl_step acc reg s.
Proof. exact source_is_model. Qed.
Print Assumptions C15_source_is_model.

Theorem C15_source_register_is_model : forall reg n r, generic_register src_getreader reg n r = impl_register reg n r.
Proof. exact source_register_is_model. Qed.
Print Assumptions C15_source_register_is_model.

(* ---- "first reader whose isMine() accepts wins", as a relation, for every list: the loop returns reader r exactly when
   some pair carrying r is preceded only by rejecting readers and r accepts; it lets exception e escape exactly when the
   first non-rejecting reader raises e. *)
Theorem C15_first_accepting_selected : forall (a : reader -> outcome) r l,
  first_accepting a l = Selected r <->
  exists pre k post, l = pre ++ (k, r) :: post /\ (forall kr, In kr pre -> a (snd kr) = No) /\ a r = Yes.
Proof. exact first_accepting_selected. Qed.
Print Assumptions C15_first_accepting_selected.

Theorem C15_first_accepting_raised : forall (a : reader -> outcome) e l,
  first_accepting a l = Raised e <->
  exists pre k r post, l = pre ++ (k, r) :: post /\ (forall kr, In kr pre -> a (snd kr) = No) /\ a r = Raise e.
Proof. exact first_accepting_raised. Qed.
Print Assumptions C15_first_accepting_raised.

(* second clause, EXACT (replaces the search for a larger sufficient domain): after any history, auto-detection under
   suffix e selects the reader registered under format name n if and only if that reader is the first claimant of
   (suffix preference :: registry).  With the measured accept matrix this says for which shipped formats the clause can
   hold: see the overlap table in harness/props/c15.py OVERLAPS. *)
Theorem C15_auto_is_named_iff : forall acc reg h e n f r,
  lookup_last n reg = Some r ->
  (snd (impl_step acc (impl_final acc reg h) (Auto e f)) = snd (impl_step acc (impl_final acc reg h) (Named n f))
   <-> exists pre k post, prefer reg e = pre ++ (k, r) :: post
                          /\ (forall kr, In kr pre -> acc (snd kr) f = No) /\ acc r f = Yes).
Proof. exact auto_is_named_iff. Qed.
Print Assumptions C15_auto_is_named_iff.

(* ---- registration ("the set of registered readers"; class creation registers readers) ------------------------
   registerreader never changes what an already registered name means, a new name gets the new reader, names stay
   distinct (so dict(_readers) loses nothing: first and last lookup agree), registering twice is registering once. *)
Theorem C15_register_keeps_known_names : forall reg n r m,
  lookup_last m reg <> None \/ m <> n -> lookup_last m (impl_register reg n r) = lookup_last m reg.
Proof. exact register_keeps_lookup. Qed.
Print Assumptions C15_register_keeps_known_names.

Theorem C15_register_new_name : forall reg n r, known n reg = false -> lookup_last n (impl_register reg n r) = Some r.
Proof. exact register_new_name. Qed.
Print Assumptions C15_register_new_name.

Theorem C15_register_names_distinct : forall reg s l c,
  nodup_names reg = true -> nodup_names (impl_class_created reg s l c) = true.
Proof. exact class_created_nodup. Qed.
Print Assumptions C15_register_names_distinct.

Theorem C15_distinct_names_dict_is_list : forall reg n,
  nodup_names reg = true -> lookup_last n reg = lookup_first n reg.
Proof. exact nodup_lookup_first_last. Qed.
Print Assumptions C15_distinct_names_dict_is_list.

Theorem C15_register_idempotent : forall reg n r r', impl_register (impl_register reg n r) n r' = impl_register reg n r.
Proof. exact register_idempotent. Qed.
Print Assumptions C15_register_idempotent.

(* Non-vacuity: a history with telling-extension opens followed by extension-less probes of files that several
   readers claim (the pattern that used to fail) on the witness registry *)
Example C15_history_inhabited :
  impl_results w_acc w_reg [Auto 3 1; Auto 5 2; Auto 9 0; Auto 9 1; Auto 6 3; Auto 9 3; Named 1 0]
  = [Selected 2; Selected 4; Selected 0; Selected 0; Selected 6; Selected 5; Selected 1]
  /\ impl_final w_acc w_reg [Auto 3 1; Auto 5 2; Auto 9 0; Auto 9 1; Auto 6 3; Auto 9 3; Named 1 0] = w_reg.
Proof. vm_compute. split; reflexivity. Qed.

Example C15_sole_claimant_inhabited :
  sole_claimant (acc_of [(2, [(4, Yes)])]) [(0, 0); (5, 4); (3, 2)] 4 2 = true
  /\ lookup_last 5 [(0, 0); (5, 4); (3, 2)] = Some 4.
Proof. vm_compute. split; reflexivity. Qed.

Example C15_registration_inhabited :
  impl_class_created (impl_class_created [(4, 3)] 2 12 2) 3 13 2 = [(13, 2); (3, 2); (12, 2); (2, 2); (4, 3)]
  /\ impl_class_created [(13, 2); (3, 2); (12, 2); (2, 2); (4, 3)] 3 14 7 = [(14, 7); (13, 2); (3, 2); (12, 2); (2, 2); (4, 3)]
  /\ nodup_names w_reg = true
  /\ generic_step (GSrc false 0 true true 0 true) w_acc w_reg (Auto 3 1) <> impl_step w_acc w_reg (Auto 3 1).
Proof. vm_compute. repeat split; try reflexivity. discriminate. Qed.
