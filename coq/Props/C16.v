(* C16 — value-to-index lookup (PseudoNetCDFFile.val2idx, core/_files.py) as REPAIRED by
   fixes/C16-val2idx-{no-inplace-edges,descending,top-edge,scalar-exact}.patch.
   Property statements only.  Model: Model/Val2idx.v, exact integers in a dyadic unit
   (half units on the "no bounds variable + method='bounds'" path).
   cell_one m clean lnan rnan dsc dimvals dimevals x = the cell val2idx reports for one query
   value x (dsc = the direction the code detected);  impl_val2idx = the whole call (options,
   edge derivation, direction test, warning / ValueError, coordinate after the call).
   mono dsc l = strictly descending (dsc = true) or strictly ascending (dsc = false);
   lo_of / hi_of = the smallest / largest element of such a list.
   All theorems hold for BOTH directions, all lengths, all spacings, all query values.
   Binary64 rounding of the fractional index within a few ulp of an edge is outside this exact
   model (former finding C16-float-edge, repaired by faed7f7; the float stream is decided by the rational oracle of the harness). *)
From PNC Require Import Base.Util Gen.Val2idxSrc Model.Val2idx Proofs.Val2idxProofs.
Local Open Scope Z_scope.

(* cell_gen bs / impl_val2idx_gen bs: bs says how the bounds path finds the cell inside the domain —
   false: truncating the interpolated index; true: comparing with the edges (searchsorted,
   fixes/C16-val2idx-bounds-exact-cell.patch).  Which one the code does is regenerated from the source
   on every run (Gen/Val2idxSrc.v, tie T); every theorem below holds for BOTH. *)
Theorem C16_model_follows_source : impl_val2idx = impl_val2idx_gen Gen.Val2idxSrc.bounds_by_search.
Proof. reflexivity. Qed.
Print Assumptions C16_model_follows_source.

(* 'nearest': the reported index is valid and no coordinate value is closer.  The only other
   outcomes concern values outside the coordinate range on a side whose fill is nan: masked
   (clean='mask') or the nan->int cast (clean='none'), never a cell index. *)
Theorem C16_nearest_correct : forall bs dsc cm lnan rnan cs de x,
  mono dsc cs = true -> cs <> [] ->
  match cell_gen bs MNearest cm lnan rnan dsc cs de x with
  | Idx i => nearest_ok cs x i = true
             \/ (i = INT_MIN /\ cm <> CMask /\ nan_out lnan rnan (lo_of dsc cs) (hi_of dsc cs) x)
  | Masked => cm = CMask /\ nan_out lnan rnan (lo_of dsc cs) (hi_of dsc cs) x
  end.
Proof. exact nearest_gen. Qed.
Print Assumptions C16_nearest_correct.

(* 'bounds', edge list es (n+1 edges for n cells) in either direction, EVERY query value incl.
   both outer edges: the reported cell's edges contain the value; a value below / above the
   domain is clamped to the cell at that end only when left / right = None, masked when the
   fill is nan and clean='mask', and is otherwise the nan->int cast (never a cell index). *)
Theorem C16_bounds_correct : forall bs dsc cm lnan rnan dv es x,
  mono dsc es = true -> length es = S (length dv) -> (0 < length dv)%nat ->
  match cell_gen bs MBounds cm lnan rnan dsc dv es x with
  | Idx i => contains (pairs es) x i = true
       \/ (x < lo_of dsc es /\ lnan = false /\ i = (if dsc then lenZ dv - 1 else 0))
       \/ (hi_of dsc es < x /\ rnan = false /\ i = (if dsc then 0 else lenZ dv - 1))
       \/ (i = INT_MIN /\ cm <> CMask /\ nan_out lnan rnan (lo_of dsc es) (hi_of dsc es) x)
  | Masked => cm = CMask /\ nan_out lnan rnan (lo_of dsc es) (hi_of dsc es) x
  end.
Proof. exact bounds_gen. Qed.
Print Assumptions C16_bounds_correct.

(* 'exact': an index is reported iff the value equals that coordinate value, everything else
   is masked (scalar or array val alike) *)
Theorem C16_exact_correct : forall bs dsc cm lnan rnan cs de x,
  mono dsc cs = true -> cs <> [] ->
  match cell_gen bs MExact cm lnan rnan dsc cs de x with
  | Idx i => exact_ok cs x i = true
  | Masked => memZ x cs = false
  end.
Proof. exact exact_gen. Qed.
Print Assumptions C16_exact_correct.

(* The whole call on a monotonic edge/coordinate list: every element of the result is the
   per-value cell of the three theorems above; the out-of-bounds warning is issued iff
   bounds='warn' and some value lies outside [smallest edge, largest edge]; ValueError is raised
   iff bounds='error' and some value lies outside; nothing else is raised. *)
Theorem C16_out_of_range_warned_or_rejected : forall bs c xs s dv de dsc,
  bad_opts c = false -> prep c = inr (s, dv, de) -> mono dsc de = true -> (2 <= length de)%nat ->
  let xs' := map (Z.mul s) xs in
  let cells := map (cell_gen bs (c_m c) (c_c c) (c_lnan c) (c_rnan c) dsc dv de) xs' in
  let out := existsb (fun x => (x <? lo_of dsc de) || (hi_of dsc de <? x)) xs' in
  impl_val2idx_gen bs c xs =
  match c_b c with
  | BError => if out then Raised EOutOfBounds else Done cells false dv
  | BWarn => Done cells out dv
  | _ => Done cells false dv
  end.
Proof. exact impl_form. Qed.
Print Assumptions C16_out_of_range_warned_or_rejected.

(* a lookup never changes the coordinate variable (any options, any input) *)
Theorem C16_coordinate_unchanged : forall bs c xs r w co,
  impl_val2idx_gen bs c xs = Done r w co -> co = map (Z.mul (scale_of c)) (c_cs c).
Proof. exact coord_unchanged. Qed.
Print Assumptions C16_coordinate_unchanged.

(* the n x 2 representation with contiguous rows denotes exactly its rows as cells *)
Theorem C16_rows_are_cells : forall rs, rs <> [] -> contig rs = true ->
  pairs (map fst rs ++ [snd (last rs (0, 0))]) = rs.
Proof. exact pairs_rows. Qed.
Print Assumptions C16_rows_are_cells.

(* without bounds variable the derived edges are the midpoints between neighbouring centres
   with the outer edges extended by half a spacing (uniform spacing) or equal to the end
   centres (non-uniform) — for every coordinate with >= 2 values, integer or float (half units) *)
Theorem C16_derived_edges_natural : forall cs, (2 <= length cs)%nat ->
  derive_edges cs = inr (map (Z.mul 2) cs, natural_edges cs).
Proof. exact derive_natural. Qed.
Print Assumptions C16_derived_edges_natural.

(* ---- non-vacuity, incl. the former failing inputs (now correct) ------------------------------ *)
Example C16_hyp_inhabited :
  mono false [-7; -1; 4; 40] = true /\ mono true [58; 22; 1; -4; -10] = true
  /\ cell_one MNearest CMask false false false [-7; -1; 4; 40] [] 21 = Idx 2
  /\ cell_one MNearest CMask false false false [-7; -1; 4; 40] [] 23 = Idx 3
  /\ cell_one MBounds CMask true true false [-7; -1; 4; 40] [-10; -4; 1; 22; 58] 21 = Idx 2
  /\ cell_one MBounds CMask true true false [-7; -1; 4; 40] [-10; -4; 1; 22; 58] 59 = Masked
  /\ cell_one MBounds CMask true true true [40; 4; -1; -7] [58; 22; 1; -4; -10] 21 = Idx 1
  /\ cell_one MExact CMask false false true [40; 4; -1; -7] [] 4 = Idx 1
  /\ cell_one MExact CMask false false false [-7; -1; 4; 40] [] 5 = Masked
  /\ cell_gen true MBounds CMask true true false [-7; -1; 4; 40] [-10; -4; 1; 22; 58] 21 = Idx 2
  /\ cell_gen true MBounds CMask true true true [40; 4; -1; -7] [58; 22; 1; -4; -10] 22 = Idx 0
  /\ cell_gen false MBounds CMask true true true [40; 4; -1; -7] [58; 22; 1; -4; -10] 22 = Idx 1
  /\ cell_gen true MBounds CMask true true false [-7; -1; 4; 40] [-10; -4; 1; 22; 58] 58 = Idx 3
  /\ dom0 (Cfg MBounds BWarn CMask false false [-7; -1; 4; 40] (Rows [(-10, -4); (-4, 1); (1, 22); (22, 58)])) = true
  /\ impl_val2idx (Cfg MBounds BWarn CMask false false [-7; -1; 4; 40] (Rows [(-10, -4); (-4, 1); (1, 22); (22, 58)])) [0; 58; 60]
     = Done [Idx 1; Idx 3; Idx 3] true [-7; -1; 4; 40]
  (* descending [40,30,20,10]: 31 -> 1, 12 -> 3 *)
  /\ impl_val2idx (Cfg MNearest BIgnore CMask false false [40; 30; 20; 10] NoBounds) [31; 12]
     = Done [Idx 1; Idx 3] false [40; 30; 20; 10]
  (* derived edges of [10,20,30,40]: 36 and 39 -> cell 3, coordinate untouched (half units) *)
  /\ impl_val2idx (Cfg MBounds BIgnore CMask false false [10; 20; 30; 40] NoBounds) [36; 39]
     = Done [Idx 3; Idx 3] false [20; 40; 60; 80]
  (* top edge with right=nan -> last cell *)
  /\ impl_val2idx (Cfg MBounds BIgnore CMask true true [10; 20; 30; 40] (Edges [5; 15; 25; 35; 45])) [45]
     = Done [Idx 3] false [10; 20; 30; 40]
  (* exact on a value that is not a coordinate value -> masked *)
  /\ impl_val2idx (Cfg MExact BIgnore CMask false false [10; 20; 30; 40] NoBounds) [25]
     = Done [Masked] false [10; 20; 30; 40].
Proof. vm_compute. repeat split; reflexivity. Qed.
