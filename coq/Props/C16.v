(* C16 — value-to-index lookup (PseudoNetCDFFile.val2idx, core/_files.py).
   Property statements only.  Model: Model/Val2idx.v, exact integers in a dyadic unit
   (half units on the "no bounds variable + method='bounds'" path).
   cell_one m clean lnan rnan descending dimvals dimevals x  = the cell val2idx reports for one
   query value x;  impl_val2idx = the whole call (options, edge derivation, direction test,
   warning / ValueError, coordinate after the call).
   Ascending coordinates: proved for ALL lengths, spacings (uniform or not) and query values.
   Descending coordinates, derived edges of a uniformly spaced coordinate, the top edge with
   right=nan and scalar 'exact' lookups: the faithful model FALSIFIES the statement (witnesses
   below, replayed on the library = known findings). *)
From PNC Require Import Base.Util Model.Val2idx Proofs.Val2idxProofs.
Local Open Scope Z_scope.

(* 'nearest', ascending coordinate of any length >= 1, any bounds representation (de is not
   used by this method), every query value: the reported index is valid and no coordinate
   value is closer; the only other outcomes concern values outside the coordinate range with
   nan fill requested: masked (clean='mask') or the nan->int cast (clean='none').
   _partial: ascending only (descending is refuted below). *)
Theorem C16_nearest_correct_asc_partial : forall cm lnan rnan cs de x,
  asc cs = true -> cs <> [] ->
  match cell_one MNearest cm lnan rnan false cs de x with
  | Idx i => nearest_ok cs x i = true
             \/ (i = INT_MIN /\ cm <> CMask /\ nan_out lnan rnan (hd 0 cs) (last cs 0) x)
  | Masked => cm = CMask /\ nan_out lnan rnan (hd 0 cs) (last cs 0) x
  end.
Proof. exact nearest_asc. Qed.
Print Assumptions C16_nearest_correct_asc_partial.

(* 'bounds', ascending edge list es (n+1 edges for n cells), every query value except the top
   edge when right=nan: the reported cell's edges contain the value; a value below/above the
   domain is clamped to the first/last cell only when left/right=None, masked when nan fill
   and clean='mask', and otherwise is the nan->int cast (never a cell index). *)
Theorem C16_bounds_correct_asc_partial : forall cm lnan rnan dv es x,
  asc es = true -> length es = S (length dv) -> (0 < length dv)%nat ->
  (rnan = true -> x <> last es 0) ->
  match cell_one MBounds cm lnan rnan false dv es x with
  | Idx i => contains (pairs es) x i = true
       \/ (x < hd 0 es /\ lnan = false /\ i = 0)
       \/ (last es 0 < x /\ rnan = false /\ i = lenZ dv - 1)
       \/ (i = INT_MIN /\ cm <> CMask /\ nan_out lnan rnan (hd 0 es) (last es 0) x)
  | Masked => cm = CMask /\ nan_out lnan rnan (hd 0 es) (last es 0) x
  end.
Proof. exact bounds_asc. Qed.
Print Assumptions C16_bounds_correct_asc_partial.

(* 'exact', ascending coordinate: an index is reported iff the value equals that coordinate
   value, everything else is masked (for array-valued val). *)
Theorem C16_exact_correct_asc_partial : forall cm lnan rnan cs de x,
  asc cs = true -> cs <> [] ->
  match cell_one MExact cm lnan rnan false cs de x with
  | Idx i => exact_ok cs x i = true
  | Masked => memZ x cs = false
  end.
Proof. exact exact_asc. Qed.
Print Assumptions C16_exact_correct_asc_partial.

(* The whole call on an ascending edge/coordinate list: every element of the result is the
   per-value cell of the three theorems above; the out-of-bounds warning is issued iff
   bounds='warn' and some value lies outside [first edge, last edge]; ValueError is raised iff
   bounds='error' and some value lies outside; nothing else is raised. *)
Theorem C16_out_of_range_warned_or_rejected : forall c xs s dv de,
  bad_opts c = false -> prep c = inr (s, dv, de) -> asc de = true -> (2 <= length de)%nat ->
  c_scalar c = false ->
  let xs' := map (Z.mul s) xs in
  let cells := map (cell_one (c_m c) (c_c c) (c_lnan c) (c_rnan c) false dv de) xs' in
  let out := existsb (is_out de) xs' in
  impl_val2idx c xs =
  match c_b c with
  | BError => if out then Raised EOutOfBounds else Done cells false dv
  | BWarn => Done cells out dv
  | _ => Done cells false dv
  end.
Proof. exact impl_asc_form. Qed.
Print Assumptions C16_out_of_range_warned_or_rejected.

(* the n x 2 representation with contiguous rows denotes exactly its rows as cells *)
Theorem C16_rows_are_cells : forall rs, rs <> [] -> contig rs = true ->
  pairs (map fst rs ++ [snd (last rs (0, 0))]) = rs.
Proof. exact pairs_rows. Qed.
Print Assumptions C16_rows_are_cells.

(* without bounds variable and non-uniform spacing the derived edges are the midpoints with
   the end centres as outer edges (half units), and the coordinate is left unchanged *)
Theorem C16_derived_edges_nonuniform : forall isint cs,
  uniform (diffs cs) = false ->
  derive_edges isint cs = inr (map (Z.mul 2) cs, natural_edges cs).
Proof. exact derive_nonuniform. Qed.
Print Assumptions C16_derived_edges_nonuniform.

(* ---- refutations (faithful model; each witness replays on the library) ------------------ *)

(* descending coordinate [40,30,20,10]: 31 and 12 are reported at index 0 *)
Theorem C16_descending_refuted : exists c xs r w co,
  dom0 c = false /\ region_desc c = true /\ desc (c_cs c) = true
  /\ impl_val2idx c xs = Done r w co /\ spec_outcome c xs (Done r w co) = false.
Proof.
  exists (Cfg MNearest BIgnore CMask false false false false [40; 30; 20; 10] NoBounds), [31; 12].
  eexists; eexists; eexists. vm_compute. repeat split; reflexivity.
Qed.
Print Assumptions C16_descending_refuted.

(* in general: with the descending branch every value above the smallest coordinate value
   is reported at index 0, whatever the coordinate *)
Theorem C16_descending_collapses : forall cm cs de x,
  cs <> [] -> last cs 0 < x ->
  cell_one MNearest cm false false true cs de x = Idx 0.
Proof.
  intros cm cs de x Hne H. rewrite desc_collapses by auto. f_equal.
  apply last_rev_zseq. destruct cs; [congruence | cbn; lia].
Qed.
Print Assumptions C16_descending_collapses.

(* no bounds variable, method='bounds', uniform spacing [10,20,30,40]: 36 and 39 lie in cell
   3 = [35,45] but are reported in cell 2 (derived edges [5,15,25,40,45]) *)
Theorem C16_derived_edges_refuted : exists c xs r w co,
  region_desc c = false /\ region_alias c = true
  /\ impl_val2idx c xs = Done r w co /\ spec_outcome c xs (Done r w co) = false.
Proof.
  exists (Cfg MBounds BIgnore CMask false false false false [10; 20; 30; 40] NoBounds), [36; 39].
  eexists; eexists; eexists. vm_compute. repeat split; reflexivity.
Qed.
Print Assumptions C16_derived_edges_refuted.

(* ... and the call changes the coordinate variable itself: [10,20,30,40] -> [5,20,30,45]
   (half units: [10,40,60,90]); an integer coordinate raises instead *)
Theorem C16_derived_edges_mutates_coordinate :
  (exists r w, impl_val2idx (Cfg MBounds BIgnore CMask false false false false [10; 20; 30; 40] NoBounds) [12]
               = Done r w [10; 40; 60; 90])
  /\ impl_val2idx (Cfg MBounds BIgnore CMask false false true false [10; 20; 30; 40] NoBounds) [12]
     = Raised ECast.
Proof. split; [eexists; eexists|]; vm_compute; reflexivity. Qed.
Print Assumptions C16_derived_edges_mutates_coordinate.

(* top edge with right=nan: index n of an n-cell coordinate *)
Theorem C16_top_edge_refuted : exists c xs r w co,
  dom0 c = true /\ region_top c xs = true
  /\ impl_val2idx c xs = Done r w co /\ r = [Idx (lenZ (c_cs c))]
  /\ spec_outcome c xs (Done r w co) = false.
Proof.
  exists (Cfg MBounds BIgnore CMask true true false false [10; 20; 30; 40] (Edges [5; 15; 25; 35; 45])), [45].
  eexists; eexists; eexists. vm_compute. repeat split; reflexivity.
Qed.
Print Assumptions C16_top_edge_refuted.

(* scalar val, method='exact', value not a coordinate value: TypeError instead of masked *)
Theorem C16_scalar_exact_refuted : exists c xs,
  dom0 c = true /\ region_scalar c xs = true /\ impl_val2idx c xs = Raised ETypeErr
  /\ spec_outcome c xs (impl_val2idx c xs) = false.
Proof.
  exists (Cfg MExact BIgnore CMask false false false true [10; 20; 30; 40] NoBounds), [25].
  vm_compute. repeat split; reflexivity.
Qed.
Print Assumptions C16_scalar_exact_refuted.

(* ---- non-vacuity ---------------------------------------------------------------------- *)
Example C16_hyp_inhabited :
  asc [-7; -1; 4; 40] = true /\ asc [-10; -4; 1; 22; 58] = true
  /\ cell_one MNearest CMask false false false [-7; -1; 4; 40] [] 21 = Idx 2
  /\ cell_one MNearest CMask false false false [-7; -1; 4; 40] [] 23 = Idx 3
  /\ cell_one MBounds CMask true true false [-7; -1; 4; 40] [-10; -4; 1; 22; 58] 21 = Idx 2
  /\ cell_one MBounds CMask true true false [-7; -1; 4; 40] [-10; -4; 1; 22; 58] 59 = Masked
  /\ cell_one MExact CMask false false false [-7; -1; 4; 40] [] 4 = Idx 2
  /\ cell_one MExact CMask false false false [-7; -1; 4; 40] [] 5 = Masked
  /\ dom0 (Cfg MBounds BWarn CMask false false false false [-7; -1; 4; 40] (Rows [(-10, -4); (-4, 1); (1, 22); (22, 58)])) = true
  /\ impl_val2idx (Cfg MBounds BWarn CMask false false false false [-7; -1; 4; 40] (Rows [(-10, -4); (-4, 1); (1, 22); (22, 58)])) [0; 58; 60]
     = Done [Idx 1; Idx 3; Idx 3] true [-7; -1; 4; 40]
  /\ uniform (diffs [-7; -1; 4; 40]) = false.
Proof. vm_compute. repeat split; reflexivity. Qed.
