(* C07 — saving to netCDF and reopening reproduces the file.  Statements only.
   Model: Model/Persist.v = the decisions of Pseudo2NetCDF.convert (dimension creation, attribute
   filter, fill-value choice, value written into masked cells) composed with an ASSUMED read-back
   behaviour of netCDF-C / netCDF4-python (identity on the disk image; cells equal to _FillValue or
   missing_value masked; unlimited dimensions as long as what was written).  That assumption is part
   of the model (load_cells, conv_dim), is exercised by the correspondence on all four flavours, and
   is NOT verified here.  The model has two stages: impl_convert (what PseudoNetCDF asks netCDF to write:
   verified against the raw file content read with auto-masking switched off) and nc_load (the assumed
   reader).  Theorems named `_partial` depend on nc_load; C07_written_cells, C07_dimension_request,
   C07_fill_precedence, C07_masked_any_fill, C07_attrs_kept are about stage 1 alone. *)
From PNC Require Import Base.Util Model.Persist Proofs.PersistProofs.
Local Open Scope Z_scope.

(* Whole file, any number of dimensions / attributes / variables / cells: on the boolean domain
   (every unlimited dimension is used by a variable; no attribute key is hidden by the filter; a
   variable with masked cells has some fill value; no unmasked cell equals the fill value in effect)
   save followed by open returns the same dimensions (names, order, lengths, unlimited flag), the
   same attributes, the same variables (names, order, dtype, dimensions) and the same cells and mask. *)
Theorem C07_save_open_partial : forall dflt f,
  dom f = true -> impl_save_open dflt f = spec_save_open f.
Proof. exact save_open_id. Qed.
Print Assumptions C07_save_open_partial.

(* cells of one variable: masked stay masked, values identical, for every length *)
Theorem C07_cells_partial : forall fill mv d cells,
  (has_masked cells = false \/ opt_is fill d || opt_is mv d = true) ->
  cells_ok fill mv cells = true ->
  load_cells fill mv (store_cells d cells) = cells.
Proof. exact load_store_cells. Qed.
Print Assumptions C07_cells_partial.

(* ---- stage 1 alone: statements about PseudoNetCDF's own decisions, with NO assumption on netCDF ---- *)

(* for every variable that has any fill value: the array handed to netCDF holds the input value at every
   unmasked position and the value declared as _FillValue at every masked position (all shapes) *)
Theorem C07_written_cells : forall dflt v c,
  chosen_fill v = Some c ->
  Forall2 (fun cell x => match cell with Some y => x = y | None => x = c end) (p_cells v) (i_raw (convert_var dflt v)).
Proof. exact convert_raw_cells. Qed.
Print Assumptions C07_written_cells.

(* a dimension is created with size None exactly when it is unlimited *)
Theorem C07_dimension_request : forall vs d,
  id_size (convert_dim vs d) = (if d_unlim d then None else Some (d_len d)).
Proof. exact convert_dim_request. Qed.
Print Assumptions C07_dimension_request.

(* fill value choice: missing_value > fill_value > (masked array fill) > _FillValue *)
Theorem C07_fill_precedence : forall v,
  (forall m, p_mv v = Some m -> chosen_fill v = Some m)
  /\ (forall f, p_mv v = None -> p_fv v = Some f -> chosen_fill v = Some f)
  /\ (p_mv v = None -> p_fv v = None -> p_masked v = true -> chosen_fill v = Some (p_mafill v))
  /\ (p_mv v = None -> p_fv v = None -> p_masked v = false -> chosen_fill v = p_hid v).
Proof. exact fill_precedence. Qed.
Print Assumptions C07_fill_precedence.

(* attributes: nothing is dropped or reordered when no key starts with '_' or is reserved; booleans become integers *)
Theorem C07_attrs_kept : forall ign l,
  forallb (fun kv => key_ok ign (fst kv)) l = true -> conv_attrs ign l = spec_attrs l.
Proof. exact conv_attrs_id. Qed.
Print Assumptions C07_attrs_kept.

(* "masked variables with any fill value": whatever missing_value, fill_value, the array's own fill and
   _FillValue are, the value written into masked cells is the one declared as _FillValue on disk, so
   the reader masks it (repaired addVariableData; before, missing_value <> fill_value lost every mask) *)
Theorem C07_masked_any_fill : forall dflt v c,
  chosen_fill v = Some c -> fill_consistent dflt v = true.
Proof. exact fill_always_consistent. Qed.
Print Assumptions C07_masked_any_fill.

(* an unlimited dimension that no variable uses comes back with length 0 *)
Theorem C07_unlimited_unused_refuted : exists f,
  region_of f = 1%nat /\ n_dims (impl_save_open 0 f) <> pf_dims f
  /\ map d_len (n_dims (impl_save_open 0 f)) = [3; 0].
Proof. exists w_unlim. split; [reflexivity|]. vm_compute. split; [discriminate|reflexivity]. Qed.
Print Assumptions C07_unlimited_unused_refuted.

(* An unmasked cell equal to the variable's DECLARED fill value is outside the property's domain
   (in_quant): by the netCDF convention that value means "missing".  Not so for a variable WITHOUT any
   fill attribute: a cell equal to the netCDF default fill value of its type
   (255 in an unsigned byte variable) comes back masked *)
Theorem C07_default_fill_refuted : exists f,
  in_quant f = true /\ region_of f = 2%nat /\ impl_save_open 0 f <> spec_save_open f
  /\ map v_cells (n_vars (impl_save_open 0 f)) = [[Some 7; None]].
Proof. exists w_default_fill. split; [reflexivity|]. split; [reflexivity|]. vm_compute. split; [discriminate|reflexivity]. Qed.
Print Assumptions C07_default_fill_refuted.

(* non-vacuity: an unlimited dimension, boolean / string / integer attributes, a masked 2-D variable
   without any fill attribute and a scalar variable are inside the domain *)
Example C07_domain_inhabited :
  dom w_good = true /\ in_quant w_good = true /\ has_masked (p_cells w_var_ok) = true
  /\ n_gattrs (impl_save_open 0 w_good) <> pf_gattrs w_good.
Proof. vm_compute. repeat split; try reflexivity; discriminate. Qed.

(* the repaired case: missing_value = -999 and fill_value = -5 on a masked 2-D variable *)
Example C07_fill_conflict_repaired :
  dom w_conflict = true /\ impl_save_open 0 w_conflict = spec_save_open w_conflict.
Proof. vm_compute. split; reflexivity. Qed.
