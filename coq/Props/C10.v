(* C10 — IOAPI metadata stays coherent under every operation.
   Property statements only; every proof is `exact <lemma>` or a vm_compute witness.
   Model: Model/Ioapi.v (structure-level state = the redundant encodings: NVARS, VAR-LIST, VAR dimension,
   TFLAG.shape[1] and TFLAG[:,0,:], the variables with the standard dimensions, NLAYS NROWS NCOLS vs. LAY ROW COL,
   len(VGLVLS), SDATE STIME TSTEP).  coherentb = the conjunction of the statement (plus "at least one variable slot",
   without which TFLAG[0,0,:] does not exist, and "TSTEP unlimited", the IOAPI clause of C01).
   iop_region: 0 = proved domain, 1 = reducer along TSTEP over more than one step, 2 = subsetVariables selecting no
   listed variable or a zipped two-list selection, 3 = a standard variable missing from VAR-LIST (never produced by the library's own constructors).
   The model describes the code AS REPAIRED by fixes/C10-renameVariable-varlist.patch and fixes/C10-apply-vglvls.patch:
   renameVariable and functions along LAY need no side condition any more. *)
From PNC Require Import Base.Util Model.FileStruct Model.Ioapi Proofs.IoapiProofs.
Local Open Scope Z_scope.

(* One step of ANY modelled operation — copy, subsetVariables, renameVariable (also onto an existing variable), sliceDimensions,
   applyAlongDimensions, eval, mask, stack, interpSigma: the full operation set named in the property, plus deleting a variable
   followed by updatemeta() — from ANY coherent file (any numbers of
   steps/layers/rows/columns/variables, gridded or boundary), inside region 0: if it completes, the result is coherent.
   PARTIAL only because of the known-defect regions (reducers along TSTEP, an empty subset) and region 3 (a standard
   variable missing from VAR-LIST, never produced by the library's constructors). *)
Theorem C10_step_coherent_partial : forall f o g,
  coherentb f = true -> iop_region f o = 0%nat -> istep f o = Ok g -> coherentb g = true.
Proof. exact istep_coherent. Qed.
Print Assumptions C10_step_coherent_partial.

(* Sequences of any length (induction over the sequence) *)
Theorem C10_run_coherent_partial : forall ops f g,
  coherentb f = true -> irun_region f ops = 0%nat -> irun f ops = Ok g -> coherentb g = true.
Proof. exact irun_coherent. Qed.
Print Assumptions C10_run_coherent_partial.

(* The library's self audit as a secondary oracle: every structural key of audit_meta(fail='ignore') that is a function of
   the modelled state is implied by coherence (DESIGN: audit_implies) *)
Theorem C10_audit_implied : forall f, coherentb f = true -> audit_structb f = true.
Proof. exact audit_implied. Qed.
Print Assumptions C10_audit_implied.

(* The mechanism: updatemeta() restores coherence from ANY state whose pruned VAR-LIST is non-empty, whose VGLVLS
   has one more entry than there are layers, and whose TFLAG — if it is going to be kept — starts at SDATE/STIME *)
Theorem C10_updatemeta_restores : forall f g,
  updatemeta f = Ok g -> newvl f <> [] -> nvgl f = (nl f + 1)%nat -> tflag_keep_ok f (length (newvl f)) = true ->
  coherentb g = true.
Proof. exact updatemeta_coherent. Qed.
Print Assumptions C10_updatemeta_restores.

(* updatemeta() always leaves TSTEP unlimited (C01: "IOAPI files always mark the time-step dimension unlimited") *)
Theorem C10_tstep_unlimited : forall f g, updatemeta f = Ok g -> ts_unl g = true.
Proof. exact updatemeta_unlimited. Qed.
Print Assumptions C10_tstep_unlimited.

(* ---- the full statement is false of the faithful model ---------------------------------------------- *)
(* 3 steps x 2 layers x 3 rows x 4 columns, variables 0='O3' 1='NO', hourly from 2000001 00:00 *)
Definition f0 : io :=
  IO 3 2 (Some 3%nat) (Some 4%nat) 2 true [0%nat; 1%nat] (Some (2%nat, [(2000001, 0); (2000001, 10000); (2000001, 20000)]))
     2 [0%nat; 1%nat] 2 3 4 3 2000001 0 10000.
Definition f0_4lay : io :=
  IO 3 4 (Some 3%nat) (Some 4%nat) 2 true [0%nat; 1%nat] (Some (2%nat, [(2000001, 0); (2000001, 10000); (2000001, 20000)]))
     2 [0%nat; 1%nat] 4 3 4 5 2000001 0 10000.

(* applyAlongDimensions(TSTEP='mean'): TFLAG is averaged like data, SDATE/STIME keep the first step *)
Theorem C10_apply_tstep_refuted : exists f g,
  coherentb f = true /\ istep f (IApply DT FMean) = Ok g /\ coherentb g = false
  /\ tflag g = Some (2%nat, [(2000001, 10000)]) /\ stime g = 0.
Proof. exists f0. eexists. vm_compute. repeat split; reflexivity. Qed.
Print Assumptions C10_apply_tstep_refuted.

(* subsetVariables([]): NVARS = 0 but VAR = 1 and TFLAG.shape[1] = 1 *)
Theorem C10_subset_empty_refuted : exists f g,
  coherentb f = true /\ istep f (ISubset []) = Ok g /\ coherentb g = false /\ nvars g = 0%nat /\ vardim g = 1%nat.
Proof. exists f0. eexists. vm_compute. repeat split; reflexivity. Qed.
Print Assumptions C10_subset_empty_refuted.

(* ---- the repaired operations on the former witnesses (evaluation of the model) ----------------------------------- *)
Example C10_repaired_witnesses :
  (exists g, istep f0 (IRename 0%nat 5%nat) = Ok g /\ coherentb g = true
             /\ nvars g = 2%nat /\ vardim g = 2%nat /\ varlist g = [5%nat; 1%nat] /\ dvars g = [1%nat; 5%nat])  (* renamed IN PLACE *)
  /\ (exists g, istep f0_4lay (IApply DL FHalf) = Ok g /\ coherentb g = true /\ nl g = 2%nat /\ nvgl g = 3%nat).
Proof. vm_compute. split; eexists; repeat split; reflexivity. Qed.

(* sliceDimensions(TSTEP=[2,0,1]) and a reversed selection combined with a LAY selector: SDATE/STIME = the FIRST selected
   step (not the earliest), TSTEP = difference of the first two selected steps *)
Example C10_slice_first_selected :
  (exists g, istep f0 (ISlice [(DT, true, [2%nat; 0%nat; 1%nat])]) = Ok g /\ coherentb g = true
             /\ stime g = 20000 /\ tstep g = -20000 /\ tflag g = Some (2%nat, [(2000001, 20000); (2000001, 0); (2000001, 10000)]))
  /\ (exists g, istep f0 (ISlice [(DT, false, [2%nat; 1%nat; 0%nat]); (DL, false, [1%nat])]) = Ok g /\ coherentb g = true
                /\ stime g = 20000 /\ tstep g = -10000 /\ nl g = 1%nat /\ nvgl g = 2%nat).
Proof. vm_compute. split; eexists; repeat split; reflexivity. Qed.

(* zipped selection sliceDimensions(TSTEP=[0,2], ROW=[0,1]) (region 2: no variable with the standard dimensions is left, NVARS = 0
   but VAR = 1): the re-created TFLAG keeps the selected times 00:00 and 02:00 (fixes/C10-updatetflag-keeps-times.patch; before it
   they were regenerated uniformly, 00:00 and 01:00) *)
Example C10_zip_keeps_times :
  iop_region f0 (ISlice [(DT, true, [0%nat; 2%nat]); (DR, true, [0%nat; 1%nat])]) = 2%nat
  /\ exists g, istep f0 (ISlice [(DT, true, [0%nat; 2%nat]); (DR, true, [0%nat; 1%nat])]) = Ok g
               /\ coherentb g = false /\ nvars g = 0%nat /\ vardim g = 1%nat
               /\ tflag g = Some (1%nat, [(2000001, 0); (2000001, 20000)]).
Proof. vm_compute. split; [reflexivity|]. eexists. repeat split; reflexivity. Qed.

(* operations that REDUCE the number of listed variables without subsetVariables: renaming onto an existing variable,
   deleting a variable + updatemeta(), eval(copyall) followed by renaming the new variable onto an input: NVARS, VAR-LIST,
   the VAR dimension and TFLAG's second axis all shrink together *)
Example C10_variable_count_reducing :
  (exists g, istep f0 (IRename 0%nat 1%nat) = Ok g /\ coherentb g = true
             /\ nvars g = 1%nat /\ vardim g = 1%nat /\ varlist g = [1%nat] /\ tflag g = Some (1%nat, [(2000001, 0); (2000001, 10000); (2000001, 20000)]))
  /\ (exists g, istep f0 (IDelete 1%nat) = Ok g /\ coherentb g = true /\ nvars g = 1%nat /\ vardim g = 1%nat /\ varlist g = [0%nat])
  /\ (exists g, irun f0 [IEval 3%nat 0%nat true; IRename 3%nat 1%nat; ISlice [(DT, false, [1%nat; 2%nat])]; ICopy] = Ok g
                /\ coherentb g = true /\ nvars g = 2%nat /\ vardim g = 2%nat /\ varlist g = [0%nat; 1%nat]).
Proof. vm_compute. repeat split; eexists; repeat split; reflexivity. Qed.

(* ---- non-vacuity -------------------------------------------------------------------------------------- *)
Definition iops_ex : list iop :=
  [ISlice [(DT, false, [1%nat; 2%nat])]; ISubset [1%nat]; IRename 1%nat 5%nat; IApply DL FHalf; IStack 2 [(2000001, 10000); (2000001, 20000)]; ICopy; IApply DR FHalf].
Example C10_hyp_inhabited :
  coherentb f0 = true /\ irun_region f0 iops_ex = 0%nat
  /\ exists g, irun f0 iops_ex = Ok g /\ coherentb g = true /\ nt g = 4%nat /\ nvars g = 1%nat /\ stime g = 10000 /\ nvgl g = 2%nat /\ varlist g = [5%nat].
Proof. vm_compute. repeat split; try reflexivity. eexists. repeat split; reflexivity. Qed.
(* eval, mask and interpSigma inside a run *)
Example C10_eval_mask_interp_example :
  exists g, irun f0 [IEval 3%nat 0%nat true; IMask; IInterp 3; IEval 4%nat 1%nat false] = Ok g /\ coherentb g = true /\ varlist g = [4%nat].
Proof. eexists. vm_compute. repeat split; reflexivity. Qed.
