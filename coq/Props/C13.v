(* C13 — memory-mapped and record-based CAMx readers agree. Statements only.
   Both readers are tied to the specification layout: the Memmap model by C09/C14's theorems, the record
   reader through its seek arithmetic TRANSLATED from camxfiles/uamiv/Read.py and camxfiles/timetuple.py. *)
From PNC Require Import Base.Util Base.Words Gen.Camx Model.Uamiv Proofs.UamivProofs Proofs.CamxReadProofs Proofs.UamivRecordProofs.
Import Coq.Lists.List. Import ListNotations.
Local Open Scope Z_scope.

(* The record reader's byte position of (date,time,species,layer) equals the position of that record in
   the specification layout, for all grid sizes, species/layer counts and step indices. *)
Theorem C13_recordposition_is_spec_offset : forall (self : ur_self) hdr nxny t s k d tm,
  0 < ur_nspec self -> 0 < ur_nlayers self -> 0 <= t -> 1 <= s -> 1 <= k -> 0 <= nxny ->
  ur_data_start_byte self = 4 * hdr -> ur_padded_size self = 4 * (13 + nxny) ->
  ur_padded_time_hdr_size self = 24 ->
  Z.quot (tt_timediff (ur_start_date self, ur_start_time self) (d, tm) 2400) (ur_time_step self) = t ->
  ur_recordposition self d tm s k = spec_record_offset hdr (ur_nspec self) (ur_nlayers self) nxny t s k.
Proof. exact recordposition_spec. Qed.
Print Assumptions C13_recordposition_is_spec_offset.

(* ... which is where the memory-mapped reader finds it: the stride model presents exactly the encoded
   content (same statement as C09, restated because C13 depends on it). *)
Theorem C13_memmap_presents_content : forall u, wf u = true -> u_steps u <> [] ->
  mm_read (enc u) (4 * Z.of_nat (length (enc u))) = Ok (view_of u).
Proof. exact mm_read_enc. Qed.
Print Assumptions C13_memmap_presents_content.

(* Both readers present the SAME cells, for every well-formed file of any size: what the record reader
   gets when it seeks to the position its translated arithmetic computes for (step t, species s, layer k)
   — in a reader state that agrees with the file header — and unpacks "i" + "10i" + cell_count floats is
   exactly the cell list the Memmap reader model presents for (t, s, k). *)
Theorem C13_readers_agree_on_data : forall (u : uamiv) (self : ur_self) t s k d tm,
  wf u = true ->
  (t < length (u_steps u))%nat -> (s < length (u_spc u))%nat -> (k < Z.to_nat (u_nz u))%nat ->
  ur_nspec self = nspec u -> ur_nlayers self = u_nz u ->
  ur_data_start_byte self = 4 * hdr_words u ->
  ur_padded_size self = 4 * (13 + u_nx u * u_ny u) ->
  ur_padded_time_hdr_size self = 24 ->
  Z.quot (tt_timediff (ur_start_date self, ur_start_time self) (d, tm) 2400) (ur_time_step self) = Z.of_nat t ->
  let pos := ur_recordposition self d tm (Z.of_nat s + 1) (Z.of_nat k + 1) in
  firstn (Z.to_nat (u_nx u * u_ny u)) (skipn 12 (skipn (Z.to_nat (pos / 4)) (enc u)))
  = nth k (nth s (nth t (v_data (view_of u)) []) []) [].
Proof. exact record_reader_reads_content. Qed.
Print Assumptions C13_readers_agree_on_data.

(* the record found there is the complete Fortran record of that species/layer: marker, 1, name, cells, marker *)
Theorem C13_record_at_seek_position : forall (u : uamiv) t s k, wf u = true ->
  (t < length (u_steps u))%nat -> (s < length (u_spc u))%nat -> (k < Z.to_nat (u_nz u))%nat ->
  exists rest, skipn (rec_word_offset u t s k) (enc u) = frame1 (cell_record u t s k) ++ rest.
Proof. intros u t s k H. exact (record_at_offset u H t s k). Qed.
Print Assumptions C13_record_at_seek_position.

(* Time iteration of the record reader (translated generator timetuple.timerange, fuel-bounded):
   it terminates with exactly the orbit of the start time whenever the end time is reached... *)
Theorem C13_timerange_terminates : forall n step eod d1 t1 d2 t2,
  orbit n step eod (d1, t1) = (d2, t2) ->
  (forall m, (m < n)%nat -> pair_neq (orbit m step eod (d1, t1)) (d2, t2)) ->
  tt_timerange_loop (S n) step eod d2 t2 d1 t1 = Some (orbit_list n step eod (d1, t1)).
Proof. exact timerange_loop_reaches. Qed.
Print Assumptions C13_timerange_terminates.

(* ... and it NEVER terminates when the end date is numerically below the start date — which is what
   a file crossing a year boundary looks like in two-digit-year julian dates (99365 -> 00001):
   for every amount of fuel the loop is still running. *)
Theorem C13_timerange_diverges_refuted : forall fuel step eod d2 t2 d1 t1,
  0 < eod -> 0 <= step -> 0 <= t1 -> d2 < d1 ->
  tt_timerange_loop fuel step eod d2 t2 d1 t1 = None.
Proof. exact timerange_loop_diverges. Qed.
Print Assumptions C13_timerange_diverges_refuted.

Example C13_readers_agree_inhabited :
  let u := {| u_name := repeat 65 10; u_note := repeat 66 60; u_itzon := 0; u_dates := [2001; 0; 2001; 2];
     u_gpre := repeat 7 7; u_nx := 2; u_ny := 1; u_nz := 2; u_gpost := repeat 5 5;
     u_spc := [repeat 80 10; repeat 81 10];
     u_steps := [([2001; 0; 2001; 1], [[[11; 12]; [13; 14]]; [[21; 22]; [23; 24]]]);
                 ([2001; 1; 2001; 2], [[[31; 32]; [33; 34]]; [[41; 42]; [43; 44]]])] |} in
  let self := {| ur_nlayers := 2; ur_start_date := 2001; ur_start_time := 0; ur_time_step := 1; ur_nspec := 2;
                 ur_data_start_byte := 4 * hdr_words u; ur_padded_size := 4 * 15; ur_padded_time_hdr_size := 24 |} in
  wf u = true /\ Z.quot (tt_timediff (2001, 0) (2001, 1) 2400) 1 = 1
  /\ firstn 2 (skipn 12 (skipn (Z.to_nat (ur_recordposition self 2001 1 2 2 / 4)) (enc u))) = [43; 44].
Proof. vm_compute. repeat split; reflexivity. Qed.

Example C13_day_rollover : tt_timerange 30 (99364, 2200) (99365, 100) 100 2400
  = Some [(99364, 2200); (99364, 2300); (99365, 0)].
Proof. vm_compute. reflexivity. Qed.
Example C13_year_rollover_stuck : tt_timerange 5000 (99365, 2200) (1, 100) 100 2400 = None.
Proof. vm_compute. reflexivity. Qed.

(* ======================================================================================================
   CAMx one3d family (one3d / humidity / vertical_diffusivity), Model/One3d.v: the record reader's seek arithmetic
   TRANSLATED from camxfiles/one3d/Read.py (the o3r_ definitions of Gen/Camx.v), its probing hand-modelled (o3r_probe)
   ====================================================================================================== *)
From PNC Require Import Model.One3d Proofs.One3dProofs.

(* byte position of (date, time, layer) = position of that record in the specification layout *)
Theorem C13_one3d_recordposition_is_spec_offset : forall (self : o3r_self) ri t k d tm,
  o3r_data_start_byte self = 0 -> o3r_padded_size self = 4 * ri ->
  Z.quot (tt_timediff (o3r_start_date self, o3r_start_time self) (d, tm) 2400) (o3r_time_step self) = t ->
  o3r_recordposition self d tm k = o_spec_record_offset (o3r_nlayers self) ri t k.
Proof. exact o3r_recordposition_spec. Qed.
Print Assumptions C13_one3d_recordposition_is_spec_offset.

(* BOTH READERS PRESENT THE SAME CELLS, for every well-formed file of any size: the cells the record reader unpacks
   at the position its translated arithmetic computes for (step |S1|, layer |L1|+1), in a reader state that agrees
   with the file, are the cells the Memmap model presents there *)
Theorem C13_one3d_readers_agree_on_data : forall c (self : o3r_self) S1 s S2 L1 lay L2 d tm, o_wf c = true ->
  o_steps c = S1 ++ s :: S2 -> os_lays s = L1 ++ lay :: L2 ->
  o3r_nlayers self = o_nz c -> o3r_data_start_byte self = 0 -> o3r_padded_size self = 4 * o_rec_words c ->
  Z.quot (tt_timediff (o3r_start_date self, o3r_start_time self) (d, tm) 2400) (o3r_time_step self)
    = Z.of_nat (length S1) ->
  cells_at (o_enc c) (o3r_recordposition self d tm (Z.of_nat (length L1) + 1)) (o_nx c * o_ny c)
  = nth (length L1) (nth (length S1) (ov_data (o_view_of c)) []) [].
Proof. exact o_readers_agree. Qed.
Print Assumptions C13_one3d_readers_agree_on_data.

(* the reader state does agree with the file: the (hand-modelled) probing of __readheader/__gettimestep on the record
   stamps of a file with two or more steps and a changing stamp finds the layer count, the padded record size and the
   time step ... *)
Theorem C13_one3d_probe_finds_layout : forall mk d0 d1 dts nz, (1 <= nz)%nat -> stamp_eqb d1 d0 = false ->
  o3r_probe mk (flat_map (fun d => repeat d nz) (d0 :: d1 :: dts)) =
  Some {| o3r_start_date := fst d0; o3r_start_time := snd d0; o3r_time_step := tt_timediff d0 d1 2400;
          o3r_nlayers := Z.of_nat nz; o3r_padded_size := mk + 8; o3r_data_start_byte := 0 |}.
Proof. exact o3r_probe_two_steps. Qed.
Print Assumptions C13_one3d_probe_finds_layout.

(* ... and on a single-step file it reads past the end: the record reader cannot be constructed either (both readers
   refuse single-step files: known finding region 11) *)
Theorem C13_one3d_probe_single_step : forall mk d0 nz, o3r_probe mk (flat_map (fun d => repeat d nz) [d0]) = None.
Proof. exact o3r_probe_single_step. Qed.
Print Assumptions C13_one3d_probe_single_step.

Example C13_one3d_readers_agree_inhabited :
  let c := {| o_nx := 2; o_ny := 1; o_nz := 2;
              o_steps := [OStep 1120403456 4001 [[11; 12]; [13; 14]]; OStep 1128792064 4001 [[21; 22]; [23; 24]]] |} in
  let self := {| o3r_start_date := 4001; o3r_start_time := 100; o3r_time_step := 100; o3r_nlayers := 2;
                 o3r_padded_size := 24; o3r_data_start_byte := 0 |} in
  o_wf c = true /\ o3r_probe 16 [(4001, 100); (4001, 100); (4001, 200); (4001, 200)] = Some self
  /\ o3r_recordposition self 4001 200 2 = 72 /\ cells_at (o_enc c) 72 2 = [23; 24].
Proof. vm_compute. repeat split; reflexivity. Qed.

(* ======================================================================================================
   CAMx TEMPERATURE and HEIGHT/PRESSURE files, Model/TempHp.v: record readers' position arithmetic TRANSLATED from
   camxfiles/height_pressure/Read.py (hpr_ definitions) and camxfiles/temperature/Read.py (tr_ definitions)
   ====================================================================================================== *)
From PNC Require Import Model.TempHp Proofs.TempHpProofs.

Theorem C13_heightpres_recordposition_is_spec_offset : forall (self : hpr_self) ri t k hp d tm,
  hpr_data_start_byte self = 0 -> hpr_padded_size self = 4 * ri ->
  Z.quot (tt_timediff (hpr_start_date self, hpr_start_time self) (d, tm) 2400) (hpr_time_step self) = t ->
  hpr_recordposition self d tm k hp = 4 * ((t * (2 * hpr_nlayers self) + 2 * (k - 1) + hp) * ri).
Proof. exact hpr_recordposition_spec. Qed.
Print Assumptions C13_heightpres_recordposition_is_spec_offset.

(* both height_pressure readers present the same cells *)
Theorem C13_heightpres_readers_agree_on_data : forall hc (self : hpr_self) H1 hs H2 P1 h p P2 d tm hp, h_wf hc = true ->
  h_steps hc = H1 ++ hs :: H2 -> hs_hp hs = P1 ++ (h, p) :: P2 ->
  hpr_nlayers self = h_nz hc -> hpr_data_start_byte self = 0 -> hpr_padded_size self = 4 * h_rec_words hc ->
  Z.quot (tt_timediff (hpr_start_date self, hpr_start_time self) (d, tm) 2400) (hpr_time_step self)
    = Z.of_nat (length H1) ->
  hp = 0 \/ hp = 1 ->
  cells_at (h_enc hc) (hpr_recordposition self d tm (Z.of_nat (length P1) + 1) hp) (h_nx hc * h_ny hc)
  = if hp =? 0 then h else p.
Proof. exact h_readers_agree. Qed.
Print Assumptions C13_heightpres_readers_agree_on_data.

(* temperature: the j-th position of the translated surface generator holds the surface field of step j, and row k of the
   array mapped at the j-th position of the translated air generator holds layer k+1 of step j -- the cells the Memmap
   model presents as SURFTEMP[j] and AIRTEMP[j][k] (C09_temperature_reader_presents_content) *)
Theorem C13_temperature_surface_positions : forall tc T1 ts T2, t_wf tc = true -> t_steps tc = T1 ++ ts :: T2 ->
  words_at (t_enc tc)
    (tr_surfpos0 0 + Z.of_nat (length T1) * tr_surf_inc (4 * t_rec_words tc) (4 * t_rec_words tc) (t_nz tc))
    (t_nx tc * t_ny tc) = ts_surf ts.
Proof. exact t_surf_agree. Qed.
Print Assumptions C13_temperature_surface_positions.

Theorem C13_temperature_air_positions : forall tc T1 ts T2 A1 lay A2, t_wf tc = true ->
  t_steps tc = T1 ++ ts :: T2 -> ts_air ts = A1 ++ lay :: A2 ->
  cells_at (t_enc tc)
    (tr_airpos0 (4 * t_rec_words tc) 0
     + Z.of_nat (length T1) * tr_air_inc (4 * t_rec_words tc) (4 * t_rec_words tc) (t_nz tc)
     + 4 * (Z.of_nat (length A1) * (t_nx tc * t_ny tc + 4)))
    (t_nx tc * t_ny tc) = lay.
Proof. exact t_air_agree. Qed.
Print Assumptions C13_temperature_air_positions.

Example C13_temphp_inhabited :
  let tc := {| t_nx := 2; t_ny := 1; t_nz := 2;
     t_steps := [TStep 1120403456 4001 [1; 2] [[3; 4]; [5; 6]]; TStep 1128792064 4001 [11; 12] [[13; 14]; [15; 16]]] |} in
  let s := {| trs_nlayers := 2; trs_time_step := 100; trs_count := 2; trs_area_padded := 24; trs_padded := 24 |} in
  t_wf tc = true /\ tr_probe 16 [(4001, 100); (4001, 100); (4001, 100); (4001, 200); (4001, 200); (4001, 200)] = Some s
  /\ tr_surf_positions s 9 144 = [12; 84] /\ words_at (t_enc tc) 84 2 = [11; 12]
  /\ tr_air_positions s 9 144 = [24; 96] /\ air_at (t_enc tc) 96 2 2 = [[13; 14]; [15; 16]].
Proof. vm_compute. repeat split; reflexivity. Qed.

(* ======================================================================================================
   CAMx WIND files, Model/Wind.v: the record reader's seek arithmetic TRANSLATED from camxfiles/wind/Read.py
   (wr_ definitions of Gen/Camx.v)
   ====================================================================================================== *)
From PNC Require Import Model.Wind Proofs.WindProofs.

Theorem C13_wind_recordposition_is_spec_offset : forall (self : wr_self) t k duv d tm,
  0 < wr_nlayers self -> duv = 1 \/ duv = 2 -> wr_data_start_byte self = 0 ->
  Z.quot (tt_timediff (wr_start_date self, wr_start_time self) (d, tm) 2400) (wr_time_step self) = t ->
  wr_recordposition self d tm k duv
  = w_spec_record_offset (wr_padded_time_hdr_size self) (wr_padded_size self) (wr_nlayers self) t k duv.
Proof. exact wr_recordposition_spec. Qed.
Print Assumptions C13_wind_recordposition_is_spec_offset.

(* both wind readers present the same cells *)
Theorem C13_wind_readers_agree_on_data : forall c (self : wr_self) S1 s S2 P1 u v P2 d tm duv, w_wf c = true ->
  w_steps c = S1 ++ s :: S2 -> ws_uv s = P1 ++ (u, v) :: P2 ->
  wr_nlayers self = w_nz c -> wr_data_start_byte self = 0 ->
  wr_padded_time_hdr_size self = w_hdr_bytes c -> wr_padded_size self = w_data_bytes c ->
  Z.quot (tt_timediff (wr_start_date self, wr_start_time self) (d, tm) 2400) (wr_time_step self)
    = Z.of_nat (length S1) ->
  duv = 1 \/ duv = 2 ->
  w_cells_at (w_enc c) (wr_recordposition self d tm (Z.of_nat (length P1) + 1) duv) (w_nx c * w_ny c)
  = if duv =? 1 then u else v.
Proof. exact w_readers_agree. Qed.
Print Assumptions C13_wind_readers_agree_on_data.

Example C13_wind_inhabited :
  let c := {| w_nx := 2; w_ny := 1; w_nz := 2; w_stag := Some 1; w_dummy := 0;
              w_steps := [WStep 1120403456 4001 [([1; 2], [3; 4]); ([5; 6], [7; 8])];
                          WStep 1128792064 4001 [([11; 12], [13; 14]); ([15; 16], [17; 18])]] |} in
  let self := {| wr_start_date := 4001; wr_start_time := 100; wr_time_step := 100; wr_nlayers := 2; wr_data_start_byte := 0;
                 wr_padded_time_hdr_size := 20; wr_padded_size := 16 |} in
  w_wf c = true /\ wr_recordposition self 4001 200 2 2 = 164 /\ w_cells_at (w_enc c) 164 2 = [17; 18].
Proof. vm_compute. repeat split; reflexivity. Qed.
