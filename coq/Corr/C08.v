(* Correspondence for C08: library writer -> library reader -> library writer. *)
From PNC Require Export Base.Util Base.Words Model.Uamiv.
From PNC Require Import Corr.C09.
Local Open Scope Z_scope.

Inductive case_t :=
| W (u : uamiv)                     (* content of the in-memory file handed to the writer (true end dates) *)
    (hours : list (Z * Z))          (* begin/end hours as integers *)
    (derive : bool)                 (* ETFLAG was removed: the writer derives the end dates itself *)
    (w1 : list word)                (* first write *)
    (open_ok : bool) (v : view) (tflag etflag : list (Z * Z))   (* reading w1 back *)
    (w2 : list word)                (* writing the re-read file again *)
| R8 (ref : list word) (recs : list (list word)) (w_ok : bool) (written : list word).

Definition view_eqb_nd (a b : view) : bool :=
  (v_nspec a =? v_nspec b) && (v_nx a =? v_nx b) && (v_ny a =? v_ny b) && (v_nz a =? v_nz b)
  && (v_ntimes a =? v_ntimes b) && zll_eqb (v_names a) (v_names b) && zllll_eqb (v_data a) (v_data b).

Definition year_end_derive (u : uamiv) (hours : list (Z * Z)) : bool :=
  existsb (fun p => let bd := nth 0 (fst (fst p)) 0 in let bh := fst (snd p) in
                    (bh =? 23) && negb (next_yyjjj bd =? bd + 1))
          (combine (u_steps u) hours).

Definition check (c : case_t) : verdict :=
  match c with
  | W u hours derive w1 open_ok v tflag etflag w2 =>
    let iu := if derive then derive_u u (map fst hours) else u in
    let f := zlist_eqb w1 (enc iu)
             && match mm_read w1 (4 * Z.of_nat (length w1)) with
                | Ok v' => open_ok && view_eqb_nd v' v
                           && list_eqb pair_eqb (convert_camx_time (map (fun d => nth 0 d 0) (v_dates v')) (map fst hours)) tflag
                           && list_eqb pair_eqb (convert_camx_time (map (fun d => nth 2 d 0) (v_dates v')) (map snd hours)) etflag
                | Err => negb open_ok
                end in
    let s := open_ok && view_eqb_nd v (view_of u)
             && list_eqb pair_eqb tflag (spec_camx_time (bdates u) (map fst hours))
             && list_eqb pair_eqb etflag (spec_camx_time (edates u) (map snd hours))
             && zlist_eqb w2 w1 in
    (f, s, if derive && year_end_derive u hours then 1%nat else 0%nat)
  | R8 ref recs w_ok written =>
    (zlist_eqb (frame recs) ref,
     w_ok && zlist_eqb written ref
     && match unframe_all written with Some rs => zll_eqb rs recs | None => false end,
     0%nat)
  end.
