(* Correspondence for C08: library writer -> library reader -> library writer. *)
From PNC Require Export Base.Util Base.Words Model.Uamiv Model.YearEnd Model.Lbdy Model.One3d Model.TempHp Model.Wind Model.CloudRain Model.Landuse.
From PNC Require Export Corr.C09.
Local Open Scope Z_scope.

Inductive case_t :=
| W (u : uamiv)                     (* content of the in-memory file handed to the writer (true end dates) *)
    (hours : list (Z * Z))          (* begin/end hours as integers *)
    (derive : bool)                 (* ETFLAG was removed: the writer derives the end dates itself *)
    (w1 : list word)                (* first write *)
    (open_ok : bool) (v : view) (tflag etflag : list (Z * Z))   (* reading w1 back *)
    (w2 : list word)                (* writing the re-read file again *)
(* one3d family: reference-encoded file -> library reader -> ncf2one3d; same record as Corr/C09.v ocase.
   S additionally demands the re-written file to be byte-identical to the original *)
| OD8 (c : ocase)
| TD8 (c : tcase)
| HD8 (c : hcase)
| WD8 (c : wcase)
| CD8 (c : ccase)
| LUD8 (c : lucase)
| R8 (ref : list word) (recs : list (list word)) (w_ok : bool) (written : list word)
(* lateral-boundary file (Model/Lbdy.v): in-memory file WITHOUT _boundary_def (the writer generates the edge
   definitions and always derives the end dates) -> library writer -> library reader -> library writer *)
| WL (l : lbdy)                     (* content of the in-memory file (true end dates, canonical edge definitions) *)
     (hours : list (Z * Z))         (* begin/end hours as integers *)
     (w1_ok : bool) (w1 : list word)                             (* first write *)
     (open_ok : bool) (v : lview) (tflag etflag : list (Z * Z))  (* reading w1 back *)
     (py_ok : bool)                 (* judged in Python: variable names/order, array shapes, NAME/NOTE/ITZON *)
     (w2_ok : bool) (w2 : list word).                            (* writing the re-read file again *)

Definition view_eqb_nd (a b : view) : bool :=
  (v_nspec a =? v_nspec b) && (v_nx a =? v_nx b) && (v_ny a =? v_ny b) && (v_nz a =? v_nz b)
  && (v_ntimes a =? v_ntimes b) && zll_eqb (v_names a) (v_names b) && zllll_eqb (v_data a) (v_data b).

Definition year_end_derive (u : uamiv) (hours : list (Z * Z)) : bool :=
  existsb (fun p => let bd := nth 0 (fst (fst p)) 0 in let bh := fst (snd p) in
                    (bh =? 23) && negb (next_yyjjj bd =? bd + 1))
          (combine (u_steps u) hours).

Definition check (c : case_t) : verdict :=
  match c with
  | W u hours derive w1 open_ok v tflag etflag w2 =>
    let iu := if derive then derive_u_r u (map fst hours) else u in
    let f := zlist_eqb w1 (enc iu)
             && match mm_read w1 (4 * Z.of_nat (length w1)) with
                | Ok v' => open_ok && view_eqb_nd v' v
                           && list_eqb pair_eqb (convert_camx_time (map (fun d => nth 0 d 0) (v_dates v')) (map fst hours)) tflag
                           && list_eqb pair_eqb (convert_camx_time (map (fun d => nth 2 d 0) (v_dates v')) (map snd hours)) etflag
                | Err => negb open_ok
                end in
    let s := open_ok && view_eqb_nd v (view_of u)
             && list_eqb pair_eqb tflag (spec_camx_time (bdates u) (map fst hours))
             && list_eqb pair_eqb etflag (spec_camx_time (edates u) (map snd hours))
             && zlist_eqb w2 w1
             (* the written file carries the content's grid header (record 2: origin, cell sizes, counts) *)
             && match unframe_all w1 with Some rs => zlist_eqb (nth 1 rs []) (nth 1 (to_records u) []) | None => false end in
    (f, s, 0%nat)
  | R8 ref recs w_ok written =>
    (zlist_eqb (frame recs) ref,
     w_ok && zlist_eqb written ref
     && match unframe_all written with Some rs => zll_eqb rs recs | None => false end,
     0%nat)
  | OD8 c => (ocheckF c, ocheckS c && zlist_eqb (oc_written c) (oc_ref c), oregion c)
  | TD8 c => (tcheckF c, tcheckS c && zlist_eqb (tc_written c) (tc_ref c), tregion c)
  | HD8 c => (hcheckF c, hcheckS c && zlist_eqb (hc_written c) (hc_ref c), hregion c)
  | WD8 c => (wcheckF c, wcheckS c && zlist_eqb (wc_written c) (wc_ref c), wregion c)
  | CD8 c => (ccheckF c, ccheckS c && zlist_eqb (cc_written c) (cc_ref c), cregion c)
  | LUD8 c => (lucheckF c, lucheckS c && zlist_eqb (luc_written c) (luc_ref c) && luc_rr_ok c, luregion c)
  | WL l hours w1_ok w1 open_ok v tflag etflag py_ok w2_ok w2 =>
    let bh := map fst hours in
    let iu := lb_derive l bh true in
    let f := w1_ok && zlist_eqb w1 (lb_enc iu)
             && match lb_mm_read w1 (4 * Z.of_nat (length w1)) with
                | Ok v' => open_ok && lview_eqb_nd v' v
                           && list_eqb pair_eqb (lb_tflag v' bh) tflag
                           && list_eqb pair_eqb (lb_etflag v' (map snd hours)) etflag
                           && w2_ok && zlist_eqb w2 (lb_enc (lb_derive iu bh false))
                | Err => negb open_ok
                end in
    let s_rest := py_ok && w1_ok && open_ok && lview_eqb_nd v (lb_view_of l)
                  && list_eqb pair_eqb tflag (spec_camx_time (lb_bdates l) bh)
                  && w2_ok && zlist_eqb w2 w1 in
    let s_etflag := list_eqb pair_eqb etflag (spec_camx_time (lb_edates l) (map snd hours)) in
    (f, s_rest && s_etflag,
     0%nat)
  end.
