(* Correspondence for C18: one case = one generated bpch content + tracerinfo/diaginfo tables, driven
   through the library in one of two directions.
     mode 0 (read/write) : reference-encoded file (possibly edited / truncated = malformed) -> bpch1 -> observed view;
                           when read without scaling also -> ncf2bpch -> written words.
     mode 1 (write/read) : a hand-built bpch-convention PseudoNetCDFFile with the content -> ncf2bpch -> written words
                           -> bpch1 -> observed view.
   With scaling the observed data words are raw*SCALE and are compared through the exact binary32 value. *)
From PNC Require Export Base.Util Base.Words Model.Bpch.
From Coq Require Export QArith.
Import Coq.Lists.List. Import ListNotations.
Local Open Scope Z_scope.

Record case_t := Case {
  c_mode : Z;
  c_T : tinfo; c_D : dinfo;
  c_f : bfile;                   (* the generated content *)
  c_ref : list word;             (* Python reference encoder's output for c_f *)
  c_ws : list word;              (* mode 0, malformed: whole words of the file given to the library (otherwise c_ref is given) *)
  c_size : Z;                    (* mode 0: its size in bytes *)
  c_mal : bool;                  (* mode 0: edited or truncated *)
  c_scaled : bool;               (* opened with noscale=False *)
  c_open_ok : bool;              (* bpch1 opened and every tracer variable could be read *)
  c_view : view;                 (* what it presented (empty when it raised) *)
  c_wrote : bool;                (* ncf2bpch ran *)
  c_written : list word;         (* what it wrote *)
  c_b2_ok : bool;                (* mode 2: bpch2 opened and every variable could be read *)
  c_view2 : view2;               (* mode 2: what bpch2 presented; its units are TEXT (UHdr): bpch2 presents every unit as str *)
  c_upool : list (list word)     (* mode 2: the text (40 chars, blank padded) of the table units UTab 0, 1, ... *)
}.

Definition tunit_eqb (a b : tunit) : bool :=
  match a, b with UTab i, UTab j => i =? j | UHdr x, UHdr y => zlist_eqb x y | _, _ => false end.
Definition var_eqb (a b : var) : bool :=
  zlist_eqb (v_cat a) (v_cat b) && tname_eqb (v_name a) (v_name b) && (v_tid a =? v_tid b)
  && zlist_eqb (v_unit0 a) (v_unit0 b) && zlist_eqb (v_resv a) (v_resv b)
  && (v_nx a =? v_nx b) && (v_ny a =? v_ny b) && (v_nz a =? v_nz b) && zlist_eqb (v_start a) (v_start b)
  && Qeq_bool (v_scale a) (v_scale b) && tunit_eqb (v_unit a) (v_unit b).
Definition zlll_eqb := list_eqb zll_eqb.

(* data of one time block: raw words, or (scaled) the exact product with the variable's SCALE *)
Fixpoint data1_ok (scaled : bool) (vs : list var) (raw obs : list (list word)) : bool :=
  match vs, raw, obs with
  | [], [], [] => true
  | v :: vs', r :: raw', o :: obs' =>
    (if scaled then (Nat.eqb (length r) (length o)) && forallb (fun p => scaled_ok (v_scale v) (fst p) (snd p)) (combine r o)
     else zlist_eqb r o) && data1_ok scaled vs' raw' obs'
  | _, _, _ => false
  end.
Definition view_match (scaled : bool) (m o : view) : bool :=
  zlist_eqb (r_ftype m) (r_ftype o) && zlist_eqb (r_title m) (r_title o) && zlist_eqb (r_model m) (r_model o)
  && (r_nx m =? r_nx o) && (r_ny m =? r_ny o) && list_eqb var_eqb (r_vars m) (r_vars o)
  && zll_eqb (r_taus m) (r_taus o)
  && list_eqb (fun a b => data1_ok scaled (r_vars m) a b) (r_data m) (r_data o).

Definition res_match (scaled : bool) (r : result view) (ok : bool) (o : view) : bool :=
  match r with Ok v => ok && view_match scaled v o | Err => negb ok end.

(* mode 2 (second reader): the reference-encoded file through bpch1 AND bpch2, both without scaling *)
(* units are compared by their TEXT: bpch1 presents a table unit as str and a header unit as bytes, bpch2 presents both
   as str - a difference of type only; a difference of the text would be a disagreement *)
Definition unit_text (pool : list (list word)) (u : tunit) : list word :=
  match u with UTab i => nth (Z.to_nat i) pool [] | UHdr w => w end.
Definition var_eqb_txt (pool : list (list word)) (a b : var) : bool :=
  zlist_eqb (v_cat a) (v_cat b) && tname_eqb (v_name a) (v_name b) && (v_tid a =? v_tid b)
  && zlist_eqb (v_unit0 a) (v_unit0 b) && zlist_eqb (v_resv a) (v_resv b)
  && (v_nx a =? v_nx b) && (v_ny a =? v_ny b) && (v_nz a =? v_nz b) && zlist_eqb (v_start a) (v_start b)
  && Qeq_bool (v_scale a) (v_scale b) && zlist_eqb (unit_text pool (v_unit a)) (unit_text pool (v_unit b)).
Definition view2_eqb (pool : list (list word)) (a b : view2) : bool :=
  zlist_eqb (s_ftype a) (s_ftype b) && zlist_eqb (s_title a) (s_title b) && list_eqb (var_eqb_txt pool) (s_vars a) (s_vars b)
  && zll_eqb (s_taus a) (s_taus b) && zlll_eqb (s_data a) (s_data b).
Definition agree_b (pool : list (list word)) (v1 : view) (v2 : view2) : bool :=
  zlist_eqb (s_ftype v2) (r_ftype v1) && zlist_eqb (s_title v2) (r_title v1)
  && list_eqb (var_eqb_txt pool) (s_vars v2) (map no_resv (r_vars v1))
  && zll_eqb (s_taus v2) (r_taus v1)
  && zlll_eqb (s_data v2) (map (data_of_var v1) (r_vars v1)).

(* NO CLAIM (F) - bpch1's fallback attributes are stored per offset+id: when a tracer has no tracerinfo line, bpch1.__init__
   writes tracer_data[offset+id] = dict(SCALE=1, UNIT=<unit of that header>) while it walks the headers, so two walked
   headers WITHOUT a tracerinfo line that share offset+id (different categories, or an edited tracer id) both present the
   unit of the one walked last.  The model presents each block's own header unit (the documented fallback, what bpch2
   does).  Such files are never generated as well-formed input (ASSUMPTIONS: no two tracers share offset+id); an edit of
   a tracer id can produce one.  On exactly these files the `units` attribute of fallback variables is not compared. *)
Fixpoint chain_hdrs (fuel : nat) (rest : list word) (rem : Z) : list phdr :=
  match fuel with
  | O => []
  | S f =>
    if rem <? 220 then [] else
    let h := parse_hdr rest in
    if (p_skip h <? 0) || negb (p_skip h mod 4 =? 0) then [h]
    else h :: chain_hdrs f (skipnZ (55 + p_skip h / 4) rest) (rem - 220 - p_skip h)
  end.
Definition hdr_ord (D : dinfo) (h : phdr) : Z := p_tid h + impl_offset D (p_cat h).
Definition hdr_fallback (T : tinfo) (D : dinfo) (h : phdr) : bool :=
  match dict_get (fun e => t_ord e =? hdr_ord D h) T with Some _ => false | None => true end.
Definition unit_collision (T : tinfo) (D : dinfo) (ws : list word) (size : Z) : bool :=
  let hs := filter (hdr_fallback T D) (chain_hdrs (S (length ws)) (skipn 34 ws) (size - 136)) in
  existsb (fun h1 => existsb (fun h2 => (hdr_ord D h1 =? hdr_ord D h2) && negb (zlist_eqb (p_unit h1) (p_unit h2))) hs) hs.
Definition drop_fb_unit (v : var) : var :=
  match v_unit v with
  | UHdr _ => {| v_cat := v_cat v; v_name := v_name v; v_tid := v_tid v; v_unit0 := v_unit0 v; v_resv := v_resv v;
                 v_nx := v_nx v; v_ny := v_ny v; v_nz := v_nz v; v_start := v_start v; v_scale := v_scale v; v_unit := UHdr [] |}
  | UTab _ => v
  end.
Definition drop_fb_units (v : view) : view :=
  {| r_ftype := r_ftype v; r_title := r_title v; r_model := r_model v; r_nx := r_nx v; r_ny := r_ny v;
     r_vars := map drop_fb_unit (r_vars v); r_taus := r_taus v; r_data := r_data v |}.

Definition given (c : case_t) : list word := if c_mal c then c_ws c else c_ref c.

Definition checkF (c : case_t) : bool :=
  zlist_eqb (enc (c_f c)) (c_ref c)
  && if c_mode c =? 2 then
       res_match false (impl_open (c_T c) (c_D c) (c_ref c) (4 * lenZ (c_ref c))) (c_open_ok c) (c_view c)
       && match impl_bpch2 (c_T c) (c_D c) (c_ref c) (4 * lenZ (c_ref c)) with
          | Ok v2 => c_b2_ok c && view2_eqb (c_upool c) v2 (c_view2 c)
          | Err => negb (c_b2_ok c)
          end
     else if c_mode c =? 0 then
       let r := impl_open (c_T c) (c_D c) (given c) (c_size c) in
       (if unit_collision (c_T c) (c_D c) (given c) (c_size c)
        then res_match (c_scaled c) (match r with Ok v => Ok (drop_fb_units v) | Err => Err end) (c_open_ok c) (drop_fb_units (c_view c))
        else res_match (c_scaled c) r (c_open_ok c) (c_view c))
       && match r with
          | Ok v => if c_wrote c then zlist_eqb (impl_write v) (c_written c) else true
          | Err => negb (c_wrote c)
          end
     else
       c_wrote c && zlist_eqb (impl_write (view_of (c_T c) (c_D c) (c_f c))) (c_written c)
       && res_match (c_scaled c) (impl_open (c_T c) (c_D c) (c_written c) (4 * lenZ (c_written c))) (c_open_ok c) (c_view c).

(* S. mode 0, well-formed file: the reader presents exactly the content (names, scale and unit from the SPEC
   lookup; raw data, or raw*SCALE), and without scaling the writer reproduces the
   bytes.  mode 1: reading back what the writer wrote presents exactly the content that was written.
   Cut files: `prefix_ok` (the every-prefix theorem); other malformed files: nothing demanded. *)
(* a cut file (the given words are a prefix of the reference encoding): the every-prefix statement
   C18_every_prefix evaluated on what the LIBRARY presented: an error, or exactly the first k whole time blocks, or
   (cut exactly at a tracer boundary inside the first time block) one time block with the first j tracers *)
Definition is_cut (c : case_t) : bool :=
  c_mal c && (c_mode c =? 0) && (c_size c <=? 4 * lenZ (c_ref c))
  && (lenZ (c_ws c) =? c_size c / 4) && zlist_eqb (firstn (length (c_ws c)) (c_ref c)) (c_ws c).
Definition prefix_ok (c : case_t) : bool :=
  let f := c_f c in let T := c_T c in let D := c_D c in
  negb (c_open_ok c)
  || existsb (fun k => (136 + 4 * (Z.of_nat k * tb_wordsZ (tb0 f)) <=? c_size c)
                       && view_match (c_scaled c) (view_of T D (trunc_times k f)) (c_view c))
             (seq 1 (length (f_times f)))
  || existsb (fun j => (c_size c =? 136 + 4 * tb_wordsZ (firstn j (tb0 f)))
                       && view_match (c_scaled c) (view_of T D (first_tracers j f)) (c_view c))
             (seq 1 (length (tb0 f) - 1)).

Definition checkS (c : case_t) : bool :=
  if c_mode c =? 2 then c_open_ok c && c_b2_ok c && agree_b (c_upool c) (c_view c) (c_view2 c) else
  if c_mal c then (if is_cut c then prefix_ok c else true) else
  c_open_ok c && view_match (c_scaled c) (view_of (c_T c) (c_D c) (c_f c)) (c_view c)
  && (if (c_mode c =? 0) && negb (c_scaled c) then c_wrote c && zlist_eqb (c_written c) (given c) else true)
  && (if c_mode c =? 0 then true else c_wrote c).

(* every generated case is inside the proved domain (no known finding left for C18) *)
Definition region (c : case_t) : nat := 0%nat.

Definition check (c : case_t) : verdict := (checkF c, checkS c, region c).
