(* Correspondence for C04: one case = 1..k input files (same dimension ids and variables; lengths
   and cells differ), the stack dimension, what the library's stack returned, and — for the
   split-then-stack cases — the original file with the piece lengths, and what slicing the stacked
   file at every piece's extent returned.  Cells are (stored value, masked?) as in Corr/C02. *)
From PNC Require Export Base.Util Base.ArrFlat Model.Slice Model.Stack Corr.C02.
Local Open Scope Z_scope.

Definition ofile := (list nat * list ovar)%type.

Record case_t := Case {
  c_k     : nat;
  c_files : list ofile;
  c_obs   : option (list (nat * nat) * list ovar);     (* None = raised *)
  c_orig  : option (ofile * list nat);                 (* original file, piece lengths *)
  c_back  : list (list ovar)                           (* stacked file sliced at piece i's extent *)
}.

Definition mkfile (o : ofile) : file cell := File (fst o) (map (fun v => Var (fst v) (snd v)) (snd o)).
Definition vars_of (vs : list (var cell)) : list ovar := map (fun v => (v_dims v, v_data v)) vs.
Definition ovars_eqb := list_eqb ovar_eqb.
Definition pair_eqb (a b : nat * nat) : bool := Nat.eqb (fst a) (fst b) && Nat.eqb (snd a) (snd b).
Definition ofile_eqb (a b : ofile) : bool := natlist_eqb (fst a) (fst b) && ovars_eqb (snd a) (snd b).

Definition checkF (c : case_t) : bool :=
  (match impl_stack (map mkfile (c_files c)) (c_k c), c_obs c with
   | None, None => true
   | Some (ds, vs), Some (ods, ovs) => list_eqb pair_eqb ds ods && ovars_eqb (vars_of vs) ovs
   | _, _ => false
   end)
  && (match c_orig c with
      | Some (o, lens) =>     (* the library's pieces are the model's pieces *)
          list_eqb ofile_eqb
            (map (fun f => (f_dims f, vars_of (f_vars f))) (split_file (mkfile o) (c_k c) lens))
            (c_files c)
      | None => true
      end).

(* the inputs agree on everything but the stack dimension's length *)
Definition family_ok (c : case_t) : bool :=
  match c_files c with
  | [] => false
  | f0 :: _ =>
    Nat.ltb (c_k c) (length (fst f0)) &&
    forallb (fun f => Nat.eqb (length (fst f)) (length (fst f0)) &&
                      forallb (fun j => Nat.eqb j (c_k c) || Nat.eqb (nth j (fst f) 0%nat) (nth j (fst f0) 0%nat))
                              (seq 0 (length (fst f0)))) (c_files c)
  end.

Definition has_k (c : case_t) (v : ovar) : bool := existsb (Nat.eqb (c_k c)) (fst v).

Definition checkS (c : case_t) : bool :=
  match c_obs c with
  | None => negb (family_ok c)
  | Some (ods, ovs) =>
    family_ok c
    (* stacked dimension length = sum of the inputs' *)
    && existsb (fun p => Nat.eqb (fst p) (c_k c) &&
                         Nat.eqb (snd p) (sumn (map (fun f => nth (c_k c) (fst f) 0%nat) (c_files c)))) ods
    (* split then stack reproduces the original cells and dimension lengths *)
    && (match c_orig c with
        | Some (o, _) =>
            ovars_eqb (snd o) ovs
            && forallb (fun p => Nat.eqb (nth (fst p) (fst o) 0%nat) (snd p)) ods
            && Nat.eqb (length ods) (length (fst o))
        | None => true
        end)
    (* slicing the stacked file at piece i's extent reproduces piece i (variables with the dimension) *)
    && Nat.eqb (length (c_back c)) (length (c_files c))
    && forallb (fun bf => ovars_eqb (filter (has_k c) (fst bf)) (filter (has_k c) (snd (snd bf))))
               (combine (c_back c) (c_files c))
  end.

Definition region (c : case_t) : nat := 0%nat.

Definition check (c : case_t) : verdict := (checkF c, checkS c, region c).
