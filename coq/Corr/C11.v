(* Correspondence for C11: one case = one IOAPI file (grid, levels, start/step) and one window;
   observation = the metadata and decoded times of ioapi_base.sliceDimensions(...), None = it raised. *)
From PNC Require Export Base.Util Base.Calendar Model.IoapiGeo.
Local Open Scope Z_scope.

Record case_t := Case {
  c_g : grid; c_nl : Z;          (* source; NLAYS = length VGLVLS - 1 *)
  c_w : window;
  c_obs : option outmeta;        (* XORIG YORIG VGLVLS SDATE STIME TSTEP getTimes() of the window *)
  c_dims : list Z                (* observed [TSTEP; LAY; ROW; COL] lengths of the window *)
}.

Definition out_eqb (a b : outmeta) : bool :=
  (o_xorig a =? o_xorig b) && (o_yorig a =? o_yorig b) && zlist_eqb (o_lv a) (o_lv b)
  && (o_sdate a =? o_sdate b) && (o_stime a =? o_stime b) && (o_tstep a =? o_tstep b)
  && zlist_eqb (o_times a) (o_times b).

Definition cnt_of (n : Z) (s : option sel) : Z := match win_range n s with Some (_, c) => c | None => 0 end.
Definition st_of (n : Z) (s : option sel) : Z := match win_range n s with Some (st, _) => st | None => 0 end.

Definition model_dims (c : case_t) : list Z :=
  let g := c_g c in let w := c_w c in
  [cnt_of (g_nt g) (w_t w); cnt_of (c_nl c) (w_l w); cnt_of (g_nr g) (w_r w); cnt_of (g_nc g) (w_c w)].

Definition checkF (c : case_t) : bool :=
  match impl_window (c_g c) (c_w c), c_obs c with
  | Some m, Some o => out_eqb m o && zlist_eqb (model_dims c) (c_dims c)
  | None, None => true
  | _, _ => false
  end.

Fixpoint forall_below (n : nat) (p : Z -> bool) : bool :=
  match n with O => true | S m => p (Z.of_nat m) && forall_below m p end.

Definition checkS (c : case_t) : bool :=
  let g := c_g c in let w := c_w c in
  match c_obs c with
  | None => true
  | Some o =>
      if valid_grid_time g then
        let t0 := sec_of_flag (g_sdate g) (g_stime g) in
        let step := sec_of_hhmmss (g_tstep g) in
        let st_t := st_of (g_nt g) (w_t w) in let cnt_t := cnt_of (g_nt g) (w_t w) in
        let st_l := st_of (c_nl c) (w_l w) in let cnt_l := cnt_of (c_nl c) (w_l w) in
        (* every retained cell keeps its coordinates: origin moved by first index * cell size *)
        (edge (o_xorig o) (g_xcell g) 0 =? edge (g_xorig g) (g_xcell g) (st_of (g_nc g) (w_c w)))
        && (edge (o_yorig o) (g_ycell g) 0 =? edge (g_yorig g) (g_ycell g) (st_of (g_nr g) (w_r w)))
        (* level edges are the matching sub-range *)
        && zlist_eqb (o_lv o) (firstn (Z.to_nat (cnt_l + 1)) (skipn (Z.to_nat st_l) (g_lv g)))
        (* decoded times are the same sub-range of the source's decoded times *)
        && zlist_eqb (o_times o) (map (fun j => t0 + (st_t + j) * step) (iotaZ 0 (Z.to_nat cnt_t)))
        (* and the start date/time/step attributes give every retained step that instant *)
        && forall_below (Z.to_nat cnt_t)
             (fun j => attr_time (o_sdate o) (o_stime o) (o_tstep o) j =? t0 + (st_t + j) * step)
        && valid_hhmmss (o_stime o)
      else true
  end.

(* no known-defect region left (the >= 24 h step defect is repaired) *)
Definition region (c : case_t) : nat := 0%nat.

Definition check (c : case_t) : verdict := (checkF c, checkS c, region c).
