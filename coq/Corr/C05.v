(* Correspondence for C05.  Two kinds of cases:
   HCase: one interleaving of open / close / drop+collect / deferred drop / collect over 2..4 disk files, run in one
          interpreter with the cyclic GC disabled (finalisation happens exactly where the harness forces it);
   ACase: one operation or query on in-memory or disk-backed input files, with snapshots before / after / after writes. *)
From PNC Require Import Base.Util.
From PNC Require Export Model.Handles Model.Alias.

Inductive case_t :=
  | HCase (groups : list (list hev))         (* per user step: the events it expands to (primitive opens / closes, derivations) *)
          (refs : list (list nat))           (* per user step: the objects still referenced (observed) after it *)
          (obs : list (list (option nat)))   (* per user step: what reading each of them returned (file id / None = raised) *)
          (slots : list nat)                 (* per opened object, in order: its _grpid / 65536 *)
          (uses : list (list (option nat)))  (* per user step: what USING every derived file so far returned (read every variable, len
                                                of every dimension, save): the disk file whose data came back / None = raised *)
  | ACase (o : op)
          (obs_aliased : list nat)           (* input buffers that share memory with a variable of the returned file *)
          (obs_mutated : list nat)           (* input buffers (>= 1000: dimension / attribute / metadata tables) that differ after the call *)
          (obs_later : list nat).            (* input buffers that differ after writing into every variable of the returned file *)

Definition optnat_eqb := option_eqb Nat.eqb.
Definition natlist_eqb := list_eqb Nat.eqb.

(* ---- handles *)
Fixpoint runF (st : dstate) (gs : list (list hev)) (refs : list (list nat)) (obs uses : list (list (option nat))) : bool * dstate :=
  match gs, refs, obs, uses with
  | [], [], [], [] => (true, st)
  | g :: gs', r :: refs', ob :: obs', u :: uses' =>
      let st' := fold_left dstep g st in
      let (ok, stN) := runF st' gs' refs' obs' uses' in
      (list_eqb optnat_eqb (reads (fst st') r) ob && list_eqb optnat_eqb (snd st') u && ok, stN)
  | _, _, _, _ => (false, st)
  end.

Fixpoint opened_files (h : list prim) : list nat :=
  match h with [] => [] | Open f :: t => f :: opened_files t | Close _ :: t => opened_files t end.
(* the disk file object o was opened on: read off the history itself, independent of the model *)
Definition file_of (h : list prim) (o : nat) : option nat := nth_error (opened_files h) o.

Definition prim_is_close (o : nat) (e : prim) : bool := match e with Close o' => Nat.eqb o o' | _ => false end.

(* S after each user step: every referenced object that received no close so far reads its own file *)
Fixpoint derive_sources (h : list hev) : list nat :=
  match h with [] => [] | Derive o :: t => o :: derive_sources t | P _ :: t => derive_sources t end.

(* S after each user step: every referenced object that received no close so far reads its own file, and every derived file
   (derived from an object that had received no close) still returns its source's data *)
Fixpoint runS (past : list hev) (gs : list (list hev)) (refs : list (list nat)) (obs uses : list (list (option nat))) : bool :=
  match gs, refs, obs, uses with
  | [], [], [], [] => true
  | g :: gs', r :: refs', ob :: obs', u :: uses' =>
      let past' := past ++ g in
      let pp := prims_of past' in
      forallb (fun p => existsb (prim_is_close (fst p)) pp || optnat_eqb (snd p) (file_of pp (fst p))) (combine r ob)
      && Nat.eqb (length r) (length ob)
      && list_eqb optnat_eqb u (map (file_of pp) (derive_sources past'))
      && runS past' gs' refs' obs' uses'
  | _, _, _, _ => false
  end.

(* ---- aliasing *)
Fixpoint insert_sorted (x : nat) (l : list nat) : list nat :=
  match l with [] => [x] | y :: t => if Nat.leb x y then x :: l else y :: insert_sorted x t end.
Definition sort (l : list nat) : list nat := fold_right insert_sorted [] l.
Definition same_set (a b : list nat) : bool := natlist_eqb (sort (nodup Nat.eq_dec a)) (sort (nodup Nat.eq_dec b)).

Definition op_region (o : op) : nat := 0.   (* C05_isolation is full strength: no known-defect region *)

Definition checkF (c : case_t) : bool :=
  match c with
  | HCase gs refs obs slots uses =>
      let (ok, stN) := runF (st0, []) gs refs obs uses in
      ok && natlist_eqb (map o_ncid (objs (fst stN))) slots
  | ACase o al mu later =>
      same_set (aliased (impl_effs o)) al && same_set (mutated (impl_effs o)) mu
      && same_set (aliased (impl_effs o)) later          (* a later write shows exactly in the shared buffers *)
  end.

Definition checkS (c : case_t) : bool :=
  match c with
  | HCase gs refs obs _ uses => runS [] gs refs obs uses
  | ACase _ al mu later => match al, mu, later with [], [], [] => true | _, _, _ => false end
  end.

Definition region (c : case_t) : nat :=
  match c with
  | HCase _ _ _ _ _ => 0      (* C05_close_local is full strength: no known-defect region *)
  | ACase o _ _ _ => op_region o
  end.

Definition check (c : case_t) : verdict := (checkF c, checkS c, region c).
