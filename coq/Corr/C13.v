(* Correspondence for C13 (uamiv): Memmap reader vs record reader on the same reference-encoded file,
   plus the translated seek arithmetic against the offsets at which the library actually seeks. *)
From PNC Require Export Base.Util Base.Words Gen.Camx Model.Uamiv.
From PNC Require Import Corr.C09.
Local Open Scope Z_scope.

Record case_t := Case {
  c_u : uamiv;
  c_hours : list (Z * Z);
  c_ref : list word;
  c_mm_ok : bool;  c_mm : view;               (* Memmap reader *)
  c_rd_ok : bool;  c_rd : view;               (* record reader (Read.py) *)
  c_rd_timeout : bool;                        (* record reader did not terminate within the limit *)
  c_self : ur_self;                           (* the record reader's header fields as it computed them *)
  c_seeks : list (Z * Z * Z * Z * Z);         (* (date, time, spc, k, byte position the library seeked to) *)
  c_steps_by_timerange : option (list (Z * Z)) (* what the library's timerange() yielded *)
}.

Definition seek_ok (s : ur_self) (x : Z * Z * Z * Z * Z) : bool :=
  let '(d, t, spc, k, pos) := x in ur_recordposition s d t spc k =? pos.


Definition checkF (c : case_t) : bool :=
  zlist_eqb (enc (c_u c)) (c_ref c)
  && match mm_read (c_ref c) (4 * Z.of_nat (length (c_ref c))) with
     | Ok v => c_mm_ok c && view_eqb v (c_mm c)
     | Err => negb (c_mm_ok c)
     end
  && forallb (seek_ok (c_self c)) (c_seeks c).

(* S: both readers terminate and expose the same lengths / data / names *)
Definition checkS (c : case_t) : bool :=
  negb (c_rd_timeout c) &&
  (if c_mm_ok c && c_rd_ok c then view_eqb (c_mm c) (c_rd c) else true).

(* region 1: the file's time span crosses a year boundary in two-digit-year julian dates
   (end date numerically below the start date): timerange never terminates (C13_timerange_diverges_refuted) *)
Definition region (c : case_t) : nat :=
  let d0 := nth 0 (u_dates (c_u c)) 0 in let d1 := nth 2 (u_dates (c_u c)) 0 in
  if d1 <? d0 then 1%nat else 0%nat.

Definition check (c : case_t) : verdict := (checkF c, checkS c, region c).
