(* Correspondence for C13 (uamiv): Memmap reader vs record reader on the same reference-encoded file,
   plus the translated seek arithmetic against the offsets at which the library actually seeks. *)
From PNC Require Export Base.Util Base.Words Gen.Camx Model.Uamiv Model.One3d Model.TempHp Model.Wind.
From PNC Require Import Corr.C09.
Local Open Scope Z_scope.

Record ucase13 := Case {
  c_u : uamiv;
  c_hours : list (Z * Z);
  c_ref : list word;
  c_mm_ok : bool;  c_mm : view;               (* Memmap reader *)
  c_rd_ok : bool;  c_rd : view;               (* record reader (Read.py) *)
  c_rd_timeout : bool;                        (* record reader did not terminate within the limit *)
  c_self : ur_self;                           (* the record reader's header fields as it computed them *)
  c_seeks : list (Z * Z * Z * Z * Z);         (* (date, time, spc, k, byte position the library seeked to) *)
  c_steps_by_timerange : option (list (Z * Z)) (* what the library's timerange() yielded *)
}.

Definition seek_ok (s : ur_self) (x : Z * Z * Z * Z * Z) : bool :=
  let '(d, t, spc, k, pos) := x in ur_recordposition s d t spc k =? pos.


Definition checkF (c : ucase13) : bool :=
  zlist_eqb (enc (c_u c)) (c_ref c)
  && match mm_read (c_ref c) (4 * Z.of_nat (length (c_ref c))) with
     | Ok v => c_mm_ok c && view_eqb v (c_mm c)
     | Err => negb (c_mm_ok c)
     end
  && forallb (seek_ok (c_self c)) (c_seeks c).

(* S: both readers terminate and expose the same lengths / data / names *)
Definition checkS (c : ucase13) : bool :=
  negb (c_rd_timeout c) &&
  (if c_mm_ok c && c_rd_ok c then view_eqb (c_mm c) (c_rd c) else true).

(* region 1: the file's time span crosses a year boundary in two-digit-year julian dates
   (end date numerically below the start date): timerange never terminates (C13_timerange_diverges_refuted) *)
Definition region (c : ucase13) : nat :=
  let d0 := nth 0 (u_dates (c_u c)) 0 in let d1 := nth 2 (u_dates (c_u c)) 0 in
  if d1 <? d0 then 1%nat else 0%nat.

(* ---- one3d family (one3d / humidity / vertical_diffusivity): Memmap reader vs record reader ---------------- *)
Record ocase13 := OCase13 {
  o13_c : one3d;
  o13_hhmm : list Z;                          (* HHMM of each step as an integer *)
  o13_ref : list word;                        (* reference-encoded file *)
  o13_mm_ok : bool;  o13_mm : oview;          (* Memmap reader *)
  o13_rd_ok : bool;  o13_rd : oview;          (* record reader (Read.py): dims and data (it has no TFLAG) *)
  o13_rd_timeout : bool;
  o13_self_ok : bool;                         (* the record reader was constructed and its fields are integral *)
  o13_self : o3r_self;                        (* its header fields as it computed them *)
  o13_count : Z;                              (* its time_step_count *)
  o13_seeks : list (Z * Z * Z * Z)            (* (date, time, k, byte position) of the seeks of getArray, in order *)
}.
Definition oview_eqb_ns (a b : oview) : bool :=
  (ov_nx a =? ov_nx b) && (ov_ny a =? ov_ny b) && (ov_nz a =? ov_nz b) && (ov_ntimes a =? ov_ntimes b)
  && zlll_eqb (ov_data a) (ov_data b).
Definition o3r_self_eqb (a b : o3r_self) : bool :=
  (o3r_start_date a =? o3r_start_date b) && (o3r_start_time a =? o3r_start_time b)
  && (o3r_time_step a =? o3r_time_step b) && (o3r_nlayers a =? o3r_nlayers b)
  && (o3r_padded_size a =? o3r_padded_size b) && (o3r_data_start_byte a =? o3r_data_start_byte b).
Definition rec_stamps (c : one3d) (hhmm : list Z) : list (Z * Z) :=
  flat_map (fun p => repeat (os_date (fst p), snd p) (length (os_lays (fst p)))) (combine (o_steps c) hhmm).
Definition oseek_ok (s : o3r_self) (ws : list word) (ncell : Z) (x : (Z * Z * Z * Z) * list word) : bool :=
  let '((d, t, k, pos), cells) := x in
  (o3r_recordposition s d t k =? pos) && zlist_eqb (cells_at ws pos ncell) cells.

(* F: reference encoder == Coq encoder; Memmap model predicts the library; the hand-modelled probing predicts the
   record reader's header fields (or that it cannot be constructed) and, in its domain, its step count; every seek
   of getArray is at the TRANSLATED position and the cells it presents are the words found there *)
Definition ocheckF13 (c : ocase13) : bool :=
  let size := 4 * Z.of_nat (length (o13_ref c)) in
  zlist_eqb (o_enc (o13_c c)) (o13_ref c)
  && match o_mm_read (o_ny (o13_c c)) (o_nx (o13_c c)) (o13_ref c) size with
     | Ok v => o13_mm_ok c && oview_eqb v (o13_mm c)
     | Err => negb (o13_mm_ok c)
     end
  && match o3r_probe (nth 0 (o13_ref c) 0) (rec_stamps (o13_c c) (o13_hhmm c)) with
     | Some s => o13_self_ok c && o3r_self_eqb s (o13_self c)
                 && match o3r_step_count s size with Some n => n =? o13_count c | None => true end
     | None => negb (o13_self_ok c)
     end
  && forallb (oseek_ok (o13_self c) (o13_ref c) (o_nx (o13_c c) * o_ny (o13_c c)))
             (combine (o13_seeks c) (concat (ov_data (o13_rd c)))).
Definition ocheckS13 (c : ocase13) : bool :=
  negb (o13_rd_timeout c) &&
  (if o13_mm_ok c && o13_rd_ok c then oview_eqb_ns (o13_mm c) (o13_rd c) else true).
(* (single-step files: neither reader can infer the layer count, both raise: no disagreement, no region);
   region 13: the two-digit-year julian date changes its year between consecutive steps *)
Definition oregion13 (c : ocase13) : nat :=
  let ds := o_dates (o13_c c) in
  if existsb (fun p => negb (fst p / 1000 =? snd p / 1000)) (combine ds (tl ds)) then 13%nat else 0%nat.

(* ---- temperature: Memmap reader vs record reader ------------------------------------------------------ *)
Record tcase13 := TCase13 {
  t13_c : temperature; t13_hhmm : list Z; t13_ref : list word;
  t13_mm_ok : bool; t13_mm : tview; t13_rd_ok : bool; t13_rd : tview; t13_rd_timeout : bool;
  t13_self_ok : bool; t13_self : tr_self                     (* the record reader's fields as it computed them *)
}.
Definition tr_self_eqb (a b : tr_self) : bool :=
  (trs_nlayers a =? trs_nlayers b) && (trs_time_step a =? trs_time_step b) && (trs_count a =? trs_count b)
  && (trs_area_padded a =? trs_area_padded b) && (trs_padded a =? trs_padded b).
Definition t_rec_stamps (c : temperature) (hhmm : list Z) : list (Z * Z) :=
  flat_map (fun p => repeat (ts_date (fst p), snd p) (S (length (ts_air (fst p))))) (combine (t_steps c) hhmm).
(* F: Memmap model predicts the library; hand-modelled probing predicts the record reader's fields; the SURFTEMP /
   AIRTEMP it presents are the words at the positions generated from the TRANSLATED start and increment *)
Definition tcheckF13 (c : tcase13) : bool :=
  let size := 4 * Z.of_nat (length (t13_ref c)) in
  let ncell := t_nx (t13_c c) * t_ny (t13_c c) in
  zlist_eqb (t_enc (t13_c c)) (t13_ref c)
  && match t_mm_read (t_ny (t13_c c)) (t_nx (t13_c c)) (t13_ref c) size with
     | Ok v => t13_mm_ok c && tview_eqb v (t13_mm c)
     | Err => negb (t13_mm_ok c)
     end
  && match tr_probe (nth 0 (t13_ref c) 0) (t_rec_stamps (t13_c c) (t13_hhmm c)) with
     | Some s => t13_self_ok c && tr_self_eqb s (t13_self c)
     | None => negb (t13_self_ok c)
     end
  && (negb (t13_rd_ok c)
      || (let s := t13_self c in let fuel := S (length (t13_ref c)) in let cnt := Z.to_nat (trs_count s) in
          (* out = zeros((TSTEP, ...)); out[i] = v for every yielded position (IndexError beyond TSTEP) *)
          let pad := fun (A : Type) (l : list A) (z : A) => l ++ repeat z (cnt - length l) in
          let zc := repeat 0 (Z.to_nat ncell) in
          let sp := tr_surf_positions s fuel size in let ap := tr_air_positions s fuel size in
          (length sp <=? cnt)%nat && (length ap <=? cnt)%nat
          && zll_eqb (pad _ (map (fun pos => words_at (t13_ref c) pos ncell) sp) zc) (tv_surf (t13_rd c))
          && zlll_eqb (pad _ (map (fun pos => air_at (t13_ref c) pos ncell (trs_nlayers s)) ap) (repeat zc (Z.to_nat (trs_nlayers s))))
                      (tv_air (t13_rd c)))).
Definition tcheckS13 (c : tcase13) : bool :=
  negb (t13_rd_timeout c) && (if t13_mm_ok c && t13_rd_ok c then tview_eqb (t13_mm c) (t13_rd c) else true).
Definition year_cross (ds : list Z) : bool := existsb (fun p => negb (fst p / 1000 =? snd p / 1000)) (combine ds (tl ds)).
Definition tregion13 (c : tcase13) : nat :=
  let ds := map ts_date (t_steps (t13_c c)) in
  if year_cross ds then 13%nat else 0%nat.

(* ---- height_pressure ----------------------------------------------------------------------------------- *)
Record hcase13 := HCase13 {
  h13_c : heightpres; h13_hhmm : list Z; h13_ref : list word;
  h13_mm_ok : bool; h13_mm : hview; h13_rd_ok : bool; h13_rd : hview; h13_rd_timeout : bool;
  h13_self_ok : bool; h13_self : hpr_self; h13_count : Z;
  h13_seeks : list (Z * Z * Z * Z * Z)        (* (date, time, k, hp, byte position): getArray(0) then getArray(1) *)
}.
Definition hpr_self_eqb (a b : hpr_self) : bool :=
  (hpr_start_date a =? hpr_start_date b) && (hpr_start_time a =? hpr_start_time b)
  && (hpr_time_step a =? hpr_time_step b) && (hpr_nlayers a =? hpr_nlayers b)
  && (hpr_padded_size a =? hpr_padded_size b) && (hpr_data_start_byte a =? hpr_data_start_byte b).
Definition h_rec_stamps (c : heightpres) (hhmm : list Z) : list (Z * Z) :=
  flat_map (fun p => repeat (hs_date (fst p), snd p) (2 * length (hs_hp (fst p)))) (combine (h_steps c) hhmm).
Definition hseek_ok (s : hpr_self) (ws : list word) (ncell : Z) (x : (Z * Z * Z * Z * Z) * list word) : bool :=
  let '((d, t, k, hp, pos), cells) := x in
  (hpr_recordposition s d t k hp =? pos) && zlist_eqb (cells_at ws pos ncell) cells.
Definition hcheckF13 (c : hcase13) : bool :=
  let size := 4 * Z.of_nat (length (h13_ref c)) in
  zlist_eqb (h_enc (h13_c c)) (h13_ref c)
  && match h_mm_read (h_ny (h13_c c)) (h_nx (h13_c c)) (h13_ref c) size with
     | Ok v => h13_mm_ok c && hview_eqb v (h13_mm c)
     | Err => negb (h13_mm_ok c)
     end
  && match hpr_probe (nth 0 (h13_ref c) 0) (h_rec_stamps (h13_c c) (h13_hhmm c)) with
     | Some s => h13_self_ok c && hpr_self_eqb s (h13_self c)
                 && match hpr_step_count s size with Some n => n =? h13_count c | None => true end
     | None => negb (h13_self_ok c)
     end
  && forallb (hseek_ok (h13_self c) (h13_ref c) (h_nx (h13_c c) * h_ny (h13_c c)))
             (combine (h13_seeks c) (concat (hv_hght (h13_rd c)) ++ concat (hv_pres (h13_rd c)))).
Definition hcheckS13 (c : hcase13) : bool :=
  negb (h13_rd_timeout c) && (if h13_mm_ok c && h13_rd_ok c then hview_eqb (h13_mm c) (h13_rd c) else true).
Definition hregion13 (c : hcase13) : nat :=
  let ds := map hs_date (h_steps (h13_c c)) in
  if year_cross ds then 13%nat else 0%nat.

(* ---- wind: Memmap reader vs record reader ---------------------------------------------------------------- *)
Record wcase13 := WCase13 {
  w13_c : wind; w13_ref : list word;
  w13_mm_status : Z; w13_mm : wview;          (* 0 = read, 1 = raised, 2 = did not return *)
  w13_rd_ok : bool; w13_rd : wview; w13_rd_timeout : bool;
  w13_self_ok : bool; w13_self : wr_self;     (* the record reader's fields as it computed them *)
  w13_seeks : list (Z * Z * Z * Z * Z)        (* (date, time, k, duv, byte position) of getArray, in order *)
}.
Definition wseek_ok (s : wr_self) (ws : list word) (ncell : Z) (x : (Z * Z * Z * Z * Z) * list word) : bool :=
  let '((d, t, k, duv, pos), cells) := x in
  (wr_recordposition s d t k duv =? pos) && zlist_eqb (w_cells_at ws pos ncell) cells.
(* F: Memmap model predicts the library (read / raise / no return); every seek of the record reader's getArray is at the
   TRANSLATED position and the cells it presents are the words found there (per step: the U layers, then the V layers) *)
Definition wcheckF13 (c : wcase13) : bool :=
  let size := 4 * Z.of_nat (length (w13_ref c)) in
  zlist_eqb (w_enc (w13_c c)) (w13_ref c)
  && match w_mm_read (w_ny (w13_c c)) (w_nx (w13_c c)) (w13_ref c) size with
     | WOk v => (w13_mm_status c =? 0) && wview_eqb v (w13_mm c)
     | WErr => w13_mm_status c =? 1
     | WHang => w13_mm_status c =? 2
     end
  && (negb (w13_self_ok c)
      || forallb (wseek_ok (w13_self c) (w13_ref c) (w_nx (w13_c c) * w_ny (w13_c c)))
                 (combine (w13_seeks c)
                          (concat (map (fun p => fst p ++ snd p) (combine (wv_u (w13_rd c)) (wv_v (w13_rd c))))))).
Definition wcheckS13 (c : wcase13) : bool :=
  negb (w13_rd_timeout c) && negb (w13_mm_status c =? 2)
  && (if (w13_mm_status c =? 0) && w13_rd_ok c then wview_eqb (w13_mm c) (w13_rd c) else true).
(* region 13: year crossing. (Regions 11 / 12 -- the record reader never returning on single-step and 1x1 files -- were
   retired by f70e760: single-step files make both readers or the record reader raise, which is not a disagreement.) *)
Definition wregion13 (c : wcase13) : nat :=
  let ds := map ws_date (w_steps (w13_c c)) in
  if year_cross ds then 13%nat else 0%nat.

Inductive case_t :=
| WC (c : wcase13)
| UC (c : ucase13)
| OC (c : ocase13)
| TC (c : tcase13)
| HC (c : hcase13).

Definition check (c : case_t) : verdict :=
  match c with
  | UC c => (checkF c, checkS c, region c)
  | OC c => (ocheckF13 c, ocheckS13 c, oregion13 c)
  | TC c => (tcheckF13 c, tcheckS13 c, tregion13 c)
  | HC c => (hcheckF13 c, hcheckS13 c, hregion13 c)
  | WC c => (wcheckF13 c, wcheckS13 c, wregion13 c)
  end.
