(* C14 uses the same case record and checks as C09 (the cut point is a field of the case) for the CAMx formats, and
   Corr/BpchPrefix.v (built on the C18 case record) for GEOS-Chem bpch prefixes. Corr/C09.v itself is untouched:
   the CAMx terms are wrapped with `Old`, bpch terms use `BP`; Model.Bpch is only Required, never Imported here
   (it shares names with Model.Uamiv). *)
From PNC Require Export Corr.C09.
Require PNC.Corr.BpchPrefix.

Inductive case14 :=
| Old (c : Corr.C09.case_t)
| BP (c : PNC.Corr.BpchPrefix.bcase).

Definition check (c : case14) : verdict :=
  match c with
  | Old c => Corr.C09.check c
  | BP c => PNC.Corr.BpchPrefix.bcheck c
  end.
