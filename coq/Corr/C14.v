(* C14 uses the same case record and checks as C09 (the cut point is a field of the case). *)
From PNC Require Export Corr.C09.
