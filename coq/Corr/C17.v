(* Correspondence for C17: a case is either one getinterpweights + interpDimension call or one
   sigma2coeff call; numbers are integers in the case's dyadic unit, library floats arrive as
   exact fractions (num, den). *)
From PNC Require Export Base.Util Model.Interp.
Local Open Scope Z_scope.

Definition frac := (Z * Z)%type.
Inductive case_t :=
| KW (extrap : bool) (xs nxs data : list Z)
     (obsW : option (list (list frac)))      (* per target point: its column of weights *)
     (obsOut : list frac)                    (* interpDimension of data, per target point *)
| KS (fr to : list Z) (obsC : list (list frac))    (* coeff[lay][li] *)
(* interpDimension with an N-D (per-column) coordinate: per column (in processing order) the
   source levels, the target levels and, per interpolated variable, an optional tag (a, b)
   meaning data = a * source + b, the data and the library's output (integer-typed variables
   come out as double, like every other interpolated variable) *)
| KN (extrap : bool) (cols : list (list Z * list Z * list (option (Z * Z) * list Z * list frac))).

Definition feq (n d : Z) (f : frac) : bool := (0 <? snd f) && (n * snd f =? fst f * d).
Fixpoint all2 {A B} (f : A -> B -> bool) (a : list A) (b : list B) : bool :=
  match a, b with
  | [], [] => true
  | x :: a', y :: b' => f x y && all2 f a' b'
  | _, _ => false
  end.
Definition fadd (a b : frac) : frac := (fst a * snd b + fst b * snd a, snd a * snd b).
Definition fsum (l : list frac) : frac := fold_right fadd (0, 1) l.
Definition fmulz (a : frac) (z : Z) : frac := (fst a * z, snd a).
Definition fis (a : frac) (z : Z) : bool := (0 <? snd a) && (fst a =? z * snd a).

Definition minl (l : list Z) := fold_right Z.min (hd 0 l) l.
Definition maxl (l : list Z) := fold_right Z.max (hd 0 l) l.

Definition ncol_F (e : bool) (col : list Z * list Z * list (option (Z * Z) * list Z * list frac)) : bool :=
  let '(xs, nxs, vars) := col in
  forallb (fun v => let '(_, data, out) := v in
    all2 (fun x o => match impl_weights e xs x with
                     | Some wd => feq (fst (apply_col wd data)) (snd (apply_col wd data)) o
                     | None => false end) nxs out) vars.

(* per column: a variable that is linear in the source coordinate comes out linear in the target
   coordinate (inside the source range, or everywhere when extrapolating); target = source
   leaves every variable unchanged *)
Definition ncol_S (e : bool) (col : list Z * list Z * list (option (Z * Z) * list Z * list frac)) : bool :=
  let '(xs, nxs, vars) := col in
  forallb (fun v => let '(tag, data, out) := v in
    (match tag with
     | Some (a, b) => all2 (fun x o => negb (e || ((minl xs <=? x) && (x <=? maxl xs))) || fis o (a * x + b)) nxs out
     | None => Nat.eqb (length out) (length nxs)
     end)
    && (negb (zlist_eqb nxs xs) || all2 (fun dv o => fis o dv) data out)) vars.

Definition checkF (k : case_t) : bool :=
  match k with
  | KN e cols => forallb (ncol_F e) cols
  | KW e xs nxs data oW oOut =>
      match oW with
      | None => forallb (fun x => match impl_weights e xs x with None => true | _ => false end) nxs
      | Some cols =>
          all2 (fun x col => match impl_weights e xs x with
                             | Some (w, d) => all2 (fun n f => feq n d f) w col
                             | None => false end) nxs cols
          && all2 (fun x o => match impl_weights e xs x with
                              | Some wd => feq (fst (apply_col wd data)) (snd (apply_col wd data)) o
                              | None => false end) nxs oOut
      end
  | KS fr to oC =>
      all2 (fun rowD orow => all2 (fun n f => feq n (snd rowD) f) (fst rowD) orow)
           (combine (impl_fdp fr to) (thick fr)) oC
  end.

(* the property evaluated on what the library returned *)
Definition col_ok (e : bool) (xs : list Z) (x : Z) (col : list frac) : bool :=
  fis (fsum col) 1                                                   (* partition of unity *)
  && (e || forallb (fun f => (0 <=? fst f) && (0 <? snd f)) col)     (* non-negative unless extrapolating *)
  && (negb ((minl xs <=? x) && (x <=? maxl xs))
      || fis (fsum (map (fun p => fmulz (fst p) (snd p)) (combine col xs))) x)   (* reproduces f(x)=x, hence every linear profile *)
  && all2 (fun f c => negb (c =? x) || fis f 1) col xs.               (* identity at source points *)

Definition within (fr to : list Z) : bool :=
  forallb (fun v => (last fr 0 <=? v) && (v <=? hd 0 fr)) to.

Definition checkS (k : case_t) : bool :=
  match k with
  | KN e cols => forallb (ncol_S e) cols
  | KW e xs nxs data oW oOut =>
      match oW with
      | None => false
      | Some cols => all2 (col_ok e xs) nxs cols
      end
  | KS fr to oC =>
      if within fr to then
        (* coeff * thickness = overlap length, for every pair of layers *)
        all2 (fun rowD orow => all2 (fun n f => feq n (snd rowD) f) (fst rowD) orow)
             (combine (spec_fdp fr to) (thick fr)) oC
        (* shared top and bottom: every source layer is fully distributed *)
        && (negb ((hd 0 fr =? hd 0 to) && (last fr 0 =? last to 0))
            || forallb (fun orow => fis (fsum orow) 1) oC)
      else true
  end.

Definition region (k : case_t) : nat :=
  match k with
  | KW _ xs _ _ _ _ => if (length xs <? 2)%nat then 1%nat else 0%nat
  | KS _ _ _ => 0%nat
  | KN _ _ => 0%nat
  end.

Definition check (k : case_t) : verdict := (checkF k, checkS k, region k).
