(* C14 for GEOS-Chem bpch: byte prefixes of reference-encoded bpch files through bpch1.
   Built on the C18 case record (Corr/C18.v) and the model of Model/Bpch.v; meant to be used QUALIFIED from Corr/C14.v (`Require PNC.Corr.BpchPrefix.` without Import: Model.Bpch and Model.Uamiv share names such as view, v_nx, enc).
   F : reference encoder == Coq enc and bpch1 == impl_open on the cut file (C18's checkF).
   S : the C14 statement - the reader raises, or presents exactly the first k WHOLE time blocks of the full file.
   region : bpch_tracer_cut_region when the cut is exactly at a tracer boundary strictly inside the first time block
            (finding C14-bpch-first-block-tracer-cut: the reader then presents one time block with the first j tracers;
            inherent to the format, a bpch file carries no tracer count), else 0.
   Theorem behind it: Proofs/BpchPrefixThm.v prefix_open (= Props/C18.v C18_every_prefix). *)
From PNC Require Import Base.Util Base.Words Model.Bpch Corr.C18.
Import Coq.Lists.List. Import ListNotations.
Local Open Scope Z_scope.

Definition bpch_tracer_cut_region : nat := 18%nat.

Definition bcase := Corr.C18.case_t.

Definition whole_blocks_ok (c : bcase) : bool :=
  negb (c_open_ok c)
  || existsb (fun k => (136 + 4 * (Z.of_nat k * tb_wordsZ (tb0 (c_f c))) <=? c_size c)
                       && view_match (c_scaled c) (view_of (c_T c) (c_D c) (trunc_times k (c_f c))) (c_view c))
             (seq 1 (length (f_times (c_f c)))).
Definition at_tracer_cut (c : bcase) : bool :=
  existsb (fun j => c_size c =? 136 + 4 * tb_wordsZ (firstn j (tb0 (c_f c)))) (seq 1 (length (tb0 (c_f c)) - 1)).

Definition bcheck (c : bcase) : verdict :=
  (Corr.C18.checkF c && is_cut c,
   whole_blocks_ok c,
   if at_tracer_cut c then bpch_tracer_cut_region else 0%nat).
