(* Correspondence for C15: one case = one history of opens run in a fresh interpreter.
   Identifiers (names, reader classes, files, exception types, presentations) are assigned per case by the harness. *)
From PNC Require Import Base.Util.
From PNC Require Export Model.Registry.

Record case_t := Case {
  c_reg0 : registry;                                 (* _readers right after `import PseudoNetCDF` in the history's interpreter *)
  c_acc : list (file * list (reader * outcome));     (* measured accept matrix of the files involved (rejecting readers omitted) *)
  c_hist : list step;
  c_obs : list (result * nat * nat);                 (* per step: getreader's result, presentation id (class+dims+data), len(_readers) after *)
  c_regN : registry;                                 (* _readers after the history *)
  c_fresh : list (result * nat);                     (* per step: result and presentation id of the same open in a fresh interpreter *)
  c_dat : list nat;                                  (* per step: id of (dimensions, variable data) presented, class ignored *)
  c_fdat : list nat;                                 (* per step: the same id for the fresh-interpreter open *)
  c_named : list (option nat)                        (* per auto step on a readable self-describing file: the (dims, data) id of the open with
                                                        the file's true format named explicitly (fresh interpreter) *)
}.

Definition res3_eqb (a b : result * nat) : bool := result_eqb (fst a) (fst b) && Nat.eqb (snd a) (snd b).
Definition pair_eqb (a b : nat * nat) : bool := Nat.eqb (fst a) (fst b) && Nat.eqb (snd a) (snd b).

Definition checkF (c : case_t) : bool :=
  let acc := acc_of (c_acc c) in
  let run := impl_run acc (c_reg0 c) (c_hist c) in
  nodup_names (c_reg0 c)                          (* registerreader never registers a name twice *)
  && list_eqb pair_eqb (fst run) (c_regN c)
  && list_eqb res3_eqb (snd run) (map (fun o => (fst (fst o), snd o)) (c_obs c))
  (* the fresh interpreter is the model started from the initial registry *)
  && list_eqb result_eqb (spec_results acc (c_reg0 c) (c_hist c)) (map fst (c_fresh c)).

Fixpoint named_ok (h : list step) (dat : list nat) (named : list (option nat)) : bool :=
  match h, dat, named with
  | [], [], [] => true
  | Auto _ _ :: h', d :: dat', Some dn :: named' => Nat.eqb d dn && named_ok h' dat' named'
  | _ :: h', _ :: dat', _ :: named' => named_ok h' dat' named'
  | _, _, _ => false
  end.

(* S: every open of the history selects the reader and presents the data a fresh process does, and for readable
   self-describing files the auto-detected open presents the dimensions and data of the explicitly named open. *)
Definition checkS (c : case_t) : bool :=
  list_eqb res3_eqb (map (fun o => (fst (fst o), snd (fst o))) (c_obs c)) (c_fresh c)
  && named_ok (c_hist c) (c_dat c) (c_named c).

(* region 1 (input-determined: both sides are measured in fresh interpreters, not in the history under test):
   some probed file is SELECTED by a class whose presentation differs from the explicitly named open (several registered
   classes claim the file and registry order decides: complement of the hypothesis of C15_auto_equals_named_partial on the
   measured files).  A file whose fresh auto-detection RAISES while the named open works is not a known region (that was the
   uamiv.isMine defect, repaired).  History dependence has no known-defect region: C15_history_independent is full strength. *)
Definition is_selected (r : result) : bool := match r with Selected _ => true | _ => false end.

Fixpoint named_mismatch (want_selected : bool) (h : list step) (fdat : list nat) (named : list (option nat))
  (fresh : list (result * nat)) : bool :=
  match h, fdat, named, fresh with
  | Auto _ _ :: h', d :: fdat', Some dn :: named', fr :: fresh' =>
      (negb (Nat.eqb d dn) && Bool.eqb (is_selected (fst fr)) want_selected)
      || named_mismatch want_selected h' fdat' named' fresh'
  | _ :: h', _ :: fdat', _ :: named', _ :: fresh' => named_mismatch want_selected h' fdat' named' fresh'
  | _, _, _, _ => false
  end.

(* A first-clause failure (some open differs from the fresh-interpreter open of the same path) is never attributed to the
   known second-clause finding: such a case is region 0 whatever files it probes. *)
Definition clause1 (c : case_t) : bool :=
  list_eqb res3_eqb (map (fun o => (fst (fst o), snd (fst o))) (c_obs c)) (c_fresh c).

Definition region (c : case_t) : nat :=
  if negb (clause1 c) then 0 else
  if named_mismatch false (c_hist c) (c_fdat c) (c_named c) (c_fresh c) then 0
  else if named_mismatch true (c_hist c) (c_fdat c) (c_named c) (c_fresh c) then 1 else 0.

Definition check (c : case_t) : verdict := (checkF c, checkS c, region c).
