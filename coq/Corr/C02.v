(* Correspondence for C02: one case = one file (dimension lengths, variables as (dimension ids,
   C-order cells; None = masked)), one keyword list (dimension id, selector) in call order, and
   what the library's sliceDimensions returned (None = raised): new dimension lengths (a new
   POINTS dimension, id = number of input dimensions, is appended) and per variable its dimension
   ids and C-order cells. *)
From PNC Require Export Base.Util Base.ArrFlat Model.Slice Gen.SliceDimSrc.
Local Open Scope Z_scope.

(* a cell = (stored value, masked?) ; a masked cell's stored value is compared only where the
   library exposes it, i.e. never: equality below ignores the value of masked cells *)
Definition cell := (Z * bool)%type.
Definition cell_eqb (a b : cell) : bool :=
  Bool.eqb (snd a) (snd b) && (snd a || Z.eqb (fst a) (fst b)).
Definition ovar := (list nat * list cell)%type.

Record case_t := Case {
  c_dims : list nat;
  c_vars : list ovar;
  c_kws  : list (nat * sel);
  c_obs  : option (list nat * list ovar)
}.

(* string form slice_dim(f, 'dim,a[,b[,c]]'): the keyword list is DERIVED in Coq from the numbers by the
   generated (tie T) argument bookkeeping; an argument list the code cannot unpack becomes a
   selector that fails (step 0) *)
Definition kws_of_args (k : nat) (args : list (option Z)) : list (nat * sel) :=
  match sel_of_args args with
  | Some s => [(k, s)]
  | None => [(k, SSlice None None (Some 0))]
  end.

Definition natlist_eqb := list_eqb Nat.eqb.
Definition cells_eqb := list_eqb cell_eqb.
Definition ovar_eqb (a b : ovar) : bool := natlist_eqb (fst a) (fst b) && cells_eqb (snd a) (snd b).

Definition to_file (c : case_t) : file cell :=
  File (c_dims c) (map (fun v => Var (fst v) (snd v)) (c_vars c)).
Definition of_file (f : file cell) : list nat * list ovar :=
  (f_dims f, map (fun v => (v_dims v, v_data v)) (f_vars f)).

Definition obs_eqb (m : option (file cell)) (o : option (list nat * list ovar)) : bool :=
  match m, o with
  | None, None => true
  | Some f, Some o => natlist_eqb (fst (of_file f)) (fst o) && list_eqb ovar_eqb (snd (of_file f)) (snd o)
  | _, _ => false
  end.

Definition checkF (c : case_t) : bool := obs_eqb (impl_slice_file (to_file c) (c_kws c)) (c_obs c).
Definition checkS (c : case_t) : bool := obs_eqb (spec_slice_file (to_file c) (c_kws c)) (c_obs c).

(* the property is proved for the model of the repaired code on every input: one region *)
Definition region (c : case_t) : nat := 0%nat.

Definition check (c : case_t) : verdict := (checkF c, checkS c, region c).
