(* Correspondence for C10: an IOAPI file as observed on the real object (the redundant metadata encodings),
   an operation sequence, and the observation after every step (Raise = the step raised; the sequence stops). *)
From PNC Require Export Base.Util Model.FileStruct Model.Ioapi.
Local Open Scope Z_scope.

Record case_t := Case {
  c_init : io;
  c_ops : list iop;
  c_obs : list (res io)
}.

Definition rows_eqb (a b : list (Z * Z)) : bool := list_eqb pair_eqb a b.
Definition onat_eqb (a b : option nat) : bool := option_eqb Nat.eqb a b.
Definition io_eqb (f g : io) : bool :=
  Nat.eqb (nt f) (nt g) && Nat.eqb (nl f) (nl g) && onat_eqb (nr f) (nr g) && onat_eqb (nc f) (nc g)
  && Nat.eqb (vardim f) (vardim g) && Bool.eqb (ts_unl f) (ts_unl g)
  && names_eqb (dvars f) (dvars g)
  && match tflag f, tflag g with
     | Some (a, ra), Some (b, rb) => Nat.eqb a b && rows_eqb ra rb
     | None, None => true | _, _ => false end
  && Nat.eqb (nvars f) (nvars g) && names_eqb (varlist f) (varlist g)
  && Nat.eqb (a_nl f) (a_nl g) && Nat.eqb (a_nr f) (a_nr g) && Nat.eqb (a_nc f) (a_nc g)
  && Nat.eqb (nvgl f) (nvgl g) && (sdate f =? sdate g) && (stime f =? stime g) && (tstep f =? tstep g).
Definition res_eqb (a b : res io) : bool :=
  match a, b with Ok f, Ok g => io_eqb f g | Raise, Raise => true | _, _ => false end.

(* F: step by step from the OBSERVED state; the model claims faithfulness on coherent inputs only *)
Fixpoint traceF (f : io) (ops : list iop) (obs : list (res io)) : bool :=
  match ops, obs with
  | [], [] => true
  | o :: t, r :: rt => if negb (coherentb f) then true else
                       res_eqb (istep f o) r && match r with Ok g => traceF g t rt | Raise => match t, rt with [], [] => true | _, _ => false end end
  | _, _ => false
  end.
Definition checkF (c : case_t) : bool := traceF (c_init c) (c_ops c) (c_obs c).

(* S: the constructed / read file and the result of every step are coherent *)
Definition checkS (c : case_t) : bool :=
  coherentb (c_init c) && forallb (fun r => match r with Ok g => coherentb g | Raise => true end) (c_obs c).

Fixpoint obs_region (f : io) (ops : list iop) (obs : list (res io)) : nat :=
  match ops, obs with
  | o :: t, r :: rt => match iop_region f o with
                       | O => match r with Ok g => obs_region g t rt | Raise => O end
                       | k => k
                       end
  | _, _ => O
  end.
Definition region (c : case_t) : nat := obs_region (c_init c) (c_ops c) (c_obs c).
Definition check (c : case_t) : verdict := (checkF c, checkS c, region c).
