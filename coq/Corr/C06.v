(* Correspondence for C06: a case is either one `f1 op f2` or one `f.mask(...)`, with the
   library's observed result. *)
From PNC Require Export Base.Util Model.Arith Model.EvalExpr.
Require Export QArith.
Local Close Scope Q_scope.
Local Open Scope nat_scope.

Definition F_ (n : Z) (d : positive) : rv := Fin (Qmake n d).

Inductive obs := ORaise (kind : nat) (* 1 = IndexError, 0 = other *) | OVars (vars : list (list ocell)).

Inductive case_t :=
| CBin (cls : nat) (coords : list nat) (vs : list bvar) (o : obs)
| CMask (coords : list nat) (with_coords : bool) (w : option wherearg) (p : preds) (vs : list mvar) (o : obs)
| CEval (f : efile) (copyall : bool) (ss : list stmt) (o : option (list (nat * list ocell))) (* None = raised *).

Definition rv_eqb (a b : rv) : bool :=
  match a, b with
  | Fin x, Fin y => Qeq_bool x y
  | PInf, PInf | NInf, NInf | NaN, NaN => true
  | _, _ => false
  end.
Definition ocell_eqb := option_eqb rv_eqb.
Definition vars_eqb := list_eqb (list_eqb ocell_eqb).

Definition mres_matches (mr : mres) (o : obs) : bool :=
  match mr, o with
  | MOk r, OVars os => vars_eqb r os
  | MIndexError, ORaise 1 => true
  | _, _ => false
  end.

Definition checkF (c : case_t) : bool :=
  match c with
  | CBin cls coords vs (OVars os) => vars_eqb (impl_binop cls coords vs) os
  | CBin _ _ _ (ORaise _) => false
  | CMask coords wc w p vs o => mres_matches (impl_mask coords wc w p vs) o
  | CEval f ca ss o =>
      match impl_eval f ca ss, o with
      | EOk r, Some os =>
          list_eqb (fun p q => (fst p =? fst q) && list_eqb ocell_close (snd p) (snd q))
                   (map (fun p => (fst p, map visible (e_cells (snd p)))) r) os
      | ERaise, None => true
      | _, _ => false
      end
  end.

Definition checkS (c : case_t) : bool :=
  match c with
  | CBin cls coords vs (OVars os) => vars_eqb (spec_binop cls coords vs) os
  | CBin _ _ _ (ORaise _) => false
  | CMask coords wc w p vs o => mres_matches (spec_mask coords wc w p vs) o
  | CEval f ca ss o =>
      match o with
      | Some os => spec_eval_ok f ca ss os
      | None => match exec false (file_env f) ss with None => true | Some _ => false end
      end
  end.

(* region 1: eval statements in which a plain file variable stands to the left of a bare numpy masked
   array (np.ma.* call) and the dropped mask is observable *)
Definition region (c : case_t) : nat :=
  match c with
  | CEval f _ ss _ => if eval_quirk_region f ss then 1 else 0
  | _ => 0
  end.

Definition check (c : case_t) : verdict := (checkF c, checkS c, region c).
