(* Correspondence for C16: one case = one val2idx call (directly or through time2idx) on an
   in-memory file; all numbers are integers in the case's dyadic unit. *)
From PNC Require Export Base.Util Model.Val2idx.
Local Open Scope Z_scope.

Record case_t := Case {
  k_cfg : cfg;
  k_xs : list Z;          (* query values *)
  k_obs : outcome         (* what the library returned / raised; coord in the model's unit *)
}.

Definition cell_eqb (a b : cell) : bool :=
  match a, b with Idx i, Idx j => i =? j | Masked, Masked => true | _, _ => false end.
Definition err_eqb (a b : err) : bool :=
  match a, b with
  | ENotImpl, ENotImpl | ENotMono, ENotMono | EOutOfBounds, EOutOfBounds
  | EIndex, EIndex => true
  | _, _ => false end.
Definition outcome_eqb (a b : outcome) : bool :=
  match a, b with
  | Raised e, Raised e' => err_eqb e e'
  | Done r w co, Done r' w' co' => list_eqb cell_eqb r r' && Bool.eqb w w' && zlist_eqb co co'
  | _, _ => false end.

Definition checkF (k : case_t) : bool := outcome_eqb (impl_val2idx (k_cfg k) (k_xs k)) (k_obs k).

(* malformed input (bad option word, coordinate not strictly monotonic, fewer than 2 values):
   outside the property's domain; a bad option word must be rejected, the rest is F only *)
Definition malformed (c : cfg) : bool :=
  bad_opts c || negb (asc (c_cs c) || desc (c_cs c)) || negb (2 <=? lenZ (c_cs c))
  || negb (asc (dir_edges c) || desc (dir_edges c)).

Definition checkS (k : case_t) : bool :=
  if bad_opts (k_cfg k) then match k_obs k with Raised ENotImpl => true | _ => false end
  else if malformed (k_cfg k) then true
  else spec_outcome (k_cfg k) (k_xs k) (k_obs k).

(* all exact-stream cases lie in the proved domain; the only known-defect region (binary64
   rounding next to an edge) is assigned by the Python oracle on the float stream *)
Definition region (k : case_t) : nat := 0%nat.

Definition check (k : case_t) : verdict := (checkF k, checkS k, region k).
