(* Correspondence for C09 (uamiv stream): reference codec <-> library, both directions. *)
From PNC Require Export Base.Util Base.Words Model.Uamiv.
Local Open Scope Z_scope.

Record ucase := Case {
  c_u : uamiv;                         (* the generated content *)
  c_hours : list (Z * Z);              (* begin / end hour of each step as integers *)
  c_ref : list word;                   (* file produced by the Python reference encoder *)
  c_cut : Z;                           (* number of BYTES of c_ref given to the library (= 4*|c_ref| when whole) *)
  c_open_ok : bool;                    (* library Memmap reader opened the file *)
  c_view : view;                       (* what it presented (zeros when it raised) *)
  c_tflag : list (Z * Z);              (* TFLAG[:,0,:] *)
  c_etflag : list (Z * Z);
  c_written : list word                (* bytes the library WRITER produced from the opened file *)
}.

Definition zlll_eqb := list_eqb zll_eqb.
Definition zllll_eqb := list_eqb zlll_eqb.
Definition pair_eqb (a b : Z * Z) := (fst a =? fst b) && (snd a =? snd b).

Definition view_eqb (a b : view) : bool :=
  (v_nspec a =? v_nspec b) && (v_nx a =? v_nx b) && (v_ny a =? v_ny b) && (v_nz a =? v_nz b)
  && (v_ntimes a =? v_ntimes b) && zll_eqb (v_names a) (v_names b)
  && zll_eqb (v_dates a) (v_dates b) && zllll_eqb (v_data a) (v_data b).

Definition steps_eqb (a b : list (list word * list (list (list word)))) : bool :=
  list_eqb (fun x y => zlist_eqb (fst x) (fst y) && zlll_eqb (snd x) (snd y)) a b.

Definition uamiv_eqb (a b : uamiv) : bool :=
  zlist_eqb (u_name a) (u_name b) && zlist_eqb (u_note a) (u_note b) && (u_itzon a =? u_itzon b)
  && zlist_eqb (u_dates a) (u_dates b) && zlist_eqb (u_gpre a) (u_gpre b)
  && (u_nx a =? u_nx b) && (u_ny a =? u_ny b) && (u_nz a =? u_nz b) && zlist_eqb (u_gpost a) (u_gpost b)
  && zll_eqb (u_spc a) (u_spc b) && steps_eqb (u_steps a) (u_steps b).

Definition bdates (u : uamiv) := map (fun st => nth 0 (fst st) 0) (u_steps u).
Definition edates (u : uamiv) := map (fun st => nth 2 (fst st) 0) (u_steps u).

Definition whole (c : ucase) : bool := c_cut c =? 4 * Z.of_nat (length (c_ref c)).
Definition given (c : ucase) : list word := firstn (Z.to_nat (c_cut c / 4)) (c_ref c).

(* F: the Python reference encoder is the Coq spec encoder; the reader model predicts the library *)
Definition checkF (c : ucase) : bool :=
  zlist_eqb (enc (c_u c)) (c_ref c)
  && match mm_read (given c) (c_cut c) with
     | Ok v => c_open_ok c && view_eqb v (c_view c)
               && list_eqb pair_eqb (convert_camx_time (map (fun d => nth 0 d 0) (v_dates v))
                                        (firstn (length (v_dates v)) (map fst (c_hours c)))) (c_tflag c)
               && list_eqb pair_eqb (convert_camx_time (map (fun d => nth 2 d 0) (v_dates v))
                                        (firstn (length (v_dates v)) (map snd (c_hours c)))) (c_etflag c)
     | Err => negb (c_open_ok c)
     end.

(* S, whole file: library reader presents exactly the encoded content (direction 2) and the
   reference decoder recovers exactly the content from the library writer's output (direction 1).
   S, cut file (C14): error, or exactly k complete steps identical to the full file's. *)
Definition checkS (c : ucase) : bool :=
  if whole c then
    c_open_ok c && view_eqb (c_view c) (view_of (c_u c))
    && list_eqb pair_eqb (c_tflag c) (spec_camx_time (bdates (c_u c)) (map fst (c_hours c)))
    && list_eqb pair_eqb (c_etflag c) (spec_camx_time (edates (c_u c)) (map snd (c_hours c)))
    && match dec (c_written c) with Some u' => uamiv_eqb u' (c_u c) | None => false end
  else
    negb (c_open_ok c)
    || (let k := Z.to_nat (v_ntimes (c_view c)) in
        (0 <? v_ntimes (c_view c)) && (Z.of_nat k <=? Z.of_nat (length (u_steps (c_u c))))
        && view_eqb (c_view c) (view_of (truncate_steps k (c_u c)))
        && list_eqb pair_eqb (c_tflag c) (firstn k (spec_camx_time (bdates (c_u c)) (map fst (c_hours c))))
        && list_eqb pair_eqb (c_etflag c) (firstn k (spec_camx_time (edates (c_u c)) (map snd (c_hours c))))).

Definition region (c : ucase) : nat := 0%nat.

(* Second kind of case, for every record-structured format: `recs` are the record payloads the
   reference encoder (harness/camxfmt.py, written from the format description) produced for the content,
   `ref` its byte stream, `written` what the LIBRARY writer produced from the file the library reader
   opened.  F: the Python framing is the Coq framing.  S: the Coq reference decoder walks the library
   writer's output (markers agree and tile the file exactly) and recovers exactly the records. *)
Inductive case_t :=
| U (c : ucase)
| R (ref : list word) (recs : list (list word)) (w_ok : bool) (written : list word).

Definition check (c : case_t) : verdict :=
  match c with
  | U c => (checkF c, checkS c, region c)
  | R ref recs w_ok written =>
      (zlist_eqb (frame recs) ref,
       if w_ok then match unframe_all written with Some rs => zll_eqb rs recs | None => false end else true,
       0%nat)
  end.
