(* Correspondence for C09 (uamiv stream): reference codec <-> library, both directions. *)
From PNC Require Export Base.Util Base.Words Model.Uamiv Model.YearEnd Model.Lbdy Model.One3d Model.TempHp Model.Wind Model.CloudRain Model.Landuse.
Local Open Scope Z_scope.

Record ucase := Case {
  c_u : uamiv;                         (* the generated content *)
  c_hours : list (Z * Z);              (* begin / end hour of each step as integers *)
  c_ref : list word;                   (* file produced by the Python reference encoder *)
  c_cut : Z;                           (* number of BYTES of c_ref given to the library (= 4*|c_ref| when whole) *)
  c_open_ok : bool;                    (* library Memmap reader opened the file *)
  c_view : view;                       (* what it presented (zeros when it raised) *)
  c_tflag : list (Z * Z);              (* TFLAG[:,0,:] *)
  c_etflag : list (Z * Z);
  c_written : list word                (* bytes the library WRITER produced from the opened file *)
}.

Definition zlll_eqb := list_eqb zll_eqb.
Definition zllll_eqb := list_eqb zlll_eqb.
Definition pair_eqb (a b : Z * Z) := (fst a =? fst b) && (snd a =? snd b).

Definition view_eqb (a b : view) : bool :=
  (v_nspec a =? v_nspec b) && (v_nx a =? v_nx b) && (v_ny a =? v_ny b) && (v_nz a =? v_nz b)
  && (v_ntimes a =? v_ntimes b) && zll_eqb (v_names a) (v_names b)
  && zll_eqb (v_dates a) (v_dates b) && zllll_eqb (v_data a) (v_data b).

Definition steps_eqb (a b : list (list word * list (list (list word)))) : bool :=
  list_eqb (fun x y => zlist_eqb (fst x) (fst y) && zlll_eqb (snd x) (snd y)) a b.

Definition uamiv_eqb (a b : uamiv) : bool :=
  zlist_eqb (u_name a) (u_name b) && zlist_eqb (u_note a) (u_note b) && (u_itzon a =? u_itzon b)
  && zlist_eqb (u_dates a) (u_dates b) && zlist_eqb (u_gpre a) (u_gpre b)
  && (u_nx a =? u_nx b) && (u_ny a =? u_ny b) && (u_nz a =? u_nz b) && zlist_eqb (u_gpost a) (u_gpost b)
  && zll_eqb (u_spc a) (u_spc b) && steps_eqb (u_steps a) (u_steps b).

Definition bdates (u : uamiv) := map (fun st => nth 0 (fst st) 0) (u_steps u).
Definition edates (u : uamiv) := map (fun st => nth 2 (fst st) 0) (u_steps u).

Definition whole (c : ucase) : bool := c_cut c =? 4 * Z.of_nat (length (c_ref c)).
Definition given (c : ucase) : list word := firstn (Z.to_nat (c_cut c / 4)) (c_ref c).

(* F: the Python reference encoder is the Coq spec encoder; the reader model predicts the library *)
Definition checkF (c : ucase) : bool :=
  zlist_eqb (enc (c_u c)) (c_ref c)
  && match mm_read (given c) (c_cut c) with
     | Ok v => c_open_ok c && view_eqb v (c_view c)
               && list_eqb pair_eqb (convert_camx_time (map (fun d => nth 0 d 0) (v_dates v))
                                        (firstn (length (v_dates v)) (map fst (c_hours c)))) (c_tflag c)
               && list_eqb pair_eqb (convert_camx_time (map (fun d => nth 2 d 0) (v_dates v))
                                        (firstn (length (v_dates v)) (map snd (c_hours c)))) (c_etflag c)
     | Err => negb (c_open_ok c)
     end.

(* S, whole file: library reader presents exactly the encoded content (direction 2) and the
   reference decoder recovers exactly the content from the library writer's output (direction 1).
   S, cut file (C14): error, or exactly k complete steps identical to the full file's. *)
Definition checkS (c : ucase) : bool :=
  if whole c then
    c_open_ok c && view_eqb (c_view c) (view_of (c_u c))
    && list_eqb pair_eqb (c_tflag c) (spec_camx_time (bdates (c_u c)) (map fst (c_hours c)))
    && list_eqb pair_eqb (c_etflag c) (spec_camx_time (edates (c_u c)) (map snd (c_hours c)))
    && match dec (c_written c) with Some u' => uamiv_eqb u' (c_u c) | None => false end
  else
    negb (c_open_ok c)
    || (let k := Z.to_nat (v_ntimes (c_view c)) in
        (0 <? v_ntimes (c_view c)) && (Z.of_nat k <=? Z.of_nat (length (u_steps (c_u c))))
        && view_eqb (c_view c) (view_of (truncate_steps k (c_u c)))
        && list_eqb pair_eqb (c_tflag c) (firstn k (spec_camx_time (bdates (c_u c)) (map fst (c_hours c))))
        && list_eqb pair_eqb (c_etflag c) (firstn k (spec_camx_time (edates (c_u c)) (map snd (c_hours c))))).

Definition region (c : ucase) : nat := 0%nat.

(* Second kind of case, for every record-structured format: `recs` are the record payloads the
   reference encoder (harness/camxfmt.py, written from the format description) produced for the content,
   `ref` its byte stream, `written` what the LIBRARY writer produced from the file the library reader
   opened.  F: the Python framing is the Coq framing.  S: the Coq reference decoder walks the library
   writer's output (markers agree and tile the file exactly) and recovers exactly the records. *)
(* Third kind of case: CAMx lateral-boundary files, modelled in Model/Lbdy.v to the same depth as uamiv. *)
Record lcase := LCase {
  lc_l : lbdy;                         (* the generated content *)
  lc_hours : list (Z * Z);             (* begin / end hour of each step as integers *)
  lc_ref : list word;                  (* file produced by the Python reference encoder (camxfmt.lb_records) *)
  lc_cut : Z;                          (* number of BYTES of lc_ref given to the library *)
  lc_open_ok : bool;                   (* library Memmap reader opened the file *)
  lc_view : lview;                     (* what it presented (zeros when it raised) *)
  lc_tflag : list (Z * Z);             (* TFLAG[:,0,:] *)
  lc_etflag : list (Z * Z);            (* ETFLAG[:,0,:] *)
  lc_full_etflag : list (Z * Z);       (* ETFLAG the library presents for the WHOLE file (= lc_etflag when whole) *)
  lc_py_ok : bool;                     (* what the words do not carry, judged in Python: variable names and order,
                                          array shapes (TSTEP, ncell, LAY), NAME/NOTE/ITZON attributes *)
  lc_w_ok : bool;                      (* library writer returned (whole files only) *)
  lc_written : list word               (* what it produced from the opened file *)
}.

Definition quad_eqb (a b : quad) : bool :=
  zlist_eqb (q_w a) (q_w b) && zlist_eqb (q_e a) (q_e b) && zlist_eqb (q_s a) (q_s b) && zlist_eqb (q_n a) (q_n b).
Definition lview_eqb (a b : lview) : bool :=
  (lv_nspec a =? lv_nspec b) && (lv_nx a =? lv_nx b) && (lv_ny a =? lv_ny b) && (lv_nz a =? lv_nz b)
  && (lv_ntimes a =? lv_ntimes b) && zll_eqb (lv_names a) (lv_names b)
  && zll_eqb (lv_dates a) (lv_dates b) && list_eqb (list_eqb quad_eqb) (lv_data a) (lv_data b).
(* the time-header words are not exposed by the reader: compared through TFLAG/ETFLAG *)
Definition lview_eqb_nd (a b : lview) : bool :=
  (lv_nspec a =? lv_nspec b) && (lv_nx a =? lv_nx b) && (lv_ny a =? lv_ny b) && (lv_nz a =? lv_nz b)
  && (lv_ntimes a =? lv_ntimes b) && zll_eqb (lv_names a) (lv_names b)
  && list_eqb (list_eqb quad_eqb) (lv_data a) (lv_data b).
Definition lsteps_eqb (a b : list (list word * list quad)) : bool :=
  list_eqb (fun x y => zlist_eqb (fst x) (fst y) && list_eqb quad_eqb (snd x) (snd y)) a b.
Definition lbdy_eqb (a b : lbdy) : bool :=
  zlist_eqb (l_name a) (l_name b) && zlist_eqb (l_note a) (l_note b) && (l_itzon a =? l_itzon b)
  && zlist_eqb (l_dates a) (l_dates b) && zlist_eqb (l_gpre a) (l_gpre b)
  && (l_nx a =? l_nx b) && (l_ny a =? l_ny b) && (l_nz a =? l_nz b) && zlist_eqb (l_gpost a) (l_gpost b)
  && zll_eqb (l_spc a) (l_spc b) && quad_eqb (l_edges a) (l_edges b) && lsteps_eqb (l_steps a) (l_steps b).

Definition lb_bdates (l : lbdy) := map (fun st => nth 0 (fst st) 0) (l_steps l).
Definition lb_edates (l : lbdy) := map (fun st => nth 2 (fst st) 0) (l_steps l).
Definition lwhole (c : lcase) : bool := lc_cut c =? 4 * Z.of_nat (length (lc_ref c)).
Definition lgiven (c : lcase) : list word := firstn (Z.to_nat (lc_cut c / 4)) (lc_ref c).

(* F: reference encoder == Coq spec encoder; the reader model predicts the library (dims, names, data, TFLAG, ETFLAG;
   raising on cut files); the writer model (own end-date derivation, edge
   definitions copied from the opened file) predicts the bytes the library writer produced. *)
Definition lcheckF (c : lcase) : bool :=
  let bh := map fst (lc_hours c) in
  zlist_eqb (lb_enc (lc_l c)) (lc_ref c)
  && match lb_mm_read (lgiven c) (lc_cut c) with
     | Ok v => lc_open_ok c && lview_eqb v (lc_view c)
               && list_eqb pair_eqb (lb_tflag v bh) (lc_tflag c)
               && list_eqb pair_eqb (lb_etflag v (map snd (lc_hours c))) (lc_etflag c)
               && (negb (lwhole c)
                   || (lc_w_ok c && zlist_eqb (lc_written c) (lb_enc (lb_derive (lc_l c) bh false))))
     | Err => negb (lc_open_ok c)
     end.

(* S split so that the region can name WHICH clause fails *)
Definition lS_etflag (c : lcase) : bool :=
  list_eqb pair_eqb (lc_etflag c) (spec_camx_time (lb_edates (lc_l c)) (map snd (lc_hours c))).
Definition lS_rest (c : lcase) : bool :=
  lc_py_ok c && lc_open_ok c && lview_eqb (lc_view c) (lb_view_of (lc_l c))
  && list_eqb pair_eqb (lc_tflag c) (spec_camx_time (lb_bdates (lc_l c)) (map fst (lc_hours c)))
  && lc_w_ok c
  && match lb_dec (lc_written c) with Some l' => lbdy_eqb l' (lc_l c) | None => false end.
(* whole file: reader presents exactly the content incl. begin AND end time flags; the reference decoder recovers
   the content from the library writer's output.  cut file (C14): error, or exactly k complete steps whose data and
   time flags are those of the content and of what the library presents for the full file. *)
Definition lcheckS (c : lcase) : bool :=
  if lwhole c then lS_rest c && lS_etflag c
  else
    negb (lc_open_ok c)
    || (let k := Z.to_nat (lv_ntimes (lc_view c)) in
        lc_py_ok c && (0 <? lv_ntimes (lc_view c)) && (Z.of_nat k <=? Z.of_nat (length (l_steps (lc_l c))))
        && lview_eqb (lc_view c) (lb_view_of (lb_truncate_steps k (lc_l c)))
        && list_eqb pair_eqb (lc_tflag c) (firstn k (spec_camx_time (lb_bdates (lc_l c)) (map fst (lc_hours c))))
        && list_eqb pair_eqb (lc_etflag c) (firstn k (spec_camx_time (lb_edates (lc_l c)) (map snd (lc_hours c))))
        && list_eqb pair_eqb (lc_etflag c) (firstn k (lc_full_etflag c))).

(* no known-defect region is left for lateral-boundary files: region 1 (writer's end date at a year end) was retired by
   a9b6e29, region 17 (ETFLAG carrying the begin time) by fe376a5. lb_year_end is kept for the evidence only. *)
Definition lb_year_end (l : lbdy) (hours : list (Z * Z)) : bool :=
  existsb (fun p => let bd := nth 0 (fst (fst p)) 0 in let bh := fst (snd p) in
                    (bh =? 23) && negb (next_yyjjj bd =? bd + 1))
          (combine (l_steps l) hours).
Definition lregion (c : lcase) : nat := 0%nat.

(* Fourth kind of case: the one3d family (one3d / humidity / vertical_diffusivity), Model/One3d.v. *)
Record ocase := OCase {
  oc_c : one3d;                        (* the generated content *)
  oc_hhmm : list Z;                    (* HHMM of each step as an integer (the time word is its binary32 pattern) *)
  oc_ref : list word;                  (* file produced by the Python reference encoder (camxfmt.records) *)
  oc_cut : Z;                          (* number of BYTES of oc_ref given to the library *)
  oc_open_ok : bool;                   (* library Memmap reader opened the file AND the data variable could be read *)
  oc_view : oview;                     (* what it presented (zeros when it raised) *)
  oc_tflag : list (Z * Z);             (* TFLAG[:,0,:] *)
  oc_py_ok : bool;                     (* judged in Python: variable name, array shape (TSTEP, LAY, ROW, COL) *)
  oc_w_ok : bool;                      (* library writer returned (whole files only) *)
  oc_written : list word               (* what ncf2one3d produced from the opened file *)
}.
Definition oview_eqb (a b : oview) : bool :=
  (ov_nx a =? ov_nx b) && (ov_ny a =? ov_ny b) && (ov_nz a =? ov_nz b) && (ov_ntimes a =? ov_ntimes b)
  && list_eqb pair_eqb (ov_stamps a) (ov_stamps b) && zlll_eqb (ov_data a) (ov_data b).
Definition ostep_eqb (a b : ostep) : bool :=
  (os_time a =? os_time b) && (os_date a =? os_date b) && zll_eqb (os_lays a) (os_lays b).
Definition one3d_eqb (a b : one3d) : bool :=
  (o_nx a =? o_nx b) && (o_ny a =? o_ny b) && (o_nz a =? o_nz b) && list_eqb ostep_eqb (o_steps a) (o_steps b).
Definition o_dates (c : one3d) : list Z := map os_date (o_steps c).
Definition owhole (c : ocase) : bool := oc_cut c =? 4 * Z.of_nat (length (oc_ref c)).
Definition ogiven (c : ocase) : list word := firstn (Z.to_nat (oc_cut c / 4)) (oc_ref c).

(* F: reference encoder == Coq spec encoder; the Memmap reader model (called with the content's rows, cols) predicts
   the library incl. raising; the writer writes exactly the records of the content *)
Definition ocheckF (c : ocase) : bool :=
  zlist_eqb (o_enc (oc_c c)) (oc_ref c)
  && match o_mm_read (o_ny (oc_c c)) (o_nx (oc_c c)) (ogiven c) (oc_cut c) with
     | Ok v => oc_open_ok c && oview_eqb v (oc_view c)
               && list_eqb pair_eqb (o_tflag (map snd (ov_stamps v)) (firstn (length (ov_stamps v)) (oc_hhmm c))) (oc_tflag c)
               && (negb (owhole c) || (oc_w_ok c && zlist_eqb (oc_written c) (o_enc (oc_c c))))
     | Err => negb (oc_open_ok c)
     end.
Definition ocheckS (c : ocase) : bool :=
  if owhole c then
    oc_py_ok c && oc_open_ok c && oview_eqb (oc_view c) (o_view_of (oc_c c))
    && list_eqb pair_eqb (oc_tflag c) (o_spec_tflag (o_dates (oc_c c)) (oc_hhmm c))
    && oc_w_ok c
    && match o_dec (o_nx (oc_c c)) (o_ny (oc_c c)) (o_nz (oc_c c)) (oc_written c) with
       | Some c' => one3d_eqb c' (oc_c c) | None => false end
  else
    negb (oc_open_ok c)
    || (let k := Z.to_nat (ov_ntimes (oc_view c)) in
        oc_py_ok c && (0 <? ov_ntimes (oc_view c)) && (Z.of_nat k <=? Z.of_nat (length (o_steps (oc_c c))))
        && oview_eqb (oc_view c) (o_view_of (o_truncate_steps k (oc_c c)))
        && list_eqb pair_eqb (oc_tflag c) (firstn k (o_spec_tflag (o_dates (oc_c c)) (oc_hhmm c)))).
(* region 11: a single-step file (the layer count is inferred from the first change of time stamp) *)
Definition oregion (c : ocase) : nat :=
  if owhole c && (Z.of_nat (length (o_steps (oc_c c))) <? 2) then 11%nat else 0%nat.

(* Fifth and sixth kind of case: temperature and height_pressure files, Model/TempHp.v.
   The readers do not expose the stamp words: views are compared without them, the stamps are pinned through TFLAG
   (the HHMM integer of a presented time word is looked up in a table built from the content). *)
Definition hhmm_of (tbl : list (Z * Z)) (w : Z) : Z :=
  match find (fun p => fst p =? w) tbl with Some p => snd p | None => -1 end.
Definition flags_of (tbl : list (Z * Z)) (stamps : list (Z * Z)) : list (Z * Z) :=
  o_tflag (map snd stamps) (map (fun st => hhmm_of tbl (fst st)) stamps).

Record tcase := TCase {
  tc_c : temperature; tc_hhmm : list Z; tc_tbl : list (Z * Z); tc_ref : list word; tc_cut : Z;
  tc_open_ok : bool; tc_view : tview; tc_tflag : list (Z * Z);
  tc_py_ok : bool; tc_w_ok : bool; tc_written : list word
}.
Definition tview_eqb (a b : tview) : bool :=
  (tv_nx a =? tv_nx b) && (tv_ny a =? tv_ny b) && (tv_nz a =? tv_nz b) && (tv_ntimes a =? tv_ntimes b)
  && zll_eqb (tv_surf a) (tv_surf b) && zlll_eqb (tv_air a) (tv_air b).
Definition tstep_eqb (a b : tstep) : bool :=
  (ts_time a =? ts_time b) && (ts_date a =? ts_date b) && zlist_eqb (ts_surf a) (ts_surf b) && zll_eqb (ts_air a) (ts_air b).
Definition temperature_eqb (a b : temperature) : bool :=
  (t_nx a =? t_nx b) && (t_ny a =? t_ny b) && (t_nz a =? t_nz b) && list_eqb tstep_eqb (t_steps a) (t_steps b).
Definition twhole (c : tcase) : bool := tc_cut c =? 4 * Z.of_nat (length (tc_ref c)).
Definition tcheckF (c : tcase) : bool :=
  zlist_eqb (t_enc (tc_c c)) (tc_ref c)
  && match t_mm_read (t_ny (tc_c c)) (t_nx (tc_c c)) (firstn (Z.to_nat (tc_cut c / 4)) (tc_ref c)) (tc_cut c) with
     | Ok v => tc_open_ok c && tview_eqb v (tc_view c)
               && list_eqb pair_eqb (flags_of (tc_tbl c) (tv_stamps v)) (tc_tflag c)
               && (negb (twhole c) || (tc_w_ok c && zlist_eqb (tc_written c) (t_enc (tc_c c))))
     | Err => negb (tc_open_ok c)
     end.
Definition t_spec_flags (c : tcase) : list (Z * Z) := o_spec_tflag (map ts_date (t_steps (tc_c c))) (tc_hhmm c).
Definition tcheckS (c : tcase) : bool :=
  if twhole c then
    tc_py_ok c && tc_open_ok c && tview_eqb (tc_view c) (t_view_of (tc_c c))
    && list_eqb pair_eqb (tc_tflag c) (t_spec_flags c) && tc_w_ok c
    && match t_dec (t_nx (tc_c c)) (t_ny (tc_c c)) (t_nz (tc_c c)) (tc_written c) with
       | Some c' => temperature_eqb c' (tc_c c) | None => false end
  else
    negb (tc_open_ok c)
    || (let k := Z.to_nat (tv_ntimes (tc_view c)) in
        tc_py_ok c && (0 <? tv_ntimes (tc_view c)) && (Z.of_nat k <=? Z.of_nat (length (t_steps (tc_c c))))
        && tview_eqb (tc_view c) (t_view_of (t_truncate_steps k (tc_c c)))
        && list_eqb pair_eqb (tc_tflag c) (firstn k (t_spec_flags c))).
(* region 11: single-step file. (Region 14, the accepted two-record prefix, was retired by the repair 9020b2c.) *)
Definition tregion (c : tcase) : nat :=
  if twhole c && (Z.of_nat (length (t_steps (tc_c c))) <? 2) then 11%nat else 0%nat.

Record hcase := HCase {
  hc_c : heightpres; hc_hhmm : list Z; hc_tbl : list (Z * Z); hc_ref : list word; hc_cut : Z;
  hc_open_ok : bool; hc_view : hview; hc_tflag : list (Z * Z);
  hc_py_ok : bool; hc_w_ok : bool; hc_written : list word
}.
Definition hview_eqb (a b : hview) : bool :=
  (hv_nx a =? hv_nx b) && (hv_ny a =? hv_ny b) && (hv_nz a =? hv_nz b) && (hv_ntimes a =? hv_ntimes b)
  && zlll_eqb (hv_hght a) (hv_hght b) && zlll_eqb (hv_pres a) (hv_pres b).
Definition hstep_eqb (a b : hstep) : bool :=
  (hs_time a =? hs_time b) && (hs_date a =? hs_date b)
  && list_eqb (fun x y => zlist_eqb (fst x) (fst y) && zlist_eqb (snd x) (snd y)) (hs_hp a) (hs_hp b).
Definition heightpres_eqb (a b : heightpres) : bool :=
  (h_nx a =? h_nx b) && (h_ny a =? h_ny b) && (h_nz a =? h_nz b) && list_eqb hstep_eqb (h_steps a) (h_steps b).
Definition hwhole (c : hcase) : bool := hc_cut c =? 4 * Z.of_nat (length (hc_ref c)).
Definition hcheckF (c : hcase) : bool :=
  zlist_eqb (h_enc (hc_c c)) (hc_ref c)
  && match h_mm_read (h_ny (hc_c c)) (h_nx (hc_c c)) (firstn (Z.to_nat (hc_cut c / 4)) (hc_ref c)) (hc_cut c) with
     | Ok v => hc_open_ok c && hview_eqb v (hc_view c)
               && list_eqb pair_eqb (flags_of (hc_tbl c) (hv_stamps v)) (hc_tflag c)
               && (negb (hwhole c) || (hc_w_ok c && zlist_eqb (hc_written c) (h_enc (hc_c c))))
     | Err => negb (hc_open_ok c)
     end.
Definition h_spec_flags (c : hcase) : list (Z * Z) := o_spec_tflag (map hs_date (h_steps (hc_c c))) (hc_hhmm c).
Definition hcheckS (c : hcase) : bool :=
  if hwhole c then
    hc_py_ok c && hc_open_ok c && hview_eqb (hc_view c) (h_view_of (hc_c c))
    && list_eqb pair_eqb (hc_tflag c) (h_spec_flags c) && hc_w_ok c
    && match h_dec (h_nx (hc_c c)) (h_ny (hc_c c)) (h_nz (hc_c c)) (hc_written c) with
       | Some c' => heightpres_eqb c' (hc_c c) | None => false end
  else
    negb (hc_open_ok c)
    || (let k := Z.to_nat (hv_ntimes (hc_view c)) in
        hc_py_ok c && (0 <? hv_ntimes (hc_view c)) && (Z.of_nat k <=? Z.of_nat (length (h_steps (hc_c c))))
        && hview_eqb (hc_view c) (h_view_of (h_truncate_steps k (hc_c c)))
        && list_eqb pair_eqb (hc_tflag c) (firstn k (h_spec_flags c))).
Definition hregion (c : hcase) : nat :=
  if hwhole c && (Z.of_nat (length (h_steps (hc_c c))) <? 2) then 11%nat else 0%nat.

(* Seventh kind of case: wind files, Model/Wind.v. The library outcome has three values: 0 = opened and read,
   1 = raised, 2 = did not return within the limit (the reader model says WHang exactly there). *)
Record wcase := WCase {
  wc_c : wind; wc_hhmm : list Z; wc_tbl : list (Z * Z); wc_ref : list word; wc_cut : Z;
  wc_status : Z; wc_view : wview; wc_tflag : list (Z * Z);
  wc_py_ok : bool; wc_w_ok : bool; wc_written : list word
}.
Definition wview_eqb (a b : wview) : bool :=
  (wv_nx a =? wv_nx b) && (wv_ny a =? wv_ny b) && (wv_nz a =? wv_nz b) && (wv_ntimes a =? wv_ntimes b)
  && zlll_eqb (wv_u a) (wv_u b) && zlll_eqb (wv_v a) (wv_v b).
Definition wstep_eqb (a b : wstep) : bool :=
  (ws_time a =? ws_time b) && (ws_date a =? ws_date b)
  && list_eqb (fun x y => zlist_eqb (fst x) (fst y) && zlist_eqb (snd x) (snd y)) (ws_uv a) (ws_uv b).
Definition wind_eqb (a b : wind) : bool :=
  (w_nx a =? w_nx b) && (w_ny a =? w_ny b) && (w_nz a =? w_nz b) && (w_dummy a =? w_dummy b)
  && match w_stag a, w_stag b with Some x, Some y => x =? y | None, None => true | _, _ => false end
  && list_eqb wstep_eqb (w_steps a) (w_steps b).
Definition wwhole (c : wcase) : bool := wc_cut c =? 4 * Z.of_nat (length (wc_ref c)).
(* F: reference encoder == Coq encoder; the reader model predicts the library's outcome (read / raise / no return), the view
   and TFLAG; ncf2wind (always a 12-byte time record) writes the records of the content with a 0.0 dummy word *)
Definition wcheckF (c : wcase) : bool :=
  zlist_eqb (w_enc (wc_c c)) (wc_ref c)
  && match w_mm_read (w_ny (wc_c c)) (w_nx (wc_c c)) (firstn (Z.to_nat ((wc_cut c + 3) / 4)) (wc_ref c)) (wc_cut c) with
     | WOk v => (wc_status c =? 0) && wview_eqb v (wc_view c)
                && list_eqb pair_eqb (flags_of (wc_tbl c) (wv_stamps v)) (wc_tflag c)
                && (negb (wwhole c)
                    || match w_stag (wc_c c) with
                       | Some _ => wc_w_ok c && zlist_eqb (wc_written c) (w_enc (wc_c c))
                       | None => true            (* re-writing an 8-byte-time-record file is not modelled *)
                       end)
     | WErr => wc_status c =? 1
     | WHang => wc_status c =? 2
     end.
Definition w_spec_flags (c : wcase) : list (Z * Z) := o_spec_tflag (map ws_date (w_steps (wc_c c))) (wc_hhmm c).
Definition wcheckS (c : wcase) : bool :=
  if wwhole c then
    wc_py_ok c && (wc_status c =? 0) && wview_eqb (wc_view c) (w_view_of (wc_c c))
    && list_eqb pair_eqb (wc_tflag c) (w_spec_flags c) && wc_w_ok c
    && match w_dec (w_nx (wc_c c)) (w_ny (wc_c c)) (w_nz (wc_c c)) (w_stag (wc_c c)) (w_dummy (wc_c c)) (wc_written c) with
       | Some c' => wind_eqb c' (wc_c c) | None => false end
  else
    (wc_status c =? 1)
    || ((wc_status c =? 0)
        && (let k := Z.to_nat (wv_ntimes (wc_view c)) in
            wc_py_ok c && (0 <? wv_ntimes (wc_view c)) && (Z.of_nat k <=? Z.of_nat (length (w_steps (wc_c c))))
            && wview_eqb (wc_view c) (w_view_of (w_truncate_steps k (wc_c c)))
            && list_eqb pair_eqb (wc_tflag c) (firstn k (w_spec_flags c)))).
(* region 12: whole files on 1x1 grids (U/V records as long as the dummy record). Region 15 (cuts on which the reader never
   returned) was retired by db74c5b, region 19 (step count running ahead on long files) by d3c85b3. *)
Definition wregion (c : wcase) : nat :=
  if wwhole c && (w_nx (wc_c c) * w_ny (wc_c c) =? 1) then 12%nat else 0%nat.

(* Eighth kind of case: cloud/rain files, Model/CloudRain.v *)
Record ccase := CCase {
  cc_c : cloudrain; cc_hhmm : list Z; cc_tbl : list (Z * Z); cc_ref : list word; cc_cut : Z;
  cc_open_ok : bool; cc_view : cview; cc_tflag : list (Z * Z);
  cc_py_ok : bool; cc_w_ok : bool; cc_written : list word
}.
Definition cview_eqb (a b : cview) : bool :=
  (cv_nx a =? cv_nx b) && (cv_ny a =? cv_ny b) && (cv_nz a =? cv_nz b) && (cv_ntimes a =? cv_ntimes b)
  && (cv_nvars a =? cv_nvars b) && list_eqb zlll_eqb (cv_data a) (cv_data b).
Definition cstep_eqb (a b : cstep) : bool :=
  (cs_time a =? cs_time b) && (cs_date a =? cs_date b) && zlll_eqb (cs_lays a) (cs_lays b).
Definition cloudrain_eqb (a b : cloudrain) : bool :=
  zlist_eqb (c_desc a) (c_desc b) && (c_nx a =? c_nx b) && (c_ny a =? c_ny b) && (c_nz a =? c_nz b)
  && (c_nvars a =? c_nvars b) && list_eqb cstep_eqb (c_steps a) (c_steps b).
Definition cwhole (c : ccase) : bool := cc_cut c =? 4 * Z.of_nat (length (cc_ref c)).
(* F: reference encoder == Coq encoder; the reader model (incl. the size-based layout guess) predicts the library; the writer
   ncf2cloud_rain writes the records of what the reader presented (so a misread file is re-written byte for byte) *)
Definition ccheckF (c : ccase) : bool :=
  zlist_eqb (c_enc (cc_c c)) (cc_ref c)
  && match cr_mm_read (firstn (Z.to_nat ((cc_cut c + 3) / 4)) (cc_ref c)) (cc_cut c) with
     | Ok v => cc_open_ok c && cview_eqb v (cc_view c)
               (* TFLAG is pinned whenever the presented time words are time words of the content (a misread layout
                  presents data words as times: their integer conversion is not modelled) *)
               && (let known := forallb (fun st => existsb (fun p => fst p =? fst st) (cc_tbl c)) (cv_stamps v) in
                   (negb known || list_eqb pair_eqb (flags_of (cc_tbl c) (cv_stamps v)) (cc_tflag c))
                   (* the writer rebuilds the time records from TFLAG: same restriction *)
                   && (negb (cwhole c) || (cc_w_ok c && (negb known || zlist_eqb (cc_written c) (cc_ref c)))))
     | Err => negb (cc_open_ok c)
     end.
Definition c_spec_flags (c : ccase) : list (Z * Z) := o_spec_tflag (map cs_date (c_steps (cc_c c))) (cc_hhmm c).
Definition ccheckS (c : ccase) : bool :=
  if cwhole c then
    cc_py_ok c && cc_open_ok c && cview_eqb (cc_view c) (c_view_of (cc_c c))
    && list_eqb pair_eqb (cc_tflag c) (c_spec_flags c) && cc_w_ok c
    && match c_dec (c_nvars (cc_c c)) (cc_written c) with Some c' => cloudrain_eqb c' (cc_c c) | None => false end
  else
    negb (cc_open_ok c)
    || (let k := Z.to_nat (cv_ntimes (cc_view c)) in
        cc_py_ok c && (0 <? cv_ntimes (cc_view c)) && (Z.of_nat k <=? Z.of_nat (length (c_steps (cc_c c))))
        && cview_eqb (cc_view c) (c_view_of (c_truncate_steps k (cc_c c)))
        && list_eqb pair_eqb (cc_tflag c) (firstn k (c_spec_flags c))).
(* region 21: a whole 3-field file whose data size is also a whole number of 5-field steps (read as 5-field);
   region 20: a cut whose data size is a whole number of steps of the OTHER layout but not of the file's own *)
Definition cregion (c : ccase) : nat :=
  let cc := cc_c c in
  if cwhole c then (if c_unambiguous cc then 0%nat else 21%nat)
  else
    let ds := cc_cut c - c_hdr_bytes in
    let other := if c_nvars cc =? 5 then 3 else 5 in
    if (0 <? ds) && (ds mod c_timesize cc other =? 0)
       && ((other =? 5) || negb (ds mod c_timesize cc 5 =? 0)) then 20%nat else 0%nat.

(* Ninth kind of case: land-use files, Model/Landuse.v *)
Record lucase := LUCase {
  luc_c : landuse; luc_dec : bool;            (* the first 8 payload bytes decode as UTF-8 (bytes.decode() in the harness) *)
  luc_ref : list word; luc_cut : Z;
  luc_open_ok : bool; luc_view : luview; luc_py_ok : bool;
  luc_w_ok : bool; luc_written : list word; luc_rr_ok : bool     (* the library re-opens what it wrote *)
}.
Definition lu_kv_eqb (a b : list word * list word) : bool := zlist_eqb (fst a) (fst b) && zlist_eqb (snd a) (snd b).
Definition luview_eqb (a b : luview) : bool :=
  Bool.eqb (lv_new a) (lv_new b) && (lv_nland a =? lv_nland b) && list_eqb lu_kv_eqb (lv_vars a) (lv_vars b).
Definition landuse_eqb (a b : landuse) : bool :=
  Bool.eqb (lu_new a) (lu_new b) && (lu_nland a =? lu_nland b) && (lu_rows a =? lu_rows b) && (lu_cols a =? lu_cols b)
  && zlist_eqb (lu_fland a) (lu_fland b) && list_eqb lu_kv_eqb (lu_opts a) (lu_opts b).
Definition lu_ascii (w : word) : bool :=
  (0 <=? w) && (w / 16777216 <? 128) && ((w / 65536) mod 256 <? 128) && ((w / 256) mod 256 <? 128) && (w mod 256 <? 128).
Definition luwhole (c : lucase) : bool := luc_cut c =? 4 * Z.of_nat (length (luc_ref c)).
Definition lu_reopens (dec : bool) (c : landuse) (ws : list word) : bool :=
  match lu_mm_read dec (lu_rows c) (lu_cols c) ws (4 * Z.of_nat (length ws)) with Ok _ => true | Err => false end.
(* F: reference encoder == Coq encoder; the abstract predicate is consistent (ASCII bytes decode); the reader model predicts
   the library on the whole file and on the cut; the writer model predicts the written words and whether they re-open *)
Definition lucheckF (c : lucase) : bool :=
  let cc := luc_c c in
  zlist_eqb (lu_enc cc) (luc_ref c)
  && (negb (lu_ascii (nth 1 (luc_ref c) 0) && lu_ascii (nth 2 (luc_ref c) 0)) || luc_dec c)
  && match lu_mm_read (luc_dec c) (lu_rows cc) (lu_cols cc) (firstn (Z.to_nat ((luc_cut c + 3) / 4)) (luc_ref c)) (luc_cut c) with
     | Ok v => luc_open_ok c && luview_eqb v (luc_view c)
               && (negb (luwhole c)
                   || (luc_w_ok c && zlist_eqb (luc_written c) (lu_write v)
                       && Bool.eqb (luc_rr_ok c) (lu_reopens (lv_new v || luc_dec c) cc (lu_write v))))
     | Err => negb (luc_open_ok c)
     end.
Definition lucheckS (c : lucase) : bool :=
  let cc := luc_c c in
  if luwhole c then
    luc_py_ok c && luc_open_ok c && luview_eqb (luc_view c) (lu_view_of cc) && luc_w_ok c
    && match lu_dec (lu_rows cc) (lu_cols cc) (luc_written c) with Some c' => landuse_eqb c' cc | None => false end
  else
    negb (luc_open_ok c)
    || (let k := (length (lv_vars (luc_view c)) - 1)%nat in
        luc_py_ok c && (1 <=? length (lv_vars (luc_view c)))%nat && (k <=? length (lu_opts cc))%nat
        && luview_eqb (luc_view c) (lu_view_of (lu_truncate k cc))).
(* region 16: whole files whose first 8 payload bytes are no UTF-8 (the style sniff decodes them) and the reader raised.
   (Region 22, the writer emitting LAI / TOPO before the land-use fractions, was retired by 58a734f.) *)
Definition luregion (c : lucase) : nat :=
  if luwhole c && negb (luc_dec c) && negb (luc_open_ok c) then 16%nat else 0%nat.

Inductive case_t :=
| LUD (c : lucase)
| CD (c : ccase)
| WD (c : wcase)
| TD (c : tcase)
| HD (c : hcase)
| OD (c : ocase)
| U (c : ucase)
| R (ref : list word) (recs : list (list word)) (w_ok : bool) (written : list word)
| L (c : lcase).

Definition check (c : case_t) : verdict :=
  match c with
  | U c => (checkF c, checkS c, region c)
  | R ref recs w_ok written =>
      (zlist_eqb (frame recs) ref,
       if w_ok then match unframe_all written with Some rs => zll_eqb rs recs | None => false end else true,
       0%nat)
  | L c => (lcheckF c, lcheckS c, lregion c)
  | OD c => (ocheckF c, ocheckS c, oregion c)
  | TD c => (tcheckF c, tcheckS c, tregion c)
  | HD c => (hcheckF c, hcheckS c, hregion c)
  | WD c => (wcheckF c, wcheckS c, wregion c)
  | CD c => (ccheckF c, ccheckS c, cregion c)
  | LUD c => (lucheckF c, lucheckS c, luregion c)
  end.
