(* Correspondence for C03: one case = one file, one applyAlongDimensions call, and what the
   library returned (new dimension lengths, per variable shape + row-major cells, or the
   exception class). *)
From PNC Require Export Base.Util Base.NdApply Model.Apply.
Require Export QArith.
Local Close Scope Q_scope.
Local Open Scope nat_scope.

Definition q (n : Z) (d : positive) : cell := Some (Qmake n d).
Definition m : cell := None.

Record ivar := IVar { i_name : nat; i_dims : list nat; i_shape : list nat; i_cells : list cell }.
Inductive obs :=
| ORaise (e : err)
| OFile (dims : list (nat * nat)) (vars : list (list nat * list cell)).

Record case_t := Case {
  c_dims : list (nat * nat);
  c_vars : list ivar;
  c_dfs : list (nat * fdesc);
  c_obs : obs
}.

Definition to_var (v : ivar) : var :=
  Var (i_name v) (i_dims v) (of_flat (i_shape v) (i_cells v) None).
Definition to_file (c : case_t) : file := File (c_dims c) (map to_var (c_vars c)).

Definition err_eqb (a b : err) : bool :=
  match a, b with
  | KeyError, KeyError | TypeError, TypeError | AttributeError, AttributeError | ValueError, ValueError => true
  | _, _ => false
  end.
Definition pair_eqb (a b : nat * nat) : bool := (fst a =? fst b) && (snd a =? snd b).

Fixpoint vars_match (vs : list var) (os : list (list nat * list cell)) : bool :=
  match vs, os with
  | [], [] => true
  | v :: t, o :: t' =>
      list_eqb Nat.eqb (sh (vdat v)) (fst o) && cells_close (to_flat (vdat v)) (snd o) && vars_match t t'
  | _, _ => false
  end.

Definition checkF (c : case_t) : bool :=
  match impl_apply (to_file c) (c_dfs c), c_obs c with
  | Err e, ORaise e' => err_eqb e e'
  | Ok r, OFile ds os => list_eqb pair_eqb (fdims r) ds && vars_match (fvars r) os
  | _, _ => false
  end.

(* the observed result as a model file *)
Fixpoint obs_vars (vs : list ivar) (os : list (list nat * list cell)) : list var :=
  match vs, os with
  | v :: t, o :: t' => Var (i_name v) (i_dims v) (of_flat (fst o) (snd o) None) :: obs_vars t t'
  | _, _ => []
  end.

Definition in_domain (c : case_t) : bool :=
  wf_file (to_file c)
  && forallb (fun p => good (snd p) && is_some (lookup (fst p) (c_dims c))) (c_dfs c).
(* expected new length of a dimension, from the function on arange(n) — independent of the
   coordinate variable *)
Definition exp_dim (c : case_t) (dn : nat * nat) : nat * nat :=
  (fst dn, match lookup (fst dn) (c_dfs c) with
           | Some fd => length (run fd (arange (snd dn)))
           | None => snd dn
           end).

Definition checkS (c : case_t) : bool :=
  match c_obs c with
  | ORaise _ => negb (in_domain c)      (* an in-domain call must complete *)
  | OFile ds os =>
      if in_domain c then
        let r := File ds (obs_vars (c_vars c) os) in
        (length os =? length (c_vars c))
        && list_eqb pair_eqb ds (map (exp_dim c) (c_dims c))
        && forallb (wf_var r) (fvars r)
        && spec_file_ok (c_dfs c) (to_file c) r
      else true
  end.

(* no known-defect region is left after the repairs *)
Definition region (c : case_t) : nat := 0.

Definition check (c : case_t) : verdict := (checkF c, checkS c, region c).
