(* Correspondence for C12: one case = one time encoding decoded by the library.
   Datetimes are observed as [y; mo; d; h; mi; s; us] (UTC); None = the call raised. *)
From PNC Require Export Base.Util Base.Calendar Model.Times.
Local Open Scope Z_scope.

Definition dts := option (list (list Z)).
Definition dts_eqb (a b : dts) : bool := option_eqb zll_eqb a b.
Definition zl_opt_eqb (a b : option (list Z)) : bool := option_eqb zlist_eqb a b.
Definition flag_eqb (a b : Z * Z) : bool := (fst a =? fst b) && (snd a =? snd b).

Inductive case_t :=
  (* CF 'unit since ref' variable (also tau0: hours since 1985-01-01) *)
  | CaseCF (cal : cal_t) (u : unit_t) (r : refdate) (b : bmode) (vals : list Z)
           (obs : dts)                       (* getTimes(bounds=...) *)
           (d2n : option (list Z))           (* date2num(getTimes()) * 64, when requested and on the grid *)
           (idx : option (list Z))           (* time2idx(getTimes()) *)
  (* TFLAG variable *)
  | CaseTF (flags : list (Z * Z)) (tstep : option Z) (bounds : bool) (obs : dts)
  (* SDATE / STIME / TSTEP attributes and a TSTEP dimension of length n *)
  | CaseSD (sdate stime tstep : Z) (n : nat) (bounds : bool) (obs : dts)
  (* add_time_variables on a file with (hasflag) or without a TFLAG variable *)
  | CaseSY (hasflag : bool) (sdate stime tstep : Z) (flags : list (Z * Z)) (n : nat)
           (otime : option (list Z))         (* synthesised time values (whole seconds) *)
           (odec : dts) (odecb : dts)        (* getTimes(), getTimes(bounds=True) afterwards *)
  (* updatetflag: IOAPI file created from SDATE/STIME/TSTEP; TFLAG rows written, then decoded *)
  | CaseUT (sdate stime tstep : Z) (n : nat) (oflags : option (list (Z * Z))) (odec : dts).

Definition us_all (o : list (list Z)) : option (list Z) := all_some (map us_of_dt o).

Definition fixed_leap (c : cal_t) : bool := match c with CalAllLeap => true | _ => false end.

Definition model_cf (c : cal_t) (u : unit_t) (r : refdate) (b : bmode) (vals : list Z) : dts :=
  match impl_bounds_vals b vals with
  | Some v => match c with
              | CalStd => impl_cf_std u r v
              | _ => impl_cf_fixed (fixed_leap c) u r v
              end
  | None => None
  end.

Definition in_units (u : unit_t) : bool :=
  match u with UDays | UHours | UMinutes | USeconds => true | _ => false end.

Definition spec_cf (c : cal_t) (u : unit_t) (r : refdate) (v : list Z) : dts :=
  match c with
  | CalStd => match spec_cf_std_us u r v with Some ts => decode_all ts | None => None end
  | _ => spec_cf_fixed (fixed_leap c) u r v
  end.


Definition checkF (c : case_t) : bool :=
  match c with
  | CaseCF cal u r b vals obs d2n idx =>
      dts_eqb obs (model_cf cal u r b vals)
      && match d2n, obs with
         | Some l, Some o =>
             zl_opt_eqb (match cal with
                         | CalStd => impl_date2num u r o
                         | _ => impl_date2num_fixed (fixed_leap cal) u r o
                         end) (Some l)
         | _, _ => true
         end
      && match idx, d2n with
         | Some li, Some l => zl_opt_eqb (impl_time2idx vals l) (Some li)
         | _, _ => true
         end
  | CaseTF flags tstep bounds obs => dts_eqb (impl_tflag flags tstep bounds) obs
  | CaseSD sdate stime tstep n bounds obs => dts_eqb (impl_sdate sdate stime tstep n bounds) obs
  | CaseSY hasflag sdate stime tstep flags n otime odec odecb =>
      let mt := if hasflag then impl_synth_flags sdate flags else impl_synth_attrs sdate stime tstep n in
      zl_opt_eqb mt otime
      && match mt with
         | Some ts => dts_eqb (impl_decode_seconds ts) odec
                      && dts_eqb (impl_decode_seconds (impl_synth_edges tstep ts)) odecb
         | None => true
         end
  | CaseUT sdate stime tstep n oflags odec =>
      match impl_sdate sdate stime tstep n false with
      | Some rows =>
          match us_all rows with
          | Some ts => option_eqb (list_eqb flag_eqb) (Some (map impl_flag_of_us ts)) oflags
                       && dts_eqb (impl_tflag (map impl_flag_of_us ts) (Some tstep) false) odec
          | None => false
          end
      | None => match oflags with None => true | Some _ => false end
      end
  end.

(* does the observation decode to exactly these instants? *)
Definition decodes_to (o : dts) (ts : list Z) : bool :=
  match o with Some rows => zl_opt_eqb (us_all rows) (Some ts) | None => true end.

Definition checkS (c : case_t) : bool :=
  match c with
  | CaseCF cal u r b vals obs d2n idx =>
      match obs, impl_bounds_vals b vals with
      | Some o, Some v =>
          if in_units u then
            match spec_cf cal u r v with
            | Some sp => zll_eqb o sp
                         && match d2n with Some l => zlist_eqb l vals | None => true end
                         && match idx with Some li => zlist_eqb li (iota 0 (length vals)) | None => true end
            | None => true
            end
          else true
      | _, _ => true          (* "whenever decoding returns" *)
      end
  | CaseTF flags tstep bounds obs =>
      if forallb valid_flag flags
         && match tstep with Some st => valid_step st | None => true end then
        let ts := map spec_flag_us flags in
        let edge := match tstep with
                    | Some st => [lastZ ts + sec_of_hhmmss st * us_sec]
                    | None => [lastZ ts + round_half_even (lastZ ts - hd 0 ts) (Z.of_nat (length ts) - 1)]
                    end in
        decodes_to obs (if bounds then ts ++ edge else ts)
      else true
  | CaseSD sdate stime tstep n bounds obs =>
      if valid_sdate sdate stime tstep
      then decodes_to obs (spec_sdate_us sdate stime tstep (if bounds then S n else n))
      else true
  | CaseSY hasflag sdate stime tstep flags n otime odec odecb =>
      if (if hasflag then forallb valid_flag flags && negb (Nat.eqb (length flags) 0)
          else valid_flag (sdate, stime) && negb (Nat.eqb n 0)) && valid_step tstep then
        let ts := if hasflag then map spec_flag_us flags else spec_sdate_us sdate stime tstep n in
        decodes_to odec ts
        && decodes_to odecb (ts ++ [lastZ ts + sec_of_hhmmss tstep * us_sec])
      else true
  | CaseUT sdate stime tstep n oflags odec =>
      if valid_sdate sdate stime tstep then
        match oflags with
        | Some fl => zlist_eqb (map spec_flag_us fl) (spec_sdate_us sdate stime tstep n)
                     && forallb valid_flag fl
        | None => true
        end
        && decodes_to odec (spec_sdate_us sdate stime tstep n)
      else true
  end.

(* no known-defect region left: every former region is repaired in /repo *)
Definition region (c : case_t) : nat := 0%nat.

Definition check (c : case_t) : verdict := (checkF c, checkS c, region c).
