(* Correspondence for C01: one case = an initial file (as observed on the real object), an operation
   sequence, and the structure of the real file observed after every step (Raise = the step raised,
   the sequence stops there).  Operand files of stack / arithmetic are part of the op terms. *)
From PNC Require Export Base.Util Model.FileStruct.

Record case_t := Case {
  c_init : file;
  c_ops : list op;
  c_obs : list (res file)
}.

(* canonical form: attribute lists are compared as sets (sorted by name); everything else in order *)
Fixpoint ins_attr (p : name * bool) (l : attrs) : attrs :=
  match l with
  | [] => [p]
  | q :: t => if Nat.leb (fst p) (fst q) then p :: l else q :: ins_attr p t
  end.
Definition sort_attrs (a : attrs) : attrs := fold_right ins_attr [] a.
Definition attr_eqb (p q : name * bool) : bool := Nat.eqb (fst p) (fst q) && Bool.eqb (snd p) (snd q).
Definition attrs_eqb (a b : attrs) : bool := list_eqb attr_eqb (sort_attrs a) (sort_attrs b).
Definition var_eqb (v w : var) : bool :=
  names_eqb (vdims v) (vdims w) && list_eqb Nat.eqb (vshape v) (vshape w) && attrs_eqb (vattrs v) (vattrs w).
Definition dim_eqb (p q : name * (nat * bool)) : bool :=
  Nat.eqb (fst p) (fst q) && Nat.eqb (fst (snd p)) (fst (snd q)) && Bool.eqb (snd (snd p)) (snd (snd q)).
Definition file_eqb (f g : file) : bool :=
  list_eqb dim_eqb (fdims f) (fdims g)
  && list_eqb (fun p q => Nat.eqb (fst p) (fst q) && var_eqb (snd p) (snd q)) (fvars f) (fvars g)
  && attrs_eqb (fattrs f) (fattrs g)
  && names_eqb (fcoords f) (fcoords g).
Definition res_eqb (a b : res file) : bool :=
  match a, b with Ok f, Ok g => file_eqb f g | Raise, Raise => true | _, _ => false end.

(* F: the model's trace equals the observed one, step by step (the model is re-started from the OBSERVED
   state after every step, so one disagreement does not cascade) *)
Fixpoint traceF (f : file) (ops : list op) (obs : list (res file)) : bool :=
  match ops, obs with
  | [], [] => true
  | o :: t, r :: rt => if negb (wfb f) then true else      (* the model claims faithfulness on well-formed inputs only *)
                       res_eqb (step f o) r && match r with Ok g => traceF g t rt | Raise => match t, rt with [], [] => true | _, _ => false end end
  | _, _ => false
  end.
Definition checkF (c : case_t) : bool := traceF (c_init c) (c_ops c) (c_obs c).

(* S: every observed file (the constructed/read one and the result of every step) is well-formed and
   surviving dimensions keep their unlimited flag across every step (through renameDimensions: under the new name) *)
Fixpoint obsS (f : file) (ops : list op) (obs : list (res file)) : bool :=
  match ops, obs with
  | o :: t, Ok g :: rt => wfb g && keys_nodup (fdims g) && unlim_kept_op o (fdims f) (fdims g) && obsS g t rt
  | _, _ => true
  end.
(* operand files of stack / arithmetic are files obtained from operations too *)
Definition operands_wfb (o : op) : bool :=
  match o with OStack others _ => forallb wfb others | OBinop g => wfb g | _ => true end.
Definition checkS (c : case_t) : bool :=
  wfb (c_init c) && keys_nodup (fdims (c_init c)) && obsS (c_init c) (c_ops c) (c_obs c) && forallb operands_wfb (c_ops c).

(* region: number of the first operation of the (observed) run that leaves the proved domain *)
Fixpoint obs_region (f : file) (ops : list op) (obs : list (res file)) : nat :=
  match ops, obs with
  | o :: t, r :: rt => match op_region f o with
                       | 0 => match r with Ok g => obs_region g t rt | Raise => 0 end
                       | k => k
                       end
  | _, _ => 0
  end.
Definition region (c : case_t) : nat := obs_region (c_init c) (c_ops c) (c_obs c).

Definition check (c : case_t) : verdict := (checkF c, checkS c, region c).
