(* Correspondence for C07: one case = one in-memory file saved with pncgen in one netCDF flavour
   (with or without compression) and reopened with pncopen(format='netcdf'). *)
From PNC Require Export Base.Util Model.Persist.
Local Open Scope Z_scope.

Record case_t := Case {
  c_dflt : Z;                  (* bit pattern of -9999 (only used when no fill is defined) *)
  c_file : pfile;
  c_obs : option nfile;        (* what pncopen shows; None = save or open raised *)
  c_raw : list (option Z * list Z)   (* per variable: _FillValue on disk and the stored cells read with auto-masking off *)
}.

Definition aval_eqb (a b : aval) : bool := (a_kind a =? a_kind b) && zlist_eqb (a_data a) (a_data b).
Definition attrs_eqb : list (name * aval) -> list (name * aval) -> bool :=
  list_eqb (fun a b => name_eqb (fst a) (fst b) && aval_eqb (snd a) (snd b)).
Definition dim_eqb (a b : dim) : bool :=
  name_eqb (d_name a) (d_name b) && (d_len a =? d_len b) && Bool.eqb (d_unlim a) (d_unlim b).
Definition cells_eqb : list (option Z) -> list (option Z) -> bool := list_eqb (option_eqb Z.eqb).
(* v_fill / v_mv of the observation are not compared: the harness reports them inside the attributes *)
Definition dvar_eqb (a b : dvar) : bool :=
  name_eqb (v_name a) (v_name b) && (v_dt a =? v_dt b) && list_eqb name_eqb (v_dims a) (v_dims b)
  && attrs_eqb (v_attrs a) (v_attrs b) && cells_eqb (v_cells a) (v_cells b).
Definition nfile_eqb (a b : nfile) : bool :=
  list_eqb dim_eqb (n_dims a) (n_dims b) && attrs_eqb (n_gattrs a) (n_gattrs b)
  && list_eqb dvar_eqb (n_vars a) (n_vars b).

(* stage 1 against the raw file content: no masking assumption involved *)
Definition raw_eqb (w : ivar) (o : option Z * list Z) : bool :=
  option_eqb Z.eqb (i_fill w) (fst o) && zlist_eqb (i_raw w) (snd o).
Fixpoint raws_eqb (a : list ivar) (b : list (option Z * list Z)) : bool :=
  match a, b with
  | [], [] => true
  | x :: a', y :: b' => raw_eqb x y && raws_eqb a' b'
  | _, _ => false
  end.
Definition checkF (c : case_t) : bool :=
  match c_obs c with
  | Some o => nfile_eqb (impl_save_open (c_dflt c) (c_file c)) o
              && raws_eqb (im_vars (impl_convert (c_dflt c) (c_file c))) (c_raw c)
  | None => false
  end.
Definition checkS (c : case_t) : bool :=
  if negb (in_quant (c_file c)) then true else
  match c_obs c with
  | Some o => nfile_eqb (spec_save_open (c_file c)) o
  | None => false
  end.
Definition region (c : case_t) : nat := region_of (c_file c).
Definition check (c : case_t) : verdict := (checkF c, checkS c, region c).
