(* Correspondence for C19: one case = one in-memory file written by ncf2ffi1001, the text read
   back by ffi1001, auto-detection by getreader, and a second write/read cycle. *)
From Coq Require Export String.
From PNC Require Export Base.Util Model.Icartt.
Local Open Scope Z_scope.

Record case_t := Case {
  c_file : file;
  c_wrote : option (Z * list pline);      (* library text: declared count, physical lines 2.. ; None = writer raised *)
  c_read : option (list rvar);            (* ffi1001(text).variables ; None = raised *)
  c_detect : Z;                           (* getreader(text): 0 ffi1001, 1 l100, 2 anything else *)
  c_second : option (option (list rvar)); (* read(write(read(write f))) ; None = not run *)
  c_ndep_decl : Z                         (* int(line 10) of the library text, -1 if unavailable *)
}.

Definition pline_eqb (a b : pline) : bool :=
  match a, b with
  | PT x, PT y => str_eqb x y
  | PR x, PR y => list_eqb dec_ideq x y
  | _, _ => false
  end.
Definition text_eqb (a b : Z * list pline) : bool :=
  (fst a =? fst b) && list_eqb pline_eqb (snd a) (snd b).

Definition rvar_ideq (a b : rvar) : bool :=
  str_eqb (r_name a) (r_name b) && str_eqb (r_units a) (r_units b) && str_eqb (r_code_s a) (r_code_s b)
  && dec_eqb (r_code a) (r_code b) && list_eqb cell_eqb (r_cells a) (r_cells b).

Definition detect_code (r : reader_id) : Z := match r with R_ffi1001 => 0 | R_l100 => 1 end.

Definition checkF (c : case_t) : bool :=
  let f := c_file c in
  option_eqb text_eqb (impl_write f) (c_wrote c)
  && match c_wrote c with
     | None => match c_read c with None => true | Some _ => false end
     | Some (n, ls) =>
         option_eqb (list_eqb rvar_ideq) (option_map r_vars (impl_read n ls)) (c_read c)
         && (detect_code (impl_detect ls) =? c_detect c)
         && match c_second c with
            | None => true
            | Some o => option_eqb (list_eqb rvar_ideq) (option_map r_vars (impl_second f)) o
            end
     end.

(* declared header count = actual: actual = number of physical lines before the first data row *)
Fixpoint actual_header_aux (k : Z) (ls : list pline) : Z :=
  match ls with
  | PR _ :: _ => k
  | _ :: t => actual_header_aux (k + 1) t
  | [] => k
  end.
Definition actual_header (ls : list pline) : Z := actual_header_aux 1 ls.

Definition checkS (c : case_t) : bool :=
  let f := c_file c in
  if negb (in_quant f) then true else
  match c_wrote c, c_read c, spec_roundtrip f with
  | Some (n, ls), Some vs, Some sp =>
      (n =? actual_header ls)
      && (c_ndep_decl c =? Z.of_nat (length sp) - 1)
      && rvars_eqb vs sp
      && (c_detect c =? 0)
      && match c_second c with
         | Some (Some vs2) => rvars_eqb vs2 vs
         | _ => false
         end
  | _, _, _ => false
  end.

Definition region (c : case_t) : nat := region_of (c_file c).

Definition check (c : case_t) : verdict := (checkF c, checkS c, region c).
