(* Correspondence for C20.
   Case (FieldC ..)  : one field packed and unpacked by the library (pack2d / unpack).
   RCase (FileC ..)  : one ARL file written by the Python reference encoder, read by arlpackedbit.
   WCase (WriteC ..) : one in-memory file written by writearlpackedbit, decoded by the reference decoder.
   Values are integers in unit 2^ue chosen by the harness so that binary32 is exact. *)
From PNC Require Export Base.Util Model.Arl Model.ArlFile.
Local Open Scope Z_scope.

Record field_case := FieldC {
  c_h : Z;                       (* half quantum from the library's NEXP, in the unit *)
  c_rows : list (list Z);        (* input field *)
  c_nexp_rel : Z;                (* library NEXP - ue  (exponent relative to the unit) *)
  c_bytes : list (list Z);       (* library CVAR as uint8 *)
  c_unp : list (list Z);         (* library unpack(pack(x)) in the unit *)
  c_ksum : Z                     (* library KSUM *)
}.

Definition is_pow2 (r : Z) : bool := (0 <? r) && (2 ^ Z.log2 r =? r).

(* exponent of a foreign packer (the original PAKOUT rule NEXP = floor(log2 RMAX) + 1) *)
Definition nexp_rule_orig (r nexp_rel : Z) : bool :=
  if r =? 0 then true else (nexp_rel =? Z.log2 r + 1).
(* exponent of the library's pack2d since /repo fa89813: one more when RMAX exceeds 127 quanta
   (the logf band at exact powers of two ends at the same value) *)
Definition nexp_rule (r nexp_rel : Z) : bool :=
  if r =? 0 then true (* RMAX = 0: SEXP = 0, NEXP = 1, checked by the harness *)
  else nexp_rel =? nexp_rule_fixed r.
Definition nexp_ok (c : field_case) : bool := nexp_rule (rmax (c_rows c)) (c_nexp_rel c).

Definition checkF_field (c : field_case) : bool :=
  zll_eqb (pack_bytes (c_h c) (c_rows c)) (c_bytes c)
  && zll_eqb (roundtrip (c_h c) (c_rows c)) (c_unp c)
  && (ksum (pack_bytes (c_h c) (c_rows c)) =? c_ksum c)
  && nexp_ok c.

Definition checkS_field (c : field_case) : bool :=
  within (2 * c_h c) (c_rows c) (c_unp c)
  && (hdZ (first_row (c_unp c)) =? hdZ (first_row (c_rows c)))
  && (c_ksum c =? sumZ (map sumZ (c_bytes c)) mod 255)
  && forallb (forallb (fun b => (0 <=? b) && (b <=? 255))) (c_bytes c).

Definition region_field (c : field_case) : nat :=
  let r := rmax (c_rows c) in
  if r <=? 254 * c_h c then 0%nat
  else if r <=? 256 * c_h c then 1%nat else 2%nat.

(* ---- decoding of fields packed by another tool (original exponent rule, RMAX possibly in
   (127q,128q]): only `unpack` of the library is exercised; it must return exactly the running
   values of that packer when no code wrapped, whatever exponent rule was used ---------------- *)
Record decode_case := DecodeC {
  d_h : Z; d_rows : list (list Z);          (* the field and the foreign packer's half quantum *)
  d_nexp_rel : Z;                            (* its NEXP - ue *)
  d_bytes : list (list Z);                   (* the bytes it wrote *)
  d_unp : list (list Z)                      (* library unpack(bytes, VAR1, NEXP) in the unit *)
}.
Definition checkF_decode (c : decode_case) : bool :=
  zll_eqb (pack_bytes (d_h c) (d_rows c)) (d_bytes c)          (* harness: foreign packer = model at that h *)
  && nexp_rule_orig (rmax (d_rows c)) (d_nexp_rel c)
  && zll_eqb (unpack_rows (d_h c) (hdZ (first_row (d_rows c))) (d_bytes c)) (d_unp c).
Definition checkS_decode (c : decode_case) : bool :=
  (hdZ (first_row (d_unp c)) =? hdZ (first_row (d_rows c)))
  && (if bytes_ok (raw_codes (d_h c) (d_rows c)) then zll_eqb (d_unp c) (enc_recon (d_h c) (d_rows c)) else true)
  && (if rmax (d_rows c) <=? 254 * d_h c then within (2 * d_h c) (d_rows c) (d_unp c) else true).

(* ---- file layer ---------------------------------------------------------------------- *)
(* a variable as observed through the library interface / as evaluated from the model:
   key, is-surface (3-D), per time per level the unpacked rows (None = not evaluable) *)
Definition evar := (list Z * bool * list (list (option (list (list Z)))))%type.
Record eview := EView {
  e_nz1 : Z; e_nx : Z; e_ny : Z;
  e_sfclvl : list Z; e_zlvls : list (list Z);
  e_times : list (list Z);               (* [yy; mm; dd; hh] *)
  e_vars : list evar
}.

Record file_case := FileC {
  fc_ps : list period_t;                 (* the content handed to the Python reference encoder *)
  fc_bytes : list Z;                     (* the file it wrote *)
  fc_ue : Z;                             (* unit exponent: h of a record = 2^(EXP - 8 - ue) *)
  fc_v1 : list (list Z * Z);             (* VAR1 text -> value in the unit (Python float()) *)
  fc_rows : list (list (list (list (list Z))));  (* t, level, var: the field that was packed *)
  fc_obs : option eview                  (* what arlpackedbit returned (None = raised) *)
}.

Fixpoint lookup (k : list Z) (tab : list (list Z * Z)) : option Z :=
  match tab with [] => None | (t, z) :: r => if zlist_eqb k t then Some z else lookup k r end.
Definition h_of (ue ex : Z) : option Z := if 0 <=? ex - 8 - ue then Some (2 ^ (ex - 8 - ue)) else None.

Definition eval_rec (ue : Z) (tab : list (list Z * Z)) (nx : Z) (r : option librec)
  : option (list (list Z)) :=
  match r with
  | None => None
  | Some (ex, v1t, data) =>
      match h_of ue ex, lookup v1t tab with
      | Some h, Some v1 => Some (unpack_rows h v1 (rows_of nx data))
      | _, _ => None
      end
  end.
Definition eval_view (ue : Z) (tab : list (list Z * Z)) (v : libview) : eview :=
  EView (lb_nz1 v) (lb_nx v) (lb_ny v) (lb_sfclvl v) (lb_zlvls v) (map time_fields (lb_times v))
    (map (fun x => (lv_key x, lv_sfc x, map (map (eval_rec ue tab (lb_nx v))) (lv_recs x))) (lb_vars v)).

Definition evar_eqb (a b : evar) : bool :=
  zlist_eqb (fst (fst a)) (fst (fst b)) && Bool.eqb (snd (fst a)) (snd (fst b))
  && list_eqb (list_eqb (option_eqb zll_eqb)) (snd a) (snd b).
Definition eview_eqb (a b : eview) : bool :=
  (e_nz1 a =? e_nz1 b) && (e_nx a =? e_nx b) && (e_ny a =? e_ny b)
  && zlist_eqb (e_sfclvl a) (e_sfclvl b) && zll_eqb (e_zlvls a) (e_zlvls b)
  && zll_eqb (e_times a) (e_times b) && list_eqb evar_eqb (e_vars a) (e_vars b).

Definition var_eqb (a b : var_t) : bool :=
  zlist_eqb (v_key a) (v_key b) && (v_ck a =? v_ck b) && (v_exp a =? v_exp b)
  && zlist_eqb (v_prec a) (v_prec b) && zlist_eqb (v_var1 a) (v_var1 b) && zlist_eqb (v_data a) (v_data b).
Definition lvl_eqb (a b : lvl_t) : bool :=
  zlist_eqb (l_text a) (l_text b) && list_eqb var_eqb (l_vars a) (l_vars b).
Definition period_eqb (a b : period_t) : bool :=
  zlist_eqb (p_time a) (p_time b) && zlist_eqb (p_grid a) (p_grid b) && zlist_eqb (p_fixed a) (p_fixed b)
  && (p_nx a =? p_nx b) && (p_ny a =? p_ny b) && zlist_eqb (p_vsys2 a) (p_vsys2 b)
  && zlist_eqb (p_pad a) (p_pad b) && list_eqb lvl_eqb (p_levels a) (p_levels b).

(* the record of the content is the packing of the field (encoder agreement incl. pack2d's
   model): bytes, exponent rule, VAR1, checksum *)
Definition rec_matches (rule : Z -> Z -> bool) (ue : Z) (tab : list (list Z * Z)) (v : var_t) (rows : list (list Z)) : bool :=
  match h_of ue (v_exp v), lookup (v_var1 v) tab with
  | Some h, Some v1 =>
      zlist_eqb (concat (pack_bytes h rows)) (v_data v)
      && (v1 =? hdZ (first_row rows))
      && (v_ck v =? ksum (pack_bytes h rows))
      && (if rmax rows =? 0 then v_exp v =? 1 else rule (rmax rows) (v_exp v - ue))
  | _, _ => false
  end.
Definition lvl_matches rule ue tab (l : lvl_t) (rs : list (list (list Z))) : bool :=
  (length (l_vars l) =? length rs)%nat
  && forallb (fun x => rec_matches rule ue tab (fst x) (snd x)) (combine (l_vars l) rs).
Definition period_matches rule ue tab (p : period_t) (rs : list (list (list (list Z)))) : bool :=
  (length (p_levels p) =? length rs)%nat
  && forallb (fun x => lvl_matches rule ue tab (fst x) (snd x)) (combine (p_levels p) rs).
Definition content_matches rule ue tab (ps : list period_t) rs : bool :=
  (length ps =? length rs)%nat
  && forallb (fun x => period_matches rule ue tab (fst x) (snd x)) (combine ps rs).

Definition uniform (ps : list period_t) : bool :=
  match ps with [] => false | p0 :: t => forallb (same_layout p0) t && forallb (same_keys p0) t end.

Definition checkF_file (c : file_case) : bool :=
  (* harness consistency: Python reference encoder = Coq encoder, decoder inverts it,
     the records are the packing of the fields *)
  zlist_eqb (enc (fc_ps c)) (fc_bytes c)
  && option_eqb (list_eqb period_eqb) (dec (fc_bytes c)) (Some (fc_ps c))
  && forallb wf_period (fc_ps c) && uniform (fc_ps c)
  && content_matches nexp_rule_orig (fc_ue c) (fc_v1 c) (fc_ps c) (fc_rows c)   (* files come from a foreign packer *)
  (* faithfulness: library = model of the library *)
  && option_eqb eview_eqb
       (option_map (eval_view (fc_ue c) (fc_v1 c)) (impl_read std_sizes (fc_bytes c))) (fc_obs c).

(* every field read back lies within one quantum of the field that was packed, for the
   fields inside the proved range (RMAX <= 127 q) *)
Definition field_close (ue : Z) (p0 : period_t) (ps : list period_t) rs (o : eview) : bool :=
  forallb (fun x : evar =>
    let '(k, sfc, vals) := x in
    forallb (fun y : period_t * list (list (list (list Z))) * list (option (list (list Z))) =>
      let '(p, prs, vs) := y in
      let lv := if sfc then firstn 1 (combine (p_levels p) prs) else tl (combine (p_levels p) prs) in
      let flds := concat (map (fun lr : lvl_t * list (list (list Z)) =>
                    concat (map (fun vr : var_t * list (list Z) =>
                      if zlist_eqb k (v_key (fst vr)) then [vr] else []) (combine (l_vars (fst lr)) (snd lr)))) lv) in
      (length flds =? length vs)%nat
      && forallb (fun z : (var_t * list (list Z)) * option (list (list Z)) =>
           match h_of ue (v_exp (fst (fst z))), snd z with
           | Some h, Some got =>
               if rmax (snd (fst z)) <=? 254 * h then within (2 * h) (snd (fst z)) got else true
           | _, _ => false
           end) (combine flds vs))
      (combine (combine ps rs) vals))
    (e_vars o).

Definition checkS_file (c : file_case) : bool :=
  match fc_obs c, fc_ps c with
  | Some o, p0 :: _ =>
      option_eqb eview_eqb (option_map (eval_view (fc_ue c) (fc_v1 c)) (spec_view (fc_ps c))) (Some o)
      && forallb cksums_ok (fc_ps c)
      && (if keys_disjoint p0 then field_close (fc_ue c) p0 (fc_ps c) (fc_rows c) o else true)
  | _, _ => false
  end.

Definition region_file (c : file_case) : nat :=
  match fc_ps c with
  | [] => 9%nat
  | p0 :: _ =>
      if negb (lib_grid_ok p0 && lvl_texts_ok p0) then 5%nat
      else if negb (keys_disjoint p0) then 6%nat
      else 0%nat
  end.

(* ---- writer -------------------------------------------------------------------------- *)
Record write_case := WriteC {
  wc_nx : Z; wc_ny : Z; wc_ue : Z;
  wc_times : list (list Z);                         (* [yy; mm; dd; hh] per time *)
  wc_lvltxt : list (list Z);                        (* expected height texts, surface first *)
  wc_keys : list (list (list Z));                   (* keys per level *)
  wc_v1 : list (list Z * Z);                        (* '%14.7E' text of every VAR1 -> value *)
  wc_rows : list (list (list (list (list Z))));     (* t, level, var: the fields *)
  wc_in : winput;                                   (* the same input for the Gallina writer *)
  wc_obs : option (list Z)                          (* bytes of the file written (None = raised) *)
}.

(* faithfulness: the library's output (or its raising) is the Gallina writer's *)
Definition checkF_write (c : write_case) : bool :=
  wf_winput (wc_in c) && option_eqb zlist_eqb (impl_write (wc_in c)) (wc_obs c).

Definition checkS_write (c : write_case) : bool :=
  match wc_obs c with
  | None => false
  | Some bs =>
      match dec bs with
      | None => false
      | Some ps =>
          zll_eqb (map (fun p => time_fields (p_time p)) ps) (wc_times c)
          && forallb (fun p => (p_nx p =? wc_nx c) && (p_ny p =? wc_ny c)
                               && zll_eqb (map l_text (p_levels p)) (wc_lvltxt c)
                               && list_eqb zll_eqb (map (fun l => map v_key (l_vars l)) (p_levels p)) (wc_keys c)
                               && cksums_ok p) ps
          && content_matches nexp_rule (wc_ue c) (wc_v1 c) ps (wc_rows c)
      end
  end.

(* ---- dispatch ------------------------------------------------------------------------ *)
Inductive case_t := Case (c : field_case) | DCase (c : decode_case) | RCase (c : file_case) | WCase (c : write_case).

Definition checkF (c : case_t) : bool :=
  match c with Case f => checkF_field f | DCase d => checkF_decode d | RCase f => checkF_file f | WCase w => checkF_write w end.
Definition checkS (c : case_t) : bool :=
  match c with Case f => checkS_field f | DCase d => checkS_decode d | RCase f => checkS_file f | WCase w => checkS_write w end.
Definition region (c : case_t) : nat :=
  match c with Case f => region_field f | DCase _ => 0%nat | RCase f => region_file f | WCase _ => 0%nat end.

Definition check (c : case_t) : verdict := (checkF c, checkS c, region c).
