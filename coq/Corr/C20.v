(* Correspondence for C20: one case = one field packed and unpacked by the library.
   Values are integers in unit 2^ue chosen by the harness so that binary32 is exact. *)
From PNC Require Import Base.Util Model.Arl.
Local Open Scope Z_scope.

Record case_t := Case {
  c_h : Z;                       (* half quantum from the library's NEXP, in the unit *)
  c_rows : list (list Z);        (* input field *)
  c_nexp_rel : Z;                (* library NEXP - ue  (exponent relative to the unit) *)
  c_bytes : list (list Z);       (* library CVAR as uint8 *)
  c_unp : list (list Z);         (* library unpack(pack(x)) in the unit *)
  c_ksum : Z                     (* library KSUM *)
}.

Definition is_pow2 (r : Z) : bool := (0 <? r) && (2 ^ Z.log2 r =? r).

Definition nexp_ok (c : case_t) : bool :=
  let r := rmax (c_rows c) in
  if r =? 0 then c_nexp_rel c - 1 + 0 =? c_nexp_rel c - 1 (* RMAX = 0: SEXP = 0, checked by harness *)
  else (c_nexp_rel c =? Z.log2 r + 1)
       || (is_pow2 r && (c_nexp_rel c =? Z.log2 r))   (* logf band at exact powers of two *).

Definition checkF (c : case_t) : bool :=
  zll_eqb (pack_bytes (c_h c) (c_rows c)) (c_bytes c)
  && zll_eqb (roundtrip (c_h c) (c_rows c)) (c_unp c)
  && (ksum (pack_bytes (c_h c) (c_rows c)) =? c_ksum c)
  && nexp_ok c.

Definition checkS (c : case_t) : bool :=
  within (2 * c_h c) (c_rows c) (c_unp c)
  && (hdZ (first_row (c_unp c)) =? hdZ (first_row (c_rows c)))
  && (c_ksum c =? sumZ (map sumZ (c_bytes c)) mod 255)
  && forallb (forallb (fun b => (0 <=? b) && (b <=? 255))) (c_bytes c).

Definition region (c : case_t) : nat :=
  let r := rmax (c_rows c) in
  if r <=? 254 * c_h c then 0%nat
  else if r <=? 256 * c_h c then 1%nat else 2%nat.

Definition check (c : case_t) : verdict := (checkF c, checkS c, region c).
